#!/venv/bin/python
"""
Systematic mutation sweep (development aid, not a registered check): apply generic AST mutation operators to
every site of /repo they match, run all property rules on the in-memory variant (Model overrides - nothing is
written to /repo) and list the survivors per operator.  Survivors are triaged by hand: equivalent mutant,
outside every property, or a gap to close.

usage: tools/automutate.py [operator ...] [--limit N] [--json out.json]
"""
import ast
import json
import os
import sys
from concurrent.futures import ProcessPoolExecutor

VERIF = os.path.dirname(os.path.dirname(os.path.abspath(__file__)))
sys.path.insert(0, VERIF)
REPO = os.environ.get('ALGOPY_REPO', '/repo')

ALG = 'algopy/utpm/algorithms.py'
UT = 'algopy/utpm/utpm.py'
TR = 'algopy/tracer/tracer.py'


def _splice(src_lines, node, new_text):
    """replace the source text of a single-line node"""
    if node.lineno != node.end_lineno:
        return None
    ln = src_lines[node.lineno - 1]
    # col offsets are utf8 byte offsets; sources are ascii where we mutate
    out = list(src_lines)
    out[node.lineno - 1] = ln[:node.col_offset] + new_text + ln[node.end_col_offset:]
    return '\n'.join(out) + '\n'


def _funcs(tree):
    for n in ast.walk(tree):
        if isinstance(n, ast.FunctionDef):
            yield n


def _is_pb(name):
    return name.startswith('pb_') or name.startswith('_pb_') or name.endswith('_pullback')


def op_aug_to_assign(rel, src, tree, lines):
    """`x += e` -> `x = e` inside pullback functions (accumulate vs overwrite)"""
    for f in _funcs(tree):
        if not _is_pb(f.name):
            continue
        for n in ast.walk(f):
            if isinstance(n, ast.AugAssign) and isinstance(n.op, ast.Add) and n.lineno == n.end_lineno:
                txt = '%s = %s' % (ast.get_source_segment(src, n.target), ast.get_source_segment(src, n.value))
                new = _splice(lines, n, txt)
                if new:
                    yield f.name, n.lineno, txt, new


def op_assign_to_aug(rel, src, tree, lines):
    """`x[...] = e` -> `x[...] += e` in forward kernels (spurious accumulation into an uninitialised/old buffer)"""
    for f in _funcs(tree):
        if _is_pb(f.name) or not f.name.startswith('_'):
            continue
        for n in ast.walk(f):
            if isinstance(n, ast.Assign) and len(n.targets) == 1 and isinstance(n.targets[0], ast.Subscript) and n.lineno == n.end_lineno:
                txt = '%s += %s' % (ast.get_source_segment(src, n.targets[0]), ast.get_source_segment(src, n.value))
                new = _splice(lines, n, txt)
                if new:
                    yield f.name, n.lineno, txt, new


def op_range_bound(rel, src, tree, lines):
    """range(a, b) -> range(a, b-1) / range(a+1, b); range(b) -> range(b-1) / range(1, b)"""
    for f in _funcs(tree):
        if not f.name.startswith('_') or f.name.startswith('__'):
            continue
        for n in ast.walk(f):
            if isinstance(n, ast.Call) and isinstance(n.func, ast.Name) and n.func.id == 'range' and n.lineno == n.end_lineno and not n.keywords:
                a = [ast.get_source_segment(src, x) for x in n.args]
                if len(a) == 1:
                    alts = ['range(%s - 1)' % a[0], 'range(1, %s)' % a[0], 'range(%s + 1)' % a[0]]
                elif len(a) == 2:
                    alts = ['range(%s, %s - 1)' % (a[0], a[1]), 'range(%s + 1, %s)' % (a[0], a[1]), 'range(%s, %s + 1)' % (a[0], a[1])]
                else:
                    continue
                for txt in alts:
                    new = _splice(lines, n, txt)
                    if new:
                        yield f.name, n.lineno, txt, new


def op_slice_bound(rel, src, tree, lines):
    """x[a:b] -> x[a:b-1] / x[a+1:b] on the first axis of *_data arrays in kernels"""
    for f in _funcs(tree):
        if not f.name.startswith('_') or f.name.startswith('__'):
            continue
        for n in ast.walk(f):
            if not (isinstance(n, ast.Subscript) and n.lineno == n.end_lineno):
                continue
            sl = n.slice
            first = sl.elts[0] if isinstance(sl, ast.Tuple) and sl.elts else sl
            if not isinstance(first, ast.Slice) or first.step is not None:
                continue
            lo = ast.get_source_segment(src, first.lower) if first.lower is not None else None
            hi = ast.get_source_segment(src, first.upper) if first.upper is not None else None
            alts = []
            if hi is not None:
                alts.append(('%s:%s - 1' % (lo or '', hi)))
                alts.append(('%s:%s + 1' % (lo or '', hi)))
            if lo is not None:
                alts.append(('%s + 1:%s' % (lo, hi or '')))
            for alt in alts:
                # rebuild the subscript text with the first slice replaced
                seg = ast.get_source_segment(src, n)
                val = ast.get_source_segment(src, n.value)
                inner = seg[len(val):].strip()[1:-1]
                parts = inner.split(',')
                parts[0] = alt
                txt = '%s[%s]' % (val, ','.join(parts))
                new = _splice(lines, n, txt)
                if new:
                    yield f.name, n.lineno, txt, new


def op_drop_copy(rel, src, tree, lines):
    """e.copy() -> e"""
    for f in _funcs(tree):
        for n in ast.walk(f):
            if isinstance(n, ast.Call) and isinstance(n.func, ast.Attribute) and n.func.attr == 'copy' and not n.args and not n.keywords \
                    and n.lineno == n.end_lineno:
                txt = ast.get_source_segment(src, n.func.value)
                new = _splice(lines, n, txt)
                if new:
                    yield f.name, n.lineno, txt, new


def op_swap_args(rel, src, tree, lines):
    """cls._k(a, b, ...) -> cls._k(b, a, ...) for kernel calls with two leading positional names"""
    for f in _funcs(tree):
        for n in ast.walk(f):
            if isinstance(n, ast.Call) and isinstance(n.func, ast.Attribute) and n.func.attr.startswith('_') and not n.func.attr.startswith('__') \
                    and isinstance(n.func.value, ast.Name) and n.func.value.id in ('cls', 'UTPM') and len(n.args) >= 2 \
                    and n.lineno == n.end_lineno and not any(isinstance(a, ast.Starred) for a in n.args[:2]):
                a0, a1 = ast.get_source_segment(src, n.args[0]), ast.get_source_segment(src, n.args[1])
                if a0 == a1:
                    continue
                seg = ast.get_source_segment(src, n)
                fn = ast.get_source_segment(src, n.func)
                rest = [ast.get_source_segment(src, a) for a in n.args[2:]] + \
                       [('%s=%s' % (k.arg, ast.get_source_segment(src, k.value))) if k.arg else '**' + ast.get_source_segment(src, k.value) for k in n.keywords]
                txt = '%s(%s)' % (fn, ', '.join([a1, a0] + rest))
                new = _splice(lines, n, txt)
                if new:
                    yield f.name, n.lineno, txt, new


def op_index_const(rel, src, tree, lines):
    """x[0, ...] -> x[1, ...] and x[d] -> x[d-1] on the coefficient axis in kernels (reads only)"""
    for f in _funcs(tree):
        if not f.name.startswith('_') or f.name.startswith('__'):
            continue
        for n in ast.walk(f):
            if not (isinstance(n, ast.Subscript) and isinstance(n.ctx, ast.Load) and n.lineno == n.end_lineno):
                continue
            if not (isinstance(n.value, ast.Name) and n.value.id.endswith('_data')):
                continue
            sl = n.slice
            first = sl.elts[0] if isinstance(sl, ast.Tuple) and sl.elts else sl
            if isinstance(first, ast.Name):
                alt = '%s - 1' % first.id
            elif isinstance(first, ast.Constant) and first.value == 0 and first.value is not False:
                alt = '1'
            else:
                continue
            seg = ast.get_source_segment(src, n)
            val = n.value.id
            inner = seg[len(val):].strip()[1:-1]
            parts = inner.split(',')
            parts[0] = alt
            txt = '%s[%s]' % (val, ','.join(parts))
            new = _splice(lines, n, txt)
            if new:
                yield f.name, n.lineno, txt, new


def op_p_index(rel, src, tree, lines):
    """direction index p -> 0 in subscripts inside loops over p (direction mixing)"""
    for f in _funcs(tree):
        for lp in ast.walk(f):
            if not (isinstance(lp, ast.For) and isinstance(lp.target, ast.Name) and lp.target.id in ('p', 'np')):
                continue
            pv = lp.target.id
            for n in ast.walk(lp):
                if isinstance(n, ast.Subscript) and isinstance(n.ctx, ast.Load) and n.lineno == n.end_lineno and isinstance(n.slice, ast.Tuple):
                    for i, e in enumerate(n.slice.elts):
                        if isinstance(e, ast.Name) and e.id == pv:
                            new = _splice(lines, e, '0')
                            if new:
                                yield f.name, n.lineno, '%s with %s->0 at axis %d' % (ast.get_source_segment(src, n), pv, i), new


def op_inplace_param(rel, src, tree, lines):
    """`z = x op y` -> `x op= y; z = x` is too invasive; instead: `numpy.xxx(a, b)` -> `numpy.xxx(a, b, out=a)` for parameter a"""
    for f in _funcs(tree):
        params = {a.arg for a in f.args.args}
        for n in ast.walk(f):
            if isinstance(n, ast.Call) and isinstance(n.func, ast.Attribute) and isinstance(n.func.value, ast.Name) and n.func.value.id == 'numpy' \
                    and n.func.attr in ('add', 'subtract', 'multiply', 'divide', 'negative', 'sqrt', 'exp', 'log', 'sin', 'cos', 'conjugate') \
                    and n.args and isinstance(n.args[0], ast.Name) and n.args[0].id in params and not any(k.arg == 'out' for k in n.keywords) \
                    and n.lineno == n.end_lineno:
                seg = ast.get_source_segment(src, n)
                txt = seg[:-1] + ', out=%s)' % n.args[0].id
                new = _splice(lines, n, txt)
                if new:
                    yield f.name, n.lineno, txt, new


def op_del_stmt(rel, src, tree, lines):
    """delete one simple statement (replace by `pass`) - tracer.py everywhere; utpm.py / algorithms.py in pullback code"""
    for f in _funcs(tree):
        if rel != TR and not _is_pb(f.name):
            continue
        for n in ast.walk(f):
            if isinstance(n, (ast.Assign, ast.AugAssign)) or (isinstance(n, ast.Expr) and isinstance(n.value, ast.Call)):
                if n.lineno != n.end_lineno:
                    continue
                if isinstance(n, ast.Expr) and isinstance(n.value.func, ast.Name) and n.value.func.id == 'print':
                    continue
                new = _splice(lines, n, 'pass')
                if new:
                    yield f.name, n.lineno, 'delete: ' + ast.get_source_segment(src, n)[:80], new


def op_drop_reverse(rel, src, tree, lines):
    """x[::-1] -> x  and reversed(x) -> x"""
    for f in _funcs(tree):
        for n in ast.walk(f):
            if isinstance(n, ast.Subscript) and isinstance(n.slice, ast.Slice) and n.slice.lower is None and n.slice.upper is None \
                    and n.slice.step is not None and ast.get_source_segment(src, n.slice.step) == '-1' and n.lineno == n.end_lineno:
                new = _splice(lines, n, ast.get_source_segment(src, n.value))
                if new:
                    yield f.name, n.lineno, 'unreverse: ' + ast.get_source_segment(src, n)[:60], new


GL = 'algopy/globalfuncs.py'


def op_drop_kwarg(rel, src, tree, lines):
    """f(a, k=k) -> f(a): an optional argument of the enclosing function is not handed on"""
    for f in _funcs(tree):
        params = {a.arg for a in f.args.args + f.args.kwonlyargs}
        for n in ast.walk(f):
            if isinstance(n, ast.Call) and n.lineno == n.end_lineno and n.keywords:
                for i, k in enumerate(n.keywords):
                    if k.arg is None or k.arg == 'out' or not (isinstance(k.value, ast.Name) and k.value.id in params):
                        continue
                    fn = ast.get_source_segment(src, n.func)
                    parts = [ast.get_source_segment(src, a) for a in n.args] + \
                            [('%s=%s' % (q.arg, ast.get_source_segment(src, q.value))) if q.arg else '**' + ast.get_source_segment(src, q.value)
                             for j, q in enumerate(n.keywords) if j != i]
                    txt = '%s(%s)' % (fn, ', '.join(parts))
                    new = _splice(lines, n, txt)
                    if new:
                        yield f.name, n.lineno, 'drop %s: %s' % (k.arg, txt[:70]), new


def op_axis_const(rel, src, tree, lines):
    """axis=c -> axis=c+1 in reductions of kernels"""
    for f in _funcs(tree):
        for n in ast.walk(f):
            if isinstance(n, ast.Call) and n.lineno == n.end_lineno:
                for k in n.keywords:
                    if k.arg == 'axis' and isinstance(k.value, ast.Constant) and isinstance(k.value.value, int):
                        new = _splice(lines, k.value, str(k.value.value + 1))
                        if new:
                            yield f.name, n.lineno, 'axis %d->%d: %s' % (k.value.value, k.value.value + 1, ast.get_source_segment(src, n)[:60]), new


def op_tuple_slot(rel, src, tree, lines):
    """out[0] <-> out[1] (a component taken from the wrong slot of the output tuple)"""
    for f in _funcs(tree):
        for n in ast.walk(f):
            if isinstance(n, ast.Subscript) and isinstance(n.value, ast.Name) and n.value.id in ('out', 'retval', 'outs') and isinstance(n.slice, ast.Constant) \
                    and n.slice.value in (0, 1) and n.lineno == n.end_lineno:
                new = _splice(lines, n.slice, str(1 - n.slice.value))
                if new:
                    yield f.name, n.lineno, 'slot: ' + ast.get_source_segment(src, n), new


def op_array_to_asarray(rel, src, tree, lines):
    """numpy.array(x) -> numpy.asarray(x): a copy becomes a possible alias"""
    for f in _funcs(tree):
        for n in ast.walk(f):
            if isinstance(n, ast.Call) and ast.get_source_segment(src, n.func) == 'numpy.array' and n.lineno == n.end_lineno and n.args \
                    and isinstance(n.args[0], (ast.Name, ast.Attribute)):
                new = _splice(lines, n.func, 'numpy.asarray')
                if new:
                    yield f.name, n.lineno, ast.get_source_segment(src, n)[:60], new


def op_zeros_to_empty(rel, src, tree, lines):
    """numpy.zeros(...) / zeros_like -> numpy.empty(...) / empty_like: an accumulation target starts from uninitialised memory"""
    for f in _funcs(tree):
        for n in ast.walk(f):
            if isinstance(n, ast.Call) and n.lineno == n.end_lineno:
                seg = ast.get_source_segment(src, n.func)
                if seg in ('numpy.zeros', 'numpy.zeros_like'):
                    new = _splice(lines, n.func, seg.replace('zeros', 'empty'))
                    if new:
                        yield f.name, n.lineno, ast.get_source_segment(src, n)[:70], new


def op_drop_dtype(rel, src, tree, lines):
    """f(shape, dtype=e) -> f(shape): the allocation falls back to float64"""
    for f in _funcs(tree):
        for n in ast.walk(f):
            if isinstance(n, ast.Call) and n.lineno == n.end_lineno and any(k.arg == 'dtype' for k in n.keywords):
                fn = ast.get_source_segment(src, n.func)
                if fn.split('.')[-1] not in ('zeros', 'empty', 'ones', 'zeros_like', 'empty_like', '__zeros__', 'array', 'asarray'):
                    continue
                parts = [ast.get_source_segment(src, a) for a in n.args] + \
                        [('%s=%s' % (q.arg, ast.get_source_segment(src, q.value))) for q in n.keywords if q.arg != 'dtype']
                txt = '%s(%s)' % (fn, ', '.join(parts))
                new = _splice(lines, n, txt)
                if new:
                    yield f.name, n.lineno, txt[:70], new


OPERATORS = {
    'zeros_to_empty': (op_zeros_to_empty, [ALG, UT, TR]),
    'drop_dtype': (op_drop_dtype, [ALG, UT, TR]),
    'drop_kwarg': (op_drop_kwarg, [UT, GL, TR]),
    'axis_const': (op_axis_const, [ALG, UT]),
    'tuple_slot': (op_tuple_slot, [ALG, UT]),
    'array_to_asarray': (op_array_to_asarray, [ALG, UT, TR]),
    'aug_to_assign': (op_aug_to_assign, [ALG, UT]),
    'assign_to_aug': (op_assign_to_aug, [ALG]),
    'range_bound': (op_range_bound, [ALG]),
    'slice_bound': (op_slice_bound, [ALG]),
    'drop_copy': (op_drop_copy, [ALG, UT, TR]),
    'swap_args': (op_swap_args, [UT]),
    'index_const': (op_index_const, [ALG]),
    'p_index': (op_p_index, [ALG, UT]),
    'inplace_param': (op_inplace_param, [ALG, UT]),
    'del_stmt': (op_del_stmt, [TR, UT, ALG]),
    'drop_reverse': (op_drop_reverse, [ALG, UT, TR]),
}


def _run(job):
    opname, rel, fname, lineno, txt, new_src = job
    from verif.runner import Ctx, registry
    try:
        ast.parse(new_src)
    except SyntaxError:
        return opname, rel, fname, lineno, txt, 'syntax', {}
    reg = registry()
    try:
        ctx = Ctx(repo=REPO, overrides={rel: new_src})
    except Exception as e:
        return opname, rel, fname, lineno, txt, 'unknown', {'model': str(e)[:100]}
    hit, unk = {}, {}
    for p, ent in reg.items():
        for rule in ent['rules']:
            try:
                r = rule(ctx)
            except Exception as e:
                unk.setdefault(p, []).append('%s: %s' % (type(e).__name__, str(e)[:80]))
                continue
            v = [f_ for f_ in r.findings if f_.severity == 'VIOLATION']
            if v:
                hit.setdefault(p, []).append(r.rule)
            if r.unknowns:
                unk.setdefault(p, []).append(r.rule)
    status = 'killed' if hit else ('unknown' if unk else 'survived')
    return opname, rel, fname, lineno, txt, status, {'violations': hit, 'unknown': unk}


def main():
    args = [a for a in sys.argv[1:] if not a.startswith('--')]
    limit = None
    out_json = None
    for i, a in enumerate(sys.argv):
        if a == '--limit':
            limit = int(sys.argv[i + 1])
            args.remove(sys.argv[i + 1])
        if a == '--json':
            out_json = sys.argv[i + 1]
            args.remove(sys.argv[i + 1])
    ops = args or list(OPERATORS)
    jobs = []
    for opname in ops:
        fn, files = OPERATORS[opname]
        n = 0
        for rel in files:
            src = open(os.path.join(REPO, rel), encoding='utf-8').read()
            tree = ast.parse(src)
            lines = src.split('\n')
            if lines and lines[-1] == '':
                lines = lines[:-1]
            for fname, lineno, txt, new in fn(rel, src, tree, lines):
                if limit is not None and n >= limit:
                    break
                jobs.append((opname, rel, fname, lineno, txt, new))
                n += 1
    print('%d mutants' % len(jobs))
    # baseline unknown/violations must be empty (the sweep assumes a clean tree)
    res = []
    with ProcessPoolExecutor(max_workers=16) as ex:
        for r in ex.map(_run, jobs, chunksize=2):
            res.append(r)
    by = {}
    for opname, rel, fname, lineno, txt, status, detail in res:
        by.setdefault(opname, {}).setdefault(status, []).append((rel, fname, lineno, txt, detail))
    for opname, d in by.items():
        tot = sum(len(v) for v in d.values())
        print('== %s: %d mutants: %s' % (opname, tot, ', '.join('%s=%d' % (k, len(v)) for k, v in sorted(d.items()))))
        for rel, fname, lineno, txt, detail in d.get('survived', []):
            print('   SURVIVED %s:%d %s: %s' % (rel, lineno, fname, txt[:110]))
        for rel, fname, lineno, txt, detail in d.get('unknown', []):
            print('   UNKNOWN  %s:%d %s: %s  %s' % (rel, lineno, fname, txt[:80], detail.get('unknown') or detail))
    if out_json:
        json.dump([{'op': a, 'file': b, 'func': c, 'line': d, 'text': e, 'status': f, 'detail': g} for a, b, c, d, e, f, g in res],
                  open(out_json, 'w'), indent=1)


if __name__ == '__main__':
    main()
