#!/venv/bin/python
"""
Apply every seeded change under /verif/seeded/<id>/patch.diff to a scratch
worktree of /repo (under $TMPDIR, removed afterwards) and run every registered
check against it.  Prints which checks report a VIOLATION for which seed.

usage: tools/seed_matrix.py [seed ids...]      (default: all)
"""
import json, os, subprocess, sys, tempfile, shutil
from concurrent.futures import ThreadPoolExecutor

VERIF = os.path.dirname(os.path.dirname(os.path.abspath(__file__)))
PROPS = [c['property_id'] for c in json.load(open(os.path.join(VERIF, 'MANIFEST.json')))['checks']]


def run(seed):
    tmp = tempfile.mkdtemp(prefix='algopy-seed-')
    wt = os.path.join(tmp, 'wt')
    subprocess.run(['git', '-C', '/repo', 'worktree', 'add', '-q', '--detach', wt, 'HEAD'], check=True)
    res = {}
    try:
        r = subprocess.run(['git', '-C', wt, 'apply', os.path.join(VERIF, 'seeded', seed, 'patch.diff')], capture_output=True, text=True)
        if r.returncode != 0:
            return seed, {'apply': 'FAILED ' + r.stderr[:100]}
        env = dict(os.environ, ALGOPY_REPO=wt, VERIF_EVIDENCE_DIR=os.path.join(tmp, 'ev'), VERIF_REPLAY_DIR=os.path.join(tmp, 'rp'))
        for p in PROPS:
            o = subprocess.run([os.path.join(VERIF, 'check'), p], capture_output=True, text=True, env=env)
            rules = sorted({ln.split('[')[1].split(']')[0] for ln in o.stdout.splitlines() if ': [' in ln and ln.split(':')[0].endswith('.py')})
            res[p] = (o.returncode, rules)
    finally:
        subprocess.run(['git', '-C', '/repo', 'worktree', 'remove', '--force', wt])
        shutil.rmtree(tmp, ignore_errors=True)
    return seed, res


def main():
    seeds = sys.argv[1:] or sorted(d for d in os.listdir(os.path.join(VERIF, 'seeded')) if os.path.isdir(os.path.join(VERIF, 'seeded', d)))
    out = {}
    with ThreadPoolExecutor(max_workers=8) as ex:
        for seed, res in ex.map(run, seeds):
            out[seed] = res
            meta = json.load(open(os.path.join(VERIF, 'seeded', seed, 'meta.json')))
            hit = {p: r for p, (rc, r) in res.items() if rc == 1} if 'apply' not in res else {}
            err = [p for p, v in res.items() if p != 'apply' and v[0] == 2]
            print('%-7s target=%s  %scaught by: %s%s' % (seed, meta['property'], ('PATCH DOES NOT APPLY  ' if 'apply' in res else ''), ', '.join('%s(%s)' % (p, '/'.join(r)) for p, r in sorted(hit.items())) or '-- MISSED --',
                                                     ('  analysis-error: %s' % err) if err else ''))
    json.dump(out, open(os.path.join(VERIF, 'seeded', 'matrix.json'), 'w'), indent=1, sort_keys=True)


if __name__ == '__main__':
    main()
