#!/venv/bin/python
"""regenerate verif/known_used_params.json from the tree at ALGOPY_REPO (default /repo): the parameters each function in scope
effectively uses today.  Run only when the pinned tree changes by a `fix:` commit; the table is the reference for R-param-used."""
import json, os, sys
sys.path.insert(0, os.path.join(os.path.dirname(os.path.abspath(__file__)), '..'))
from verif import model as M
from verif import rules_params as RP
m = M.Model()
tab = {}
for fi in RP.functions_in_scope(m):
    u = RP.frozen_params(fi)
    if u:
        tab[RP._f(fi)] = u
json.dump(tab, open(os.path.join(os.path.dirname(os.path.abspath(RP.__file__)), 'known_used_params.json'), 'w'), indent=0, sort_keys=True)
print(len(tab), 'functions,', sum(len(v) for v in tab.values()), 'parameters')
