#!/venv/bin/python
"""dev aid: mutation sweep for E7 - swap the operands of every dot, drop every transposition inside the functions E7 covers, count what the symbolic shape check reports (survivors are products of square matrices)"""
import sys, ast
sys.path.insert(0,'/verif')
from verif import model as M, rules_dims as RD
from verif.shapes import check_function
REPO='/repo'
ALG='algopy/utpm/algorithms.py'; UT='algopy/utpm/utpm.py'
def conflicts(m):
    n=0
    ci = m.cls('RawAlgorithmsMixIn')
    names = RD._callee_orders(m)
    for name, alts in RD.KERNEL_SIGS.items():
        fi = ci.methods.get(name)
        for alt in alts:
            a = RD._actual(alt, fi)
            n += len(check_function(m, fi, a, RD.KERNEL_SIGS, names).conflicts)
    for name, alts in RD.WRAPPER_SIGS.items():
        fi = m.lookup_method('UTPM', name)
        for alt in alts:
            alt = dict(alt, params={k: v for k, v in alt['params'].items() if k != 'ret_obj'})
            a = RD._actual(alt, fi)
            n += len(check_function(m, fi, a, RD.KERNEL_SIGS, names).conflicts)
    return n
def splice(lines, node, txt):
    if node.lineno != node.end_lineno: return None
    ln = lines[node.lineno-1]
    out = list(lines); out[node.lineno-1] = ln[:node.col_offset] + txt + ln[node.end_col_offset:]
    return '\n'.join(out)+'\n'
covered = {ALG: set(RD.KERNEL_SIGS), UT: set(RD.WRAPPER_SIGS)}
res = {'swap_dot': [0,0,[]], 'drop_transpose': [0,0,[]], 'shape_operand': [0,0,[]]}
for rel, fnames in covered.items():
    src = open(REPO+'/'+rel).read(); tree = ast.parse(src); lines = src.split('\n')
    for f in ast.walk(tree):
        if not (isinstance(f, ast.FunctionDef) and f.name in fnames): continue
        for n in ast.walk(f):
            muts = []
            if isinstance(n, ast.Call) and len(n.args) >= 2 and ((isinstance(n.func, ast.Attribute) and n.func.attr in ('_dot','dot'))):
                a0 = ast.get_source_segment(src, n.args[0]); a1 = ast.get_source_segment(src, n.args[1])
                if n.args[0].lineno == n.args[1].end_lineno == n.lineno:
                    seg = ast.get_source_segment(src, n)
                    new = seg.replace(a0, '\0', 1).replace(a1, a0, 1).replace('\0', a1, 1)
                    muts.append(('swap_dot', n, new))
            if isinstance(n, ast.Call) and isinstance(n.func, ast.Attribute) and n.func.attr == '_transpose' and len(n.args) == 1:
                muts.append(('drop_transpose', n, ast.get_source_segment(src, n.args[0])))
            if isinstance(n, ast.Attribute) and n.attr == 'T':
                muts.append(('drop_transpose', n, ast.get_source_segment(src, n.value)))
            for kind, node, txt in muts:
                new = splice(lines, node, txt)
                if new is None or new == src: continue
                try:
                    ast.parse(new)
                except SyntaxError:
                    continue
                m = M.Model(overrides={rel: new})
                c = conflicts(m)
                res[kind][0] += 1
                if c: res[kind][1] += 1
                else: res[kind][2].append('%s:%d %s' % (f.name, node.lineno, ast.get_source_segment(src, node)[:60]))
for k,(n,kk,surv) in res.items():
    print(k, 'sites', n, 'killed', kk)
    for s in surv: print('    survivor', s)
