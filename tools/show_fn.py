#!/usr/bin/env python
"""dev aid: print a function as the model sees it (after canonicalisation/inlining), optionally with a patch applied in memory
usage: tools/show_fn.py <module> <qualname> [patch.diff]"""
import sys, os, ast
sys.path.insert(0, os.path.join(os.path.dirname(os.path.abspath(__file__)), '..'))
from verif import model as M, mutate
ov = None
if len(sys.argv) > 3:
    ov = mutate._patch_overrides(os.path.abspath(sys.argv[3]), os.environ.get('ALGOPY_REPO', '/repo'))
m = M.Model(overrides=ov) if ov else M.Model()
fi = m.func(sys.argv[1], sys.argv[2])
if fi is None:
    print('no such function; inlined:', m.inlined); sys.exit(1)
for st in fi.node.body:
    for ln in ast.unparse(st).split('\n'):
        print('%9d  %s' % (st.lineno, ln))
print('inlined:', m.inlined)
