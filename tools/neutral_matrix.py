#!/venv/bin/python
"""
Apply behaviour-preserving refactorings (patch files) to a scratch worktree of /repo and run every registered
check: each must stay silent (exit 0).  usage: tools/neutral_matrix.py <dir with patch*.diff> ...
Patches made against an older commit are tried on HEAD first, then on that commit (BASE env, default 3cd108d);
findings that the unpatched BASE tree already has are ignored.
"""
import json, os, subprocess, sys, tempfile, shutil, glob
from concurrent.futures import ThreadPoolExecutor

VERIF = os.path.dirname(os.path.dirname(os.path.abspath(__file__)))
PROPS = [c['property_id'] for c in json.load(open(os.path.join(VERIF, 'MANIFEST.json')))['checks']]
BASE = os.environ.get('BASE', '3cd108d')


def checks(wt, tmp):
    env = dict(os.environ, ALGOPY_REPO=wt, VERIF_EVIDENCE_DIR=os.path.join(tmp, 'ev'), VERIF_REPLAY_DIR=os.path.join(tmp, 'rp'))
    res = {}
    for p in PROPS:
        o = subprocess.run([os.path.join(VERIF, 'check'), p], capture_output=True, text=True, env=env)
        lines = [ln for ln in o.stdout.splitlines() if (': [' in ln and ln.split(':')[0].endswith('.py')) or ln.startswith('ANALYSIS-ERROR')]
        res[p] = (o.returncode, lines)
    return res


_base_cache = {}


def run(patch):
    tmp = tempfile.mkdtemp(prefix='algopy-neutral-')
    wt = os.path.join(tmp, 'wt')
    out = None
    try:
        revs = ['HEAD', BASE] + subprocess.run(['git', '-C', '/repo', 'rev-list', '--max-count=40', 'HEAD'], capture_output=True, text=True).stdout.split()[1:]
        for rev in revs:
            subprocess.run(['git', '-C', '/repo', 'worktree', 'add', '-q', '--detach', wt, rev], check=True)
            r = subprocess.run(['git', '-C', wt, 'apply', patch], capture_output=True, text=True)
            if r.returncode == 0:
                res = checks(wt, tmp)
                out = (rev, res)
                subprocess.run(['git', '-C', '/repo', 'worktree', 'remove', '--force', wt])
                break
            subprocess.run(['git', '-C', '/repo', 'worktree', 'remove', '--force', wt])
        if out is None:
            return patch, None, 'does not apply'
    finally:
        shutil.rmtree(tmp, ignore_errors=True)
    return patch, out[0], out[1]


def base_findings(rev=BASE):
    tmp = tempfile.mkdtemp(prefix='algopy-neutral-')
    wt = os.path.join(tmp, 'wt')
    subprocess.run(['git', '-C', '/repo', 'worktree', 'add', '-q', '--detach', wt, rev], check=True)
    try:
        res = checks(wt, tmp)
    finally:
        subprocess.run(['git', '-C', '/repo', 'worktree', 'remove', '--force', wt])
        shutil.rmtree(tmp, ignore_errors=True)
    return {p: set(l.split(': [', 1)[-1][:60] for l in v[1]) for p, v in res.items()}


def main():
    patches = []
    for d in [os.path.abspath(a) for a in sys.argv[1:]] or sorted(d_ for d_ in glob.glob(os.path.join(VERIF, 'neutral', '*')) if os.path.isdir(d_)):
        patches += sorted(glob.glob(os.path.join(d, 'patch*.diff'))) if os.path.isdir(d) else [d]
    basef = None
    bad = 0
    table = {}
    with ThreadPoolExecutor(max_workers=8) as ex:
        for patch, rev, res in ex.map(run, patches):
            name = '/'.join(patch.split('/')[-2:])
            if rev is None:
                print('%-22s %s' % (name, res))
                continue
            alarms = []
            for p, (rc, lines) in sorted(res.items()):
                if rc == 0:
                    continue
                if rev != 'HEAD':
                    basef = basef or {}
                    if rev not in basef:
                        basef[rev] = base_findings(rev)
                    lines = [l for l in lines if l.split(': [', 1)[-1][:60] not in basef[rev].get(p, set())]
                    if not lines:
                        continue
                alarms.append((p, rc, lines))
            table[name] = {'applied_on': rev, 'alarms': [{'property': p, 'rc': rc, 'lines': lines[:3]} for p, rc, lines in alarms]}
            if alarms:
                bad += 1
                print('%-22s on %s  ALARM' % (name, rev))
                for p, rc, lines in alarms:
                    for l in lines[:3]:
                        print('      %s rc=%d %s' % (p, rc, l[:230]))
            else:
                print('%-22s on %s  silent' % (name, rev))
    print('%d of %d refactorings raise an alarm' % (bad, len(patches)))
    mj = os.path.join(VERIF, 'neutral', 'matrix.json')
    if len(sys.argv) > 1 and os.path.exists(mj):
        # a partial run refreshes the rows of the patches it ran
        full = json.load(open(mj))
        full.update(table)
        table = full
    json.dump(table, open(mj, 'w'), indent=1, sort_keys=True)
    return 1 if bad else 0


if __name__ == '__main__':
    sys.exit(main())
