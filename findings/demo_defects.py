"""
Demonstrations of the genuine defects of the pinned tree (e9b51d8) located by
the static rules.  Run with:  PYTHONPATH=/repo /venv/bin/python findings/demo_defects.py
Each line prints OK (behaviour correct) or DEFECT.  Documentation only - the
checks never run this.
"""
import numpy, warnings
warnings.simplefilter('ignore')
import algopy
from algopy import CGraph, Function, UTPM

def report(name, ok, detail=''):
    print('%-12s %s %s' % (name, 'OK    ' if ok else 'DEFECT', detail))

def grad(f, x0, xe=None):
    cg = CGraph(); x = Function(numpy.array(x0, dtype=float)); y = f(x); cg.trace_off()
    cg.independentFunctionList = [x]; cg.dependentFunctionList = [y]
    return cg, cg.gradient(numpy.array(x0 if xe is None else xe, dtype=float))

# F-C06-1: pb_tan modifies the node's forward value
def t_tan():
    cg = CGraph(); x = Function(UTPM(numpy.array([[[0.3]],[[1.]],[[0.5]]]))); y = algopy.tan(x); cg.trace_off()
    cg.independentFunctionList=[x]; cg.dependentFunctionList=[y]
    before = y.x.data.copy(); yb = y.x.zeros_like(); yb.data[0]=1.; yb.data[1]=2.
    cg.pullback([yb]); report('F-C06-1', numpy.array_equal(before, y.x.data), 'tan node value unchanged by pullback')
t_tan()

# F-C14-1: x *= x
def t_imul():
    a = UTPM(numpy.array([[[1.,2.]],[[3.,4.]],[[5.,6.]]])); b = a.copy(); b *= b
    report('F-C14-1', numpy.allclose(b.data, (a*a).data), 'x *= x equals x*x')
t_imul()

# F-C03-1: sum(axis=0) through the tracer
def t_sum():
    x0 = numpy.arange(1.,10.).reshape(3,3)
    w = numpy.arange(1.,4.)
    cg, g = grad(lambda x: algopy.sum(algopy.sum(x*x, axis=0)*w), x0)
    report('F-C03-1', numpy.allclose(g, 2*x0*w[None,:]), 'gradient of sum(sum(x*x,axis=0)*w)')
t_sum()

# F-C03-2: prod + other consumer
def t_prod():
    cg, g = grad(lambda x: algopy.prod(x) + algopy.sum(x), [2.,3.,5.])
    report('F-C03-2', numpy.allclose(g, [16.,11.,7.]), str(g))
t_prod()

# F-C03-3: symvec L
def t_symvec():
    x0 = numpy.arange(1.,10.).reshape(3,3)
    cg, g = grad(lambda A: algopy.sum(algopy.symvec(A,'L')) + algopy.sum(A), x0)
    exact = numpy.ones((3,3)) + numpy.tril(numpy.ones((3,3)))
    report('F-C03-3', numpy.allclose(g, exact), '')
t_symvec()

# F-C03-4: reshape of a non-contiguous view
def t_reshape():
    x0 = numpy.arange(1.,7.).reshape(2,3)
    w = numpy.arange(1.,7.)
    cg, g = grad(lambda x: algopy.sum(algopy.reshape(x.T, (6,))*w), x0)
    exact = w.reshape(3,2).T
    report('F-C03-4', numpy.allclose(g, exact), '')
t_reshape()

# F-C03-5: constant * x with the constant as the left node
def t_mul():
    try:
        cg, g = grad(lambda x: algopy.sum(Function(numpy.array([2.,3.])) * x), [1.,1.])
        report('F-C03-5', numpy.allclose(g, [2.,3.]), str(g))
    except Exception as e:
        report('F-C03-5', False, 'raises ' + str(e).strip().splitlines()[-1][:60])
t_mul()

# F-C04-1 / F-C06-2: buffers
def prog(x):
    b = algopy.zeros(2, dtype=x)
    b[0] = x[0]*x[1]
    b[1] = b[0]*x[0]
    b[0] = b[1]*b[1]
    return b[0] + b[1]
def t_buf():
    cg, g = grad(prog, [1.,2.], [3.,5.])
    # f = (x0^2 x1)^2 + x0^2 x1 ; df/dx0 = 4 x0^3 x1^2 + 2 x0 x1 ; df/dx1 = 2 x0^4 x1 + x0^2
    x0,x1 = 3.,5.
    exact = [4*x0**3*x1**2 + 2*x0*x1, 2*x0**4*x1 + x0**2]
    report('F-C04-1', numpy.allclose(g, exact), '%s vs %s' % (g, exact))
    cg.pushforward([UTPM(numpy.array([[[3.,5.]]]))])
    yb = cg.dependentFunctionList[0].x.zeros_like(); yb.data[0]=1.
    cg.pullback([yb]); g1 = cg.independentFunctionList[0].xbar.data[0,0].copy()
    cg.pullback([yb]); g2 = cg.independentFunctionList[0].xbar.data[0,0].copy()
    report('F-C06-2', numpy.allclose(g1, exact) and numpy.allclose(g2, exact), 'two sweeps after one forward: %s %s' % (g1, g2))
t_buf()

# F-C05-1: replay drops kwargs
def t_kwargs():
    x0 = numpy.arange(12.).reshape(3,4)
    cg = CGraph(); x = Function(x0); y = algopy.fft.fft(x, axis=0); cg.trace_off()
    cg.independentFunctionList=[x]; cg.dependentFunctionList=[y]
    report('F-C05-1', numpy.allclose(cg.function([x0])[0], numpy.fft.fft(x0, axis=0)), 'replay of fft(x, axis=0)')
t_kwargs()

# F-C02-1: ndarray / UTPM with broadcasting, complex scalar / UTPM
def t_rdiv():
    x = UTPM(numpy.array([[[1.,2.,4.],[2.,4.,8.]],[[1.,1.,1.],[0.,1.,2.]]]))   # D=2,P=2,shape (3,)
    c = numpy.arange(1.,7.).reshape(2,3)
    try:
        z = c / x
        ref = UTPM(numpy.broadcast_to(c[None,None], (1,2,2,3)).copy()) if False else None
        ok = z.shape == (2,3)
        if ok:
            for p in range(2):
                zp = c / UTPM(x.data[:,p:p+1])
                ok = ok and numpy.allclose(z.data[:,p], zp.data[:,0])
        report('F-C02-1a', ok, 'shape %s' % (z.shape,))
    except Exception as e:
        report('F-C02-1a', False, 'raises %s' % e)
    try:
        z = (1+2j) / UTPM(numpy.array([[[2.]],[[1.]]]))
        report('F-C02-1b', numpy.allclose(z.data[:,0,0], [(1+2j)/2, -(1+2j)/4]), str(z.data.ravel()))
    except Exception as e:
        report('F-C02-1b', False, 'raises %s' % type(e).__name__)
t_rdiv()

# F-C02-2: x ** complex
def t_pow():
    x = UTPM(numpy.array([[[2.]],[[1.]]]))
    z = x**(1+2j)
    ref = 2.**(1+2j)
    report('F-C02-2', numpy.allclose(z.data[0,0,0], ref), '%s vs %s' % (z.data[0,0,0], ref))
t_pow()

# F-C11-1: qr pullback, rank decision of the last direction applied to all
def t_qr():
    rng = numpy.random.RandomState(0)
    A0 = rng.rand(4,3); A1 = A0.copy(); A1[:,2] = A1[:,1]
    Qb0 = rng.rand(4,3); Rb0 = rng.rand(3,3)
    def run(As):
        A = UTPM(numpy.array([[a for a in As]]))
        Q,R = UTPM.qr(A)
        Qb = UTPM(numpy.array([[Qb0 for _ in As]])); Rb = UTPM(numpy.array([[Rb0 for _ in As]]))
        return UTPM.pb_qr(Qb, Rb, A, Q, R).data[0]
    single = run([A0])[0]
    both = run([A0, A1])[0]
    report('F-C11-1', numpy.allclose(single, both), 'max diff %.3g' % abs(single-both).max())
t_qr()

# F-C03-6: eigh pullback exact at order 0 only (H built from the zeroth-order eigenvalue gaps)
def t_eigh_pb():
    numpy.random.seed(1); N = 3
    sym = lambda M: M + M.T
    A0 = sym(numpy.random.rand(N,N)) + numpy.diag([1.,5.,9.]); A1 = sym(numpy.random.rand(N,N)); A2 = sym(numpy.random.rand(N,N))
    W = numpy.random.rand(N); V = numpy.random.rand(N,N)
    def f(A):
        l,Q = algopy.eigh(A); return algopy.sum(l*W) + algopy.sum(Q*Q*V)
    def grad_at(A):
        cg = CGraph(); FA = Function(A); y = f(FA); cg.trace_off()
        cg.independentFunctionList=[FA]; cg.dependentFunctionList=[y]; return cg.gradient(A)
    data = numpy.zeros((3,1,N,N)); data[0,0]=A0; data[1,0]=A1; data[2,0]=A2
    cg = CGraph(); FA = Function(UTPM(data)); y = f(FA); cg.trace_off()
    cg.independentFunctionList=[FA]; cg.dependentFunctionList=[y]
    ybar = y.x.zeros_like(); ybar.data[0]=1.; cg.pullback([ybar]); xbar = FA.xbar.data[:,0]
    h = 1e-3; g = lambda t: grad_at(A0 + A1*t + A2*t*t)
    g1 = (g(h)-g(-h))/(2*h); sy = lambda M: 0.5*(M+M.T)
    err = abs(sy(xbar[1])-sy(g1)).max()
    report('F-C03-6', err < 1e-5, 'order-1 adjoint of eigh vs finite differences of the gradient: err %.2g' % err)
t_eigh_pb()


def t_eigh_out():
    rng = numpy.random.RandomState(1); D, P, N = 3, 1, 4
    def sym():
        A = rng.rand(D, P, N, N); return UTPM(A + A.transpose(0, 1, 3, 2))
    A1, A2 = sym(), sym()
    l, Q = UTPM.eigh(A1)
    UTPM.eigh(A2, out=(l, Q))          # re-use the output buffers of the first call
    R = UTPM.dot(Q, UTPM.dot(UTPM.diag(l), Q.T)) - A2
    err = abs(R.data).max()
    report('F-C08-1', err < 1e-10, 'UTPM.eigh(A, out=(l,Q)) with re-used buffers: residual |Q L Q^T - A| = %.2g' % err)
t_eigh_out()


def t_outer_pb():
    W = numpy.array([[1., 2., 3.], [4., 5., 6.], [7., 8., 10.]])
    x0 = numpy.array([1., 2., 3.]); y0 = numpy.array([-1., 0.5, 2.])
    cg = CGraph(); x = Function(x0.copy()); y = Function(y0.copy())
    f = algopy.sum(W * algopy.outer(x, y)); cg.trace_off()
    cg.independentFunctionList = [x, y]; cg.dependentFunctionList = [f]
    g = cg.gradient([x0, y0])
    err = abs(g[1] - W.T.dot(x0)).max()
    report('F-C03-7', err < 1e-12, 'gradient of sum(W*outer(x,y)) w.r.t. y vs W^T x (non-symmetric W): err %.2g' % err)
t_outer_pb()


def t_outer_shape():
    x = UTPM(numpy.arange(1., 7.).reshape(2, 1, 3)); y = UTPM(numpy.arange(1., 5.).reshape(2, 1, 2))
    try:
        z = UTPM.outer(x, y)
        ok = z.data.shape == (2, 1, 3, 2) and numpy.allclose(z.data[1, 0], numpy.outer(x.data[1, 0], y.data[0, 0]) + numpy.outer(x.data[0, 0], y.data[1, 0]))
        ok = ok and UTPM.outer(x, numpy.array([3.])).data.shape == (2, 1, 3, 1)
        msg = 'shape %s' % (z.data.shape,)
    except Exception as e:
        ok, msg = False, 'raised %s' % type(e).__name__
    report('F-C07-1', ok, 'outer of a (3,) and a (2,) polynomial / a length-1 constant: %s' % msg)
t_outer_shape()


def t_dot_pb_vector():
    A0 = numpy.array([[1., 2., 3.], [4., 5., 6.], [7., 8., 10.]]); x0 = numpy.array([1., -2., 0.5]); w = numpy.array([2., 3., 5.])
    cg = CGraph(); A = Function(A0.copy()); x = Function(x0.copy())
    f = algopy.sum(w * algopy.dot(A, x)); cg.trace_off()
    cg.independentFunctionList = [A, x]; cg.dependentFunctionList = [f]
    try:
        g = cg.gradient([A0, x0])
        err = abs(g[0] - numpy.outer(w, x0)).max()
        msg = 'err %.2g' % err
    except Exception as e:
        err, msg = 1., 'raised %s' % type(e).__name__
    report('F-C03-8', err < 1e-12, 'gradient of sum(w*dot(A,x)) w.r.t. the matrix A (vector x) vs outer(w,x): %s' % msg)
t_dot_pb_vector()


def t_pb_tile():
    x0 = numpy.array([1., 2., 3.])
    cg = CGraph(); x = Function(x0.copy()); y = algopy.tile(x, 2)
    f = algopy.sum(y * y); cg.trace_off()
    cg.independentFunctionList = [x]; cg.dependentFunctionList = [f]
    try:
        g = cg.gradient(x0); err = abs(g - 4 * x0).max(); msg = 'err %.2g' % err
    except Exception as e:
        err, msg = 1., 'raised %s' % type(e).__name__
    report('F-C03-9', err < 1e-12, 'gradient of sum(tile(x,2)**2) vs 4x: %s' % msg)
t_pb_tile()


def t_pb_trace_tall():
    x0 = numpy.arange(1., 7.).reshape(3, 2)
    cg = CGraph(); x = Function(x0.copy()); y = algopy.trace(x)
    f = y * y; cg.trace_off(); cg.independentFunctionList = [x]; cg.dependentFunctionList = [f]
    try:
        g = cg.gradient(x0); e = numpy.zeros((3, 2)); e[0, 0] = e[1, 1] = 2 * numpy.trace(x0)
        err = abs(g - e).max(); msg = 'err %.2g' % err
    except Exception as ex:
        err, msg = 1., 'raised %s' % type(ex).__name__
    report('F-C03-10', err < 1e-12, 'gradient of trace(x)**2 for a (3,2) matrix: %s' % msg)
t_pb_trace_tall()


def t_pow_negative_int():
    x0 = numpy.array([1.5, 2.0])
    cg = CGraph(); x = Function(x0.copy()); f = algopy.sum(x ** -2); cg.trace_off()
    cg.independentFunctionList = [x]; cg.dependentFunctionList = [f]
    g = cg.gradient(x0)
    err = abs(g + 2 * x0 ** -3.).max()
    report('F-C03-11', err < 1e-12, 'gradient of sum(x**-2) vs -2 x**-3: err %.2g' % err)
t_pow_negative_int()
