"""
E6 - self-validation of the checkers (thorough tier).

Variants of the *current* tree are built in memory (Model(overrides=...)); nothing
is written to /repo.  A breaking variant must make the named property's check
report a VIOLATION; a neutral (behaviour-preserving) variant must leave every
check of the listed properties silent (no finding, no UNKNOWN).  A variant whose
anchor text is no longer present in the tree is skipped (reported as such).

The harness measures the checker, not algopy: a surviving breaking variant or an
alarmed neutral variant makes the thorough run exit 2 (checker insensitive /
unsound), never 1.
"""
import ast
import os
import re
from concurrent.futures import ProcessPoolExecutor

from .model import REPO

ALG = 'algopy/utpm/algorithms.py'
UT = 'algopy/utpm/utpm.py'
TR = 'algopy/tracer/tracer.py'
GF = 'algopy/globalfuncs.py'
US = 'algopy/utils.py'

# (id, kind, properties, file, old text, new text)
TEXT = [
    # ---------------------------------------------------------------- E2 (C01, C02, C07, C08, C12)
    ('sincos-short', 'break', ['C01'], ALG, "s_data[d] = numpy.sum([k*x_data[k] * c_data[d-k] for k in range(1,d+1)]", "s_data[d] = numpy.sum([k*x_data[k] * c_data[d-k] for k in range(1,d)]"),
    ('exp-short', 'break', ['C01'], ALG, "numpy.sum(y_data[:d][::-1]*xtctilde[:d], axis=0)/d", "numpy.sum(y_data[:d-1][::-1]*xtctilde[:d-1], axis=0)/d"),
    ('exp-unreversed', 'break', ['C01'], ALG, "numpy.sum(y_data[:d][::-1]*xtctilde[:d], axis=0)/d", "numpy.sum(y_data[:d]*xtctilde[:d], axis=0)/d"),
    ('log-shift', 'break', ['C01'], ALG, "x_data[1:d][::-1] * y_data[1:d]", "x_data[:d-1][::-1] * y_data[1:d]"),
    ('pow-selfread', 'break', ['C12'], ALG, "y_data[d-k] * k * x_data[k] for k in range(1,d+1)", "y_data[d-k] * k * x_data[k] for k in range(0,d+1)"),
    ('pow-short', 'break', ['C01'], ALG, "y_data[d-k] * k * x_data[k] for k in range(1,d+1)", "y_data[d-k] * k * x_data[k] for k in range(1,d)"),
    ('sqrt-ahead', 'break', ['C12'], ALG, "y_data[1:k] * y_data[k-1:0:-1]", "y_data[1:k] * y_data[k:1:-1]"),
    ('tansec-short', 'break', ['C01'], ALG, "z_data[d] = 2.*numpy.sum([k*y_data[k] * y_data[d-k] for k in range(1,d+1)]", "z_data[d] = 2.*numpy.sum([k*y_data[k] * y_data[d-k] for k in range(1,d)]"),
    ('square-half', 'break', ['C01'], ALG, "d_half = (d+1) // 2", "d_half = d // 2"),
    ('bfwf-weight', 'break', ['C01'], ALG, "fprime_data[d-1-c] * x_data[c+1] * (c+1)", "fprime_data[d-c] * x_data[c+1] * (c+1)"),
    ('abs-wrongorder', 'break', ['C01', 'C12'], ALG, "numpy.multiply(x_data[d], x_data_sign, out=z_data[d])", "numpy.multiply(x_data[d-1], x_data_sign, out=z_data[d])"),
    ('exp-base', 'break', ['C01', 'C10'], ALG, "y_data[0] = numpy.exp(x_data[0])", "y_data[0] = numpy.expm1(x_data[0])"),
    ('arccos-base', 'break', ['C01', 'C10'], ALG, "y_data[0] = numpy.arccos(x_data[0])", "y_data[0] = numpy.arcsin(x_data[0])"),
    ('erf-helper', 'break', ['C01', 'C10'], ALG, "nthderiv.erf, fprime_data, x_data, out=out)", "nthderiv.erfi, fprime_data, x_data, out=out)"),
    ('mul-short', 'break', ['C02'], ALG, "x_data[:d+1,:,...] * y_data[d::-1,:,...],\n                        axis=0,\n                        out = z_data[d,:,...])", "x_data[:d,:,...] * y_data[d-1::-1,:,...],\n                        axis=0,\n                        out = z_data[d,:,...])"),
    ('amul-unreversed', 'break', ['C02'], ALG, "z_data[d,:,...] +=  numpy.sum(x_data[:d+1,:,...] * y_data[d::-1,:,...], axis=0)", "z_data[d,:,...] +=  numpy.sum(x_data[:d+1,:,...] * y_data[:d+1,:,...], axis=0)"),
    ('add-allcoeff', 'break', ['C02'], UT, "            retval.data[0,:] += rhs\n            return retval\n\n        elif isinstance(rhs,numpy.ndarray) and rhs.dtype == object:\n\n", "            retval.data[...] += rhs\n            return retval\n\n        elif isinstance(rhs,numpy.ndarray) and rhs.dtype == object:\n\n"),
    ('mul-dtype', 'break', ['C02'], UT, "        z_data = numpy.zeros(x_data.shape, dtype=dtype)\n        self._mul(x_data, y_data, z_data)", "        z_data = numpy.zeros_like(x_data)\n        self._mul(x_data, y_data, z_data)"),
    ('radd-wrong', 'break', ['C02'], UT, "    def __rsub__(self, other):\n        return -self + other", "    def __rsub__(self, other):\n        return self - other"),
    ('mul-ascending', 'break', ['C14', 'C02'], ALG, "            for d in range(D)[::-1]:\n                numpy.sum(", "            for d in range(D):\n                numpy.sum("),
    ('itruediv-noclone', 'break', ['C14'], UT, "            retval = self.clone()\n            for d in range(D):\n                retval.data[d,:,...] = 1./ rhs.data[0,:,...] * ( self.data[d,:,...] - numpy.sum(retval.data[:d,:,...] * rhs.data[d:0:-1,:,...], axis=0))", "            retval = self\n            for d in range(D):\n                retval.data[d,:,...] = 1./ rhs.data[0,:,...] * ( self.data[d,:,...] - numpy.sum(retval.data[:d,:,...] * rhs.data[d:0:-1,:,...], axis=0))"),
    ('dot-short', 'break', ['C07'], ALG, "                for c in range(d+1):\n                    tmp = numpy.dot(x_data[c,p,...],", "                for c in range(d):\n                    tmp = numpy.dot(x_data[c,p,...],"),
    ('inv-short', 'break', ['C07'], ALG, "for c in range(1,d+1):\n                    y_data[d,p,:,:] += numpy.dot(x_data[c,p,:,:], y_data[d-c,p,:,:],)", "for c in range(1,d):\n                    y_data[d,p,:,:] += numpy.dot(x_data[c,p,:,:], y_data[d-c,p,:,:],)"),
    ('dot-kernel-swap', 'break', ['C07'], UT, "            cls._dot_non_UTPM_y(x.data, y, out = out.data)", "            cls._dot_non_UTPM_x(x.data, y, out = out.data)"),
    ('cholesky-short', 'break', ['C08'], ALG, "for d in range(1,D):\n                    dF += numpy.dot(L_data[D-d,p], L_data[d,p].T)", "for d in range(1,D-1):\n                    dF += numpy.dot(L_data[D-d,p], L_data[d,p].T)"),
    ('qr-weight', 'break', ['C08'], ALG, "dF[p] += numpy.dot(Q_data[d,p,:,:], R_data[D-d,p,:,:])", "dF[p] += numpy.dot(Q_data[d,p,:,:], R_data[D-d-1,p,:,:])"),
    ('eigh1-order', 'break', ['C08'], ALG, "numpy.dot(numpy.dot(Q_data[0].T, A_data[D]),Q_data[0])", "numpy.dot(numpy.dot(Q_data[0].T, A_data[D-1]),Q_data[0])"),
    ('lu2-short', 'break', ['C08', 'C07'], UT, "                for i in range(1,d):\n                    dF -= numpy.dot(L.data[d-i,p], U.data[i,p])\n                dF += numpy.dot(w.T, A.data[d,p])\n                dF = numpy.dot(L0inv, numpy.dot(dF, U0inv))\n\n                U.data[d,p] = numpy.dot(numpy.triu(dF, 0), U.data[0,p])\n                L.data[d,p] = numpy.dot(L.data[0,p], numpy.tril(dF, -1))\n\n        return PIV, L, U", "                for i in range(1,d-1):\n                    dF -= numpy.dot(L.data[d-i,p], U.data[i,p])\n                dF += numpy.dot(w.T, A.data[d,p])\n                dF = numpy.dot(L0inv, numpy.dot(dF, U0inv))\n\n                U.data[d,p] = numpy.dot(numpy.triu(dF, 0), U.data[0,p])\n                L.data[d,p] = numpy.dot(L.data[0,p], numpy.tril(dF, -1))\n\n        return PIV, L, U"),
    ('solve-degree-index', 'break', ['C12'], ALG, "tmp[:,:] -= numpy.dot(A_data[k,p,:,:],y_data[d-k,p,:,:])\n                y_data[d,p,:,:] = numpy.linalg.solve(A_data[0,p,:,:],tmp)\n\n        return out\n\n\n    @classmethod\n    def _solve_non_UTPM_A", "tmp[:,:] -= numpy.dot(A_data[k,p,:,:],y_data[D-1-k,p,:,:])\n                y_data[d,p,:,:] = numpy.linalg.solve(A_data[0,p,:,:],tmp)\n\n        return out\n\n\n    @classmethod\n    def _solve_non_UTPM_A"),
    # ---------------------------------------------------------------- tracer / pullback protocol
    ('dotpb-notranspose', 'break', ['C03'], ALG, "        xbar_data += cls._dot(zbar_data, cls._transpose(y_data), out = xbar_data.copy())", "        xbar_data += cls._dot(zbar_data, y_data, out = xbar_data.copy())"),
    ('outerpb-notranspose', 'break', ['C03'], ALG, "        ybar_data += cls._dot(cls._transpose(zbar_data), x_data, out = ybar_data.copy())", "        ybar_data += cls._dot(zbar_data, x_data, out = ybar_data.copy())"),
    ('outer-square', 'break', ['C07'], UT, "            out_shp = x_shp + y_shp[-1:]\n", "            out_shp = x_shp + x_shp[-1:]\n"),
    ('qrpb-side', 'break', ['C03'], ALG, "        cls._dot( cls._transpose(Qbar_data), Q_data, out = tmp1)", "        cls._dot( Q_data, cls._transpose(Qbar_data), out = tmp1)"),
    ('bcast-dp-swapped', 'break', ['C02', 'C11'], ALG, "        y_data = y_data.transpose( tuple(range(2,Ly)) + (0,1))", "        y_data = y_data.transpose( tuple(range(2,Ly)) + (1,0))"),
    ('bcast-back-wrong', 'break', ['C02', 'C11'], ALG, "        x_data = x_data.transpose( (Lx-2, Lx-1) +  tuple(range(Lx-2)) )", "        x_data = x_data.transpose( (Lx-1, Lx-2) +  tuple(range(Lx-2)) )"),
    ('bcast-front', 'break', ['C02', 'C11'], ALG, "        x_data = x_data.transpose( tuple(range(2,Lx)) + (0,1))\n", "        x_data = x_data.transpose( (0,1) + tuple(range(2,Lx)))\n"),
    ('pbdot-drop-ybar', 'break', ['C03'], ALG, "        ybar_data += cls._dot(cls._transpose(x_data), zbar_data, out = ybar_data.copy())\n", "        pass\n"),
    ('pullback-dead-exit', 'break', ['C03', 'C04', 'C06'], TR, "            # case if the function F has output, e.g. y1 = F(x)\n            args = [F.xbar] + args + [F.x]", "            if F.xbar == 0:\n                return F\n            args = [F.xbar] + args + [F.x]"),
    ('mul-raw-broadcast', 'break', ['C11', 'C02'], UT, "            x_data, y_data = UTPM._broadcast_arrays(self.data, rhs.reshape((1,1)+rhs_shape))\n            return UTPM(x_data * y_data)", "            return UTPM(self.data * rhs)"),
    ('pbneg-overwrite', 'break', ['C03'], UT, "        xbar -= ybar\n        return xbar", "        xbar[...] = -1*ybar\n        return xbar"),
    ('amul-overwrite', 'break', ['C03'], ALG, "            z_data[d,:,...] +=  numpy.sum(x_data[:d+1,:,...] * y_data[d::-1,:,...], axis=0)", "            z_data[d,:,...] =  numpy.sum(x_data[:d+1,:,...] * y_data[d::-1,:,...], axis=0)"),
    ('pbsqrt-swap', 'break', ['C03'], UT, "        cls._pb_sqrt(ybar.data, x.data, y.data, out = xbar.data)", "        cls._pb_sqrt(ybar.data, y.data, x.data, out = xbar.data)"),
    ('pbexp-freshout', 'break', ['C03'], UT, "        cls._pb_exp(ybar.data, x.data, y.data, out = xbar.data)\n        return out", "        cls._pb_exp(ybar.data, x.data, y.data, out = x.zeros_like().data)\n        return out"),
    ('pbsymvec-param', 'break', ['C03'], UT, "    def pb_symvec(cls, vbar, A, UPLO, v, out = None):", "    def pb_symvec(cls, vbar, A, v, UPLO, out = None):"),
    ('pblog-writes-x', 'break', ['C03', 'C06', 'C14'], ALG, "        xbar_data = out\n        xbar_data += cls._truediv(ybar_data, x_data, numpy.empty_like(xbar_data))", "        xbar_data = out\n        xbar_data += cls._truediv(ybar_data, x_data, x_data)"),
    ('init-conditional', 'break', ['C06', 'C04'], TR, "        for f in self.functionList:\n            # print 'f=',f.func.__name__\n            f.xbar_from_x()", "        for f in self.functionList:\n            # print 'f=',f.func.__name__\n            if not is_set(f.xbar):\n                f.xbar_from_x()"),
    ('seed-alias', 'break', ['C06', 'C14'], TR, "                f.xbar[...] = xbar_list[nf]\n", "                f.xbar = xbar_list[nf]\n"),
    ('no-rollforward', 'break', ['C06'], TR, "        for f in self.functionList:\n            if is_set(f.setitem):\n                f.__class__.pushforward(f.func, f.args, Fkwargs = f.kwargs, Fout = f)", "        pass"),
    ('replay-nokwargs', 'break', ['C05', 'C04', 'C06'], TR, "                f.__class__.pushforward(f.func, f.args, Fkwargs = f.kwargs, Fout = f)\n            except", "                f.__class__.pushforward(f.func, f.args, Fout = f)\n            except"),
    ('record-twice', 'break', ['C05'], TR, "    def sqrt(self):\n        return Function.pushforward(algopy.sqrt, [self])", "    def sqrt(self):\n        Function.pushforward(algopy.sqrt, [self])\n        return Function.pushforward(algopy.sqrt, [self])"),
    ('record-wrongname', 'break', ['C05'], TR, "    def sin(self):\n        return Function.pushforward(algopy.sin, [self])", "    def sin(self):\n        return Function.pushforward(algopy.cos, [self])"),
    ('create-unguarded', 'break', ['C05', 'C06'], TR, "        if cls.cgraph is not None:\n            f.ID = cls.get_ID()\n            cls.cgraph.append(f)", "        f.ID = cls.get_ID()\n        if cls.cgraph is not None:\n            cls.cgraph.append(f)"),
    ('gradient-noforward', 'break', ['C04'], TR, "        self.pushforward(utpm_x_list)\n\n        ybar =  self.dependentFunctionList[0].x.zeros_like()\n        ybar.data[0,:] = 1.\n        self.pullback([ybar])\n\n        if isinstance(x, list):", "        ybar =  self.dependentFunctionList[0].x.zeros_like()\n        ybar.data[0,:] = 1.\n        self.pullback([ybar])\n\n        if isinstance(x, list):"),
    ('vecjac-now', 'break', ['C04'], TR, "        ybar.data[0,0,:] = w\n        self.pullback([ybar])\n\n        return self.independentFunctionList[0].xbar.data[0,0,...]", "        ybar.data[0,0,:] = 1.\n        self.pullback([ybar])\n\n        return self.independentFunctionList[0].xbar.data[0,0,...]"),
    # ---------------------------------------------------------------- public API / shape
    ('sqrt-noclone', 'break', ['C14', 'C01'], UT, "    def sqrt(self):\n        retval = self.clone()", "    def sqrt(self):\n        retval = self"),
    ('abs-noclone', 'break', ['C14'], UT, "        tmp = self.data[0] < 0\n        retval = self.clone()", "        tmp = self.data[0] < 0\n        retval = self"),
    ('cos-slot', 'break', ['C01'], UT, "        self._sincos(self.data, out = (tmp.data, retval.data))\n        return retval", "        self._sincos(self.data, out = (retval.data, tmp.data))\n        return retval"),
    ('lt-op', 'break', ['C10'], UT, "            return numpy.all(self.data[0,...] < other.data[0,...])", "            return numpy.all(self.data[0,...] <= other.data[0,...])"),
    ('shape-dir', 'break', ['C10'], UT, "        return numpy.shape(self.data[0,0,...])", "        return numpy.shape(self.data[0,...])"),
    ('sum-dropaxis', 'break', ['C10'], GF, "       return x.sum(axis = axis, dtype = dtype, out = out)", "       return x.sum(dtype = dtype, out = out)"),
    ('getitem-prefix', 'break', ['C13'], UT, "        tmp = self.data.__getitem__((slice(None),slice(None)) + sl)", "        tmp = self.data.__getitem__((slice(None),) + sl)"),
    ('reshape-copy', 'break', ['C13'], ALG, "        return numpy.reshape(a_data, a_data.shape[:2] + newshape)", "        return numpy.reshape(a_data, a_data.shape[:2] + newshape).copy()"),
    ('sum-axis', 'break', ['C13'], UT, "            if axis < 0:\n                a = self.data.ndim + axis\n            else:\n                a = axis + 2\n            return UTPM(numpy.sum(self.data, axis = a))", "            if axis < 0:\n                a = self.data.ndim + axis\n            else:\n                a = axis + 1\n            return UTPM(numpy.sum(self.data, axis = a))"),
    ('vecsym-order', 'break', ['C13'], US, "    count = 0\n    for row in range(N):\n        for col in range(row,N):\n            A[row,col] = A[col,row] = v[count]\n            count +=1", "    count = 0\n    for col in range(N):\n        for row in range(col,N):\n            A[row,col] = A[col,row] = v[count]\n        count +=1"),
    ('tril-dropk', 'break', ['C13'], UT, "                out.data[d,p] = numpy.tril(x.data[d,p], k=k)", "                out.data[d,p] = numpy.tril(x.data[d,p])"),
    # ---------------------------------------------------------------- direction axis
    ('inv-dir0', 'break', ['C11'], ALG, "            y_data[0,p,:,:] = numpy.linalg.inv(x_data[0,p,:,:])", "            y_data[0,p,:,:] = numpy.linalg.inv(x_data[0,0,:,:])"),
    ('solve-ploop', 'break', ['C11'], ALG, "        for p in range(P):\n            y_data[0,p,...] = numpy.linalg.solve(A_data[0,p,...], x_data[0,p,...])", "        for p in range(P-1):\n            y_data[0,p,...] = numpy.linalg.solve(A_data[0,p,...], x_data[0,p,...])"),
    ('solve-nokill', 'break', ['C11'], ALG, "                tmp[:,:] = x_data[d,p,:,:]\n                for k in range(1,d+1):", "                tmp[:,:] += x_data[d,p,:,:]\n                for k in range(1,d+1):"),
    ('qrpb-rank', 'break', ['C11'], ALG, "        for p in range(P):\n            rank = rank_list[p]\n            cls._solve(R_data[:,p:p+1,:rank,:rank], cls._transpose(tmp1[:,p:p+1,:rank,:rank]), out = tmp2[:,p:p+1,:rank,:rank])", "        cls._solve(R_data[:,:,:rank,:rank], cls._transpose(tmp1[:,:,:rank,:rank]), out = tmp2[:,:,:rank,:rank])"),
    ('max-reduce', 'break', ['C11'], ALG, "            out[:,p] = x_data[:,p,numpy.argmax(x_data[0,p])]", "            out[:,p] = x_data[:,p,numpy.argmax(x_data[0])]"),
    # ---------------------------------------------------------------- neutral variants (must stay silent)
    ('n-reversed', 'neutral', ['C02', 'C12', 'C14'], ALG, "            for d in range(D)[::-1]:\n                numpy.sum(", "            for d in reversed(range(D)):\n                numpy.sum("),
    ('n-index-short', 'neutral', ['C02', 'C12'], ALG, "z_data[d,:,...] +=  numpy.sum(x_data[:d+1,:,...] * y_data[d::-1,:,...], axis=0)", "z_data[d] +=  numpy.sum(x_data[:d+1] * y_data[d::-1], axis=0)"),
    ('n-exp-temp', 'neutral', ['C01', 'C12'], ALG, "                y_data[d] = numpy.sum(y_data[:d][::-1]*xtctilde[:d], axis=0)/d", "                acc = numpy.sum(y_data[:d][::-1]*xtctilde[:d], axis=0)\n                y_data[d] = acc/d"),
    ('n-sincos-loop', 'neutral', ['C01', 'C12'], ALG, "            s_data[d] = numpy.sum([k*x_data[k] * c_data[d-k] for k in range(1,d+1)], axis = 0)/d", "            s_data[d] = 0.\n            for k in range(1,d+1):\n                s_data[d] += k*x_data[k] * c_data[d-k]\n            s_data[d] /= d"),
    ('n-log-reorder', 'neutral', ['C01', 'C12'], ALG, "            y_data[d] =  (x_data[d]*d - numpy.sum(x_data[1:d][::-1] * y_data[1:d], axis=0))", "            y_data[d] =  (d*x_data[d] - numpy.sum(y_data[1:d] * x_data[1:d][::-1], axis=0))"),
    ('n-dot-rename', 'neutral', ['C07', 'C12', 'C11'], ALG, "                for c in range(d+1):\n                    tmp = numpy.dot(x_data[c,p,...],\n                                    y_data[d-c,p,...])\n                    numpy.add(z_data[d,p,...], tmp, out=z_data[d,p, ...], casting='unsafe') ", "                for j in range(d+1):\n                    prod = numpy.dot(x_data[j,p,...],\n                                    y_data[d-j,p,...])\n                    numpy.add(z_data[d,p,...], prod, out=z_data[d,p, ...], casting='unsafe') "),
    ('n-chol-rename', 'neutral', ['C08', 'C12', 'C11'], ALG, "                for d in range(1,D):\n                    dF += numpy.dot(L_data[D-d,p], L_data[d,p].T)", "                for i in range(1,D):\n                    dF += numpy.dot(L_data[D-i,p], L_data[i,p].T)"),
    ('n-pbexp-rename', 'neutral', ['C03', 'C06', 'C14'], ALG, "        xbar_data = out\n        cls._amul(ybar_data, y_data, xbar_data)", "        acc = out\n        cls._amul(ybar_data, y_data, acc)"),
    ('n-pbneg-iadd', 'neutral', ['C03'], UT, "        xbar -= ybar\n        return xbar", "        xbar += -1*ybar\n        return xbar"),
    ('n-tracer-msg', 'neutral', ['C03', 'C04', 'C05', 'C06'], TR, "            raise ValueError('Fargs has to be of type list')", "            raise ValueError('Fargs must be a list')"),
    ('n-replay-positional', 'neutral', ['C04', 'C05', 'C06'], TR, "                f.__class__.pushforward(f.func, f.args, Fkwargs = f.kwargs, Fout = f)\n            except", "                f.__class__.pushforward(f.func, f.args, f.kwargs, Fout = f)\n            except"),
    ('n-sqrt-wrapper', 'neutral', ['C01', 'C14'], UT, "    def sqrt(self):\n        retval = self.clone()\n        self._sqrt(self.data, out = retval.data)\n        return retval", "    def sqrt(self):\n        res = self.clone()\n        self._sqrt(self.data, out = res.data)\n        return res"),
    ('n-lt-spacing', 'neutral', ['C10'], UT, "            return numpy.all(self.data[0,...] < other.data[0,...])", "            return numpy.all(self.data[0, ...] < other.data[0, ...])"),
    ('n-trace-rename', 'neutral', ['C13', 'C12', 'C11'], UT, "        retval = numpy.zeros((D,P), dtype=x.dtype)\n        for d in range(D):\n            for p in range(P):\n                retval[d,p] = numpy.trace(x.data[d,p,...])\n        return UTPM(retval)", "        res = numpy.zeros((D,P), dtype=x.dtype)\n        for d in range(D):\n            for p in range(P):\n                res[d,p] = numpy.trace(x.data[d,p,...])\n        return UTPM(res)"),
    # ---- neutral refactorings aimed at the matchers (renames of locals, equivalent spellings)
    ('n-pushforward-rename', 'neutral', ['C03', 'C04', 'C05', 'C06'], TR, "        args = []\n        for fa in Fargs:\n            if isinstance(fa, cls):\n                args.append(fa.x)\n\n            else:\n                args.append(fa)\n\n        # when an in-place", "        args = []\n        for node in Fargs:\n            if isinstance(node, cls):\n                args.append(node.x)\n\n            else:\n                args.append(node)\n\n        # when an in-place"),
    ('n-replay-rename', 'neutral', ['C04', 'C05', 'C06'], TR, "        for nf,f in enumerate(self.functionList):\n            try:\n                f.__class__.pushforward(f.func, f.args, Fkwargs = f.kwargs, Fout = f)\n            except Exception as e:\n                err_str = 'pushforward of node %d failed (%s)'%(nf,f.func.__name__)", "        for nf,node in enumerate(self.functionList):\n            try:\n                f = node\n                node.__class__.pushforward(node.func, node.args, Fkwargs = node.kwargs, Fout = node)\n            except Exception as e:\n                err_str = 'pushforward of node %d failed (%s)'%(nf,f.func.__name__)"),
    ('n-indep-rename', 'neutral', ['C05', 'C06', 'C04'], TR, "        for nf,f in enumerate(self.independentFunctionList):\n            f.args[0].x = x_list[nf]", "        for k,indep in enumerate(self.independentFunctionList):\n            indep.args[0].x = x_list[k]"),
    ('n-create-rename', 'neutral', ['C05', 'C06'], TR, "        if cls.cgraph is not None:\n            f.ID = cls.get_ID()\n            cls.cgraph.append(f)\n        return f", "        graph = cls.cgraph\n        if cls.cgraph is not None:\n            f.ID = cls.get_ID()\n            cls.cgraph.append(f)\n        return f"),
    ('n-seed-rename', 'neutral', ['C06', 'C14', 'C04'], TR, "        for nf,f in enumerate(self.dependentFunctionList):\n            try:\n                f.xbar[...] = xbar_list[nf]", "        for nf,dep in enumerate(self.dependentFunctionList):\n            f = dep\n            try:\n                dep.xbar[...] = xbar_list[nf]"),
    ('n-mul-rename', 'neutral', ['C02', 'C10'], UT, "        x_data, y_data = UTPM._broadcast_arrays(self.data, rhs.data)\n        dtype = numpy.promote_types(x_data.dtype, y_data.dtype)\n        z_data = numpy.zeros(x_data.shape, dtype=dtype)\n        self._mul(x_data, y_data, z_data)\n        return self.__class__(z_data)", "        a_data, b_data = UTPM._broadcast_arrays(self.data, rhs.data)\n        dt = numpy.promote_types(a_data.dtype, b_data.dtype)\n        res_data = numpy.zeros(a_data.shape, dtype=dt)\n        self._mul(a_data, b_data, res_data)\n        return self.__class__(res_data)"),
    ('n-add-result-type', 'neutral', ['C02', 'C10'], UT, "            dtype = numpy.promote_types(self.data.dtype, type(rhs))\n            retval = UTPM(numpy.zeros(self.data.shape, dtype=dtype))\n            retval.data[...] = self.data\n            retval.data[0,:] += rhs\n            return retval\n\n        elif isinstance(rhs,numpy.ndarray) and rhs.dtype == object:\n\n", "            dtype = numpy.result_type(self.data.dtype, rhs)\n            retval = UTPM(numpy.zeros(self.data.shape, dtype=dtype))\n            retval.data[...] = self.data\n            retval.data[0] += rhs\n            return retval\n\n        elif isinstance(rhs,numpy.ndarray) and rhs.dtype == object:\n\n"),
    ('n-dot-rename-out', 'neutral', ['C07', 'C10'], UT, "            out = cls(cls.__zeros__(out_shp, dtype=numpy.promote_types(x.data.dtype, y.data.dtype)))\n            cls._dot( x.data, y.data, out = out.data)", "            dt = numpy.promote_types(x.data.dtype, y.data.dtype)\n            out = cls(cls.__zeros__(out_shp, dtype=dt))\n            cls._dot( x.data, y.data, out = out.data)"),
    ('n-zeros-rename', 'neutral', ['C13', 'C10'], GF, "        D,P = dtype.data.shape[:2]\n        tmp = numpy.zeros((D,P) + shape ,dtype = dtype.data.dtype)\n        tmp*= dtype.data.flatten()[0]\n        return dtype.__class__(tmp)", "        D,P = dtype.data.shape[:2]\n        arr = numpy.zeros((D,P) + shape ,dtype = dtype.data.dtype)\n        arr*= dtype.data.flatten()[0]\n        return dtype.__class__(arr)"),
    ('n-getitem-inline', 'neutral', ['C13'], UT, "        tmp = self.data.__getitem__((slice(None),slice(None)) + sl)\n        return self.__class__(tmp)", "        return self.__class__(self.data[(slice(None),slice(None)) + sl])"),
    ('n-cmp-else', 'neutral', ['C10'], UT, "    def __lt__(self, other):\n        if isinstance(other,self.__class__):\n            return numpy.all(self.data[0,...] < other.data[0,...])\n        else:\n            return numpy.all(self.data[0,...] < other)", "    def __lt__(self, other):\n        if isinstance(other,self.__class__):\n            return numpy.all(self.data[0,...] < other.data[0,...])\n        return numpy.all(self.data[0,...] < other)"),
    ('n-xbar-rename', 'neutral', ['C06', 'C04'], TR, "            tmp = []\n\n            for xi in self.x:\n                if isinstance(xi, algopy.UTPM):\n                    tmp.append(xi.zeros_like())\n                else:\n                    tmp.append(None)\n            self.xbar = tuple(tmp)", "            bars = []\n\n            for xi in self.x:\n                if isinstance(xi, algopy.UTPM):\n                    bars.append(xi.zeros_like())\n                else:\n                    bars.append(None)\n            self.xbar = tuple(bars)"),
    ('n-pbsum-rename', 'neutral', ['C03', 'C13'], UT, "            shp = list(x.data.shape)\n            shp[a] = 1\n            tmp = ybar.data.reshape(shp)\n            xbar.data += tmp", "            shape = list(x.data.shape)\n            shape[a] = 1\n            contrib = ybar.data.reshape(shape)\n            xbar.data += contrib"),
    ('n-gradient-rename', 'neutral', ['C04'], TR, "        ybar =  self.dependentFunctionList[0].x.zeros_like()\n        ybar.data[0,:] = 1.\n        self.pullback([ybar])\n\n        if isinstance(x, list):", "        seed =  self.dependentFunctionList[0].x.zeros_like()\n        seed.data[0,:] = 1.\n        self.pullback([seed])\n\n        if isinstance(x, list):"),
    ('n-symvec-rename', 'neutral', ['C13'], US, "        count = 0\n        for row in range(N):\n            for col in range(row,N):\n                v[count] = 0.5* (A[row,col] + A[col,row])\n                count +=1", "        count = 0\n        for i in range(N):\n            for j in range(i,N):\n                v[count] = 0.5* (A[i,j] + A[j,i])\n                count +=1"),
    ('n-inv-ploop', 'neutral', ['C07', 'C11', 'C12'], ALG, "        for p in range(P):\n            y_data[0,p,:,:] = numpy.linalg.inv(x_data[0,p,:,:])", "        for q in range(P):\n            y_data[0,q,:,:] = numpy.linalg.inv(x_data[0,q,:,:])"),
]


def _apply(variant, cache):
    vid, kind, props, rel, old, new = variant
    if rel not in cache:
        cache[rel] = open(os.path.join(REPO, rel), encoding='utf-8').read()
    src = cache[rel]
    if src.count(old) != 1:
        return None
    return {rel: src.replace(old, new)}


def _run_variant(args):
    variant, props = args
    from .runner import Ctx, registry
    vid, kind, vprops, rel, old, new = variant
    ov = _apply(variant, {})
    if ov is None:
        return vid, kind, 'skipped', 'anchor text not present in the current tree', {}
    reg = registry()
    detail = {}
    try:
        ctx = Ctx(overrides=ov)
    except Exception as e:
        return vid, kind, 'error', 'variant does not parse: %s' % e, {}
    for p in props:
        if p not in reg:
            continue
        try:
            findings, unknowns = 0, 0
            rules = []
            for rule in reg[p]['rules']:
                r = rule(ctx)
                v = [f for f in r.findings if f.severity == 'VIOLATION']
                findings += len(v)
                unknowns += len(r.unknowns)
                if v:
                    rules.append(r.rule)
            detail[p] = {'violations': findings, 'unknown': unknowns, 'rules': rules}
        except Exception as e:
            detail[p] = {'violations': 0, 'unknown': 1, 'rules': [], 'error': '%s: %s' % (type(e).__name__, e)}
    if kind == 'break':
        ok = any(d['violations'] > 0 for d in detail.values())
        return vid, kind, 'killed' if ok else 'survived', '', detail
    ok = all(d['violations'] == 0 and d['unknown'] == 0 for d in detail.values())
    return vid, kind, 'silent' if ok else 'alarmed', '', detail


def _patch_overrides(patch_path, repo):
    """apply a unified diff to copies of the files it touches (in a temporary directory that is removed again)
    -> {relative path: patched source} or None if it does not apply to the current tree"""
    import re
    import shutil
    import subprocess
    import tempfile
    text = open(patch_path, encoding='utf-8', errors='replace').read()
    files = sorted(set(re.findall(r'^\+\+\+ b/(\S+)', text, flags=re.M)) | set(re.findall(r'^--- a/(\S+)', text, flags=re.M)))
    tmp = tempfile.mkdtemp(prefix='algopy-variant-')
    try:
        for rel in files:
            src = os.path.join(repo, rel)
            if os.path.exists(src):
                os.makedirs(os.path.dirname(os.path.join(tmp, rel)), exist_ok=True)
                shutil.copy(src, os.path.join(tmp, rel))
        r = subprocess.run(['git', 'apply', '--unsafe-paths', os.path.abspath(patch_path)], cwd=tmp, capture_output=True, text=True,
                           env=dict(os.environ, GIT_CEILING_DIRECTORIES=tmp, GIT_DIR=os.path.join(tmp, '.nogit')))
        if r.returncode != 0:
            return None
        out = {}
        for rel in files:
            pth = os.path.join(tmp, rel)
            if os.path.exists(pth):
                out[rel] = open(pth, encoding='utf-8').read()
        return out
    finally:
        shutil.rmtree(tmp, ignore_errors=True)


def _run_patch_variant(args):
    vid, kind, patch, props = args
    from .runner import Ctx, registry
    from .model import REPO
    ov = _patch_overrides(patch, REPO)
    if ov is None:
        return vid, kind, 'skipped', 'patch does not apply to the current tree', {}
    from .model import SCOPE
    scope = {rel for rel, _ in SCOPE}
    ov = {k: v for k, v in ov.items() if k in scope}
    reg = registry()
    detail = {}
    try:
        ctx = Ctx(overrides=ov)
    except Exception as e:
        return vid, kind, 'error', 'variant does not parse: %s' % e, {}
    for p in props:
        if p not in reg:
            continue
        findings, unknowns, rules = 0, 0, []
        for rule in reg[p]['rules']:
            try:
                r = rule(ctx)
            except Exception as e:
                unknowns += 1
                rules.append('%s: %s' % (type(e).__name__, str(e)[:60]))
                continue
            v = [f for f in r.findings if f.severity == 'VIOLATION']
            findings += len(v)
            unknowns += len(r.unknowns)
            if v:
                rules.append(r.rule)
        detail[p] = {'violations': findings, 'unknown': unknowns, 'rules': rules}
    if kind == 'break':
        ok = any(d['violations'] > 0 for d in detail.values())
        return vid, kind, 'killed' if ok else 'survived', '', detail
    ok = all(d['violations'] == 0 and d['unknown'] == 0 for d in detail.values())
    return vid, kind, 'silent' if ok else 'alarmed', '', detail


# seeded changes that are (honestly) not decided by the check of their target property: reason
UNDECIDED_SEEDS = {'C01_d': 'wrong multiplication count in a while loop: E2 does not model while loops (exit 2), the count is invisible to the grading',
                   'C01_f': 'value-level change inside an unmodelled construct: the check stops with ANALYSIS-ERROR (exit 2), no violation is named',
                   'C07_g': 'fast path of UTPM.lu2 chosen from the zeroth coefficient only (legitimate control dependence) that returns homogeneous but numerically '
                            'wrong factors: the defining equation L U = P A is numeric content',
                   'C01_j': 'off-by-one in the scalar n-th derivative formula of hyperu (nthderiv): formula content, C09/C16 are not applicable',
                   'C03_i': 'pb_lu multiplies with W.T instead of W: both are (N,N) permutation matrices, the side of a transposition of a square matrix is numeric content',
                   'C07_j': 'misplaced parenthesis in the Pade-13 numerator of expm: coefficient/formula content',
                   'C13_b': 'UTPM.tile as one numpy.tile call with reps padded by (1,1): same as C10_g - not decided (exit 2)',
                   'C13_i': 'UTPM.trace as a strided view of a reshape: neither the slice-wise loop nor a whole-array call with evaluable axes - reported as not decided (exit 2)',
                   'C10_g': 'UTPM.tile as one numpy.tile call on the coefficient array: the alignment of reps with the axes is not evaluated - reported as not decided (exit 2); '
                            'since round 7 R-param-used also reports that the rewrite ignores `out`, which is true but not the defect the seed is about',
                   'C01_q': 'integer powers by square-and-multiply with a parity slip: a while loop over the bits of the exponent, E2 does not model while loops (exit 2); which power comes out is numeric content',
                   'C01_r': '_exp(scale=): the factor is applied to the zeroth coefficient only - a factor inside a recurrence, formula content',
                   'C03_r': 'pb_logdet through Jacobi\'s formula without the transpose of the inverse: the side of a transposition of a square matrix',
                   'C08_r': '_cholesky restructured with tensordot, assignment turned into `-=` on a re-used out buffer: the restructured kernel is outside the idioms of E2 (exit 2, not decided)',
                   'C10_q': 'UTPM.trace through a strided view of a reshape (unbounded stride wraps for tall matrices): not the slice-wise loop, axes not evaluable (C13.map exit 2)',
                   'C12_r': 'extract_jacobian / extract_jac_vec read coefficient D-1 through a shared helper default: the extract_* drivers belong to C09 (not applicable)',
                   'C13_q': 'tril / triu through a numpy.tri mask with a mirrored offset: neither the slice-wise loop nor an evaluable whole-array call (C13.map exit 2)',
                   'C12_h': 'UTPM.shift rewritten with an index array whose mask admits negative (wrapping) indices: value-level index arithmetic on an array, '
                            'outside the affine index domain; shift(s<0) reads higher orders by design and is not a graded kernel'}
# neutral patches written against an older commit that fire there for a true reason
NEUTRAL_SKIP = {'N7/patch3.diff': 'written before fix 02c76d5; on that tree the check reports the real _eigh_pullback defect',
                'S4/patch2.diff': '_diag without loops: diagonals written through a strided view of a reshape (`values.reshape((D,P,N*N))[:,:,::N+1] = v_data`) and read '
                                  'with numpy.diagonal(axis1=2, axis2=3) - outside the idioms E2 understands; C07/C12 stop with exit 2 (not decided, no violation named)'}


def patch_variants(prop):
    """stored sub-agent patches as self-test variants: the seeds that the matrix says this property's check catches
    (breaking) and every behaviour-preserving refactoring (neutral)"""
    import glob
    import json
    verif = os.path.dirname(os.path.dirname(os.path.abspath(__file__)))
    out = []
    try:
        mx = json.load(open(os.path.join(verif, 'seeded', 'matrix.json')))
    except Exception:
        mx = {}
    for sid in sorted(os.listdir(os.path.join(verif, 'seeded'))):
        d = os.path.join(verif, 'seeded', sid)
        if not os.path.isdir(d) or sid in UNDECIDED_SEEDS:
            continue
        res = mx.get(sid, {})
        if isinstance(res.get(prop), list) and res[prop][0] == 1:
            out.append(('seed:' + sid, 'break', os.path.join(d, 'patch.diff'), [prop]))
    for pth in sorted(glob.glob(os.path.join(verif, 'neutral', '*', 'patch*.diff'))):
        name = '/'.join(pth.split('/')[-2:])
        if name in NEUTRAL_SKIP:
            continue
        out.append(('neutral:' + name, 'neutral', pth, [prop]))
    return out


def selftest(prop, tier, jobs=16):
    """thorough tier only: run every variant that names `prop`"""
    if tier != 'thorough':
        return None
    todo = [(v, [prop]) for v in TEXT if prop in v[2]]
    ptodo = patch_variants(prop)
    if not todo and not ptodo:
        return {'variants': 0}
    out = {'variants': len(todo) + len(ptodo), 'text_variants': len(todo), 'seed_patches': sum(1 for x in ptodo if x[1] == 'break'),
           'neutral_patches': sum(1 for x in ptodo if x[1] == 'neutral'),
           'killed': 0, 'survived': [], 'silent': 0, 'alarmed': [], 'skipped': [], 'failed': [], 'detail': {}}
    with ProcessPoolExecutor(max_workers=jobs) as ex:
        import itertools
        for vid, kind, status, why, detail in itertools.chain(ex.map(_run_variant, todo), ex.map(_run_patch_variant, ptodo)):
            out['detail'][vid] = {'kind': kind, 'status': status, 'by': detail}
            if status == 'killed':
                out['killed'] += 1
            elif status == 'silent':
                out['silent'] += 1
            elif status == 'skipped':
                out['skipped'].append(vid)
            elif status == 'survived':
                out['survived'].append(vid)
                out['failed'].append({'mutant': vid, 'why': 'breaking variant not detected by the %s check (checker insensitive)' % prop})
            elif status == 'alarmed':
                out['alarmed'].append(vid)
                out['failed'].append({'mutant': vid, 'why': 'behaviour-preserving variant raises an alarm in the %s check (checker unsound): %s' % (prop, detail)})
            else:
                out['failed'].append({'mutant': vid, 'why': why})
    return out


def main():
    import sys
    import json
    props = sys.argv[1:] or sorted({p for v in TEXT for p in v[2]})
    bad = 0
    for p in props:
        r = selftest(p, 'thorough')
        print('%s: %d variants, killed %d, silent %d, survived %s, alarmed %s, skipped %s' % (
            p, r['variants'], r.get('killed', 0), r.get('silent', 0), r.get('survived'), r.get('alarmed'), r.get('skipped')))
        for f in r.get('failed', []):
            bad += 1
            print('   FAILED', f['mutant'], f['why'][:300])
    return 1 if bad else 0


if __name__ == '__main__':
    import sys
    sys.exit(main())
