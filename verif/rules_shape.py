"""
E5 - sibling / registry agreement matchers (C10, C13, and the base-point,
wrapper and operand-kind clauses of C01, C02, C07, C08).
"""
import ast
from .core import Finding, RuleResult
from .indexenum import enumerate_function
from .tracer_proto import class_dispatch_targets
from .model import AnalysisError, dotted_name, norm, walk_no_nested, must_raise, seq_iteration
from .effects import flat

ALGO = 'algopy.utpm.algorithms'
UTPM_MOD = 'algopy.utpm.utpm'


def _f(fi):
    return fi.fq


# ---------------------------------------------------------------- C10.cmp
CMP = {'__lt__': ast.Lt, '__le__': ast.LtE, '__gt__': ast.Gt, '__ge__': ast.GtE, '__eq__': ast.Eq}
OPNAME = {'__lt__': 'lt', '__le__': 'le', '__gt__': 'gt', '__ge__': 'ge', '__eq__': 'eq'}


_OPERATOR_CMP = {'lt': ast.Lt, 'le': ast.LtE, 'gt': ast.Gt, 'ge': ast.GtE, 'eq': ast.Eq, 'ne': ast.NotEq}


def rule_cmp(ctx):
    r = RuleResult('C10.cmp', 'every UTPM comparison method returns numpy.all(<its own operator>(zeroth coefficient of self, '
                              'zeroth coefficient of other | other)) on every path; Function comparisons call the operator of '
                              'the same name on the node values')
    m = ctx.model
    for name, op in sorted(CMP.items()):
        fi = m.lookup_method('UTPM', name)
        if fi is None:
            r.unknown('UTPM.' + name, 'comparison method vanished')
            continue
        rets = [n for n in walk_no_nested(fi.node) if isinstance(n, ast.Return)]
        if not rets:
            r.unknown(fi.site(), 'no return statement')
        for ret in rets:
            v = ret.value
            ok = False
            why = 'not of the form numpy.all(a <op> b)'
            inner = v.args[0] if isinstance(v, ast.Call) and dotted_name(v.func) in ('numpy.all', 'numpy.alltrue') and len(v.args) == 1 else None
            if isinstance(inner, ast.Call) and (dotted_name(inner.func) or '').startswith('operator.') and len(inner.args) == 2 \
                    and (dotted_name(inner.func) or '').split('.')[1] in _OPERATOR_CMP:
                # numpy.all(operator.lt(a, b)) is numpy.all(a < b)
                inner = ast.copy_location(ast.Compare(left=inner.args[0], ops=[_OPERATOR_CMP[dotted_name(inner.func).split('.')[1]]()],
                                                      comparators=[inner.args[1]]), inner)
            if isinstance(inner, ast.Compare) and len(inner.ops) == 1:
                c = inner
                if isinstance(c.left, ast.Name):
                    # a local holding the left operand (`lhs = self.data[0, ...]`)
                    defs = [st_.value for st_ in walk_no_nested(fi.node) if isinstance(st_, ast.Assign) and len(st_.targets) == 1
                            and isinstance(st_.targets[0], ast.Name) and st_.targets[0].id == c.left.id]
                    if len(defs) == 1:
                        c = ast.copy_location(ast.Compare(left=defs[0], ops=c.ops, comparators=c.comparators), c)
                left, right = norm(c.left), norm(c.comparators[0])
                if not isinstance(c.ops[0], op):
                    why = 'uses operator %s' % type(c.ops[0]).__name__
                elif not _is_zeroth(c.left, 'self'):
                    why = 'left operand `%s` is not the zeroth coefficient of self' % left
                else:
                    params = [p_ for p_ in fi.params if p_ != 'self']

                    def assigns_to(nm):
                        return [st for st in walk_no_nested(fi.node) if isinstance(st, (ast.Assign, ast.AugAssign)) and any(
                            isinstance(t, ast.Name) and t.id == nm for t in (st.targets if isinstance(st, ast.Assign) else [st.target]))]

                    def right_ok(e, depth=0):
                        """-> None if `e` is the zeroth coefficient of the other operand / the raw operand, else the reason"""
                        if depth > 4:
                            return 'operand `%s` not resolved' % norm(e)
                        if isinstance(e, ast.IfExp):
                            return right_ok(e.body, depth + 1) or right_ok(e.orelse, depth + 1)
                        if _is_zeroth(e, None):
                            if e.value.value.id == 'self':
                                return 'right operand `%s` is a coefficient of self' % norm(e)
                            return None
                        if isinstance(e, ast.Name) and e.id in params:
                            # a rebinding of the operand before the comparison must select its zeroth coefficient
                            for st in assigns_to(e.id):
                                v_ = st.value if isinstance(st, ast.Assign) else None
                                arms = [v_.body, v_.orelse] if isinstance(v_, ast.IfExp) else [v_]
                                if not all(a_ is not None and (_is_zeroth(a_, e.id) or norm(a_) == e.id) for a_ in arms):
                                    return 'operand `%s` is rebound by `%s`, which is not its zeroth coefficient' % (e.id, norm(st))
                            return None
                        if isinstance(e, ast.Name):
                            ds = assigns_to(e.id)
                            if len(ds) == 1 and isinstance(ds[0], ast.Assign):
                                return right_ok(ds[0].value, depth + 1)
                            return 'right operand `%s` has %d definitions' % (e.id, len(ds))
                        return 'right operand `%s` is neither a zeroth coefficient nor the raw operand' % norm(e)
                    why = right_ok(c.comparators[0])
                    ok = why is None
            if ok:
                r.ok(construct='%s:%s' % (name, norm(ret)), sample='UTPM.%s: `%s`' % (name, norm(ret)))
            else:
                r.bad(Finding('C10.cmp', _f(fi), norm(ret), 'UTPM.%s returns `%s`: %s' % (name, norm(ret), why), fi.file, ret.lineno))
    for name in ('__lt__', '__le__', '__gt__', '__ge__'):
        fi = m.lookup_method('Function', name)
        if fi is None:
            r.unknown('Function.' + name, 'comparison method vanished')
            continue
        rets = [n for n in walk_no_nested(fi.node) if isinstance(n, ast.Return)]
        for ret in rets:
            v = ret.value
            ok = False
            if isinstance(v, ast.Call) and dotted_name(v.func) == 'operator.' + OPNAME[name] and len(v.args) == 2 \
                    and norm(v.args[0]) == 'self.x':
                ok = True
            if isinstance(v, ast.Compare) and len(v.ops) == 1 and isinstance(v.ops[0], CMP[name]) and norm(v.left) == 'self.x':
                ok = True
            if ok:
                r.ok(construct='Function.' + name, sample='Function.%s: `%s`' % (name, norm(ret)))
            else:
                r.bad(Finding('C10.cmp', _f(fi), norm(ret), 'Function.%s does not apply operator.%s to the node values: `%s`'
                              % (name, OPNAME[name], norm(ret)), fi.file, ret.lineno))
    r.floor = 9     # one return per method at least: 5 UTPM comparisons + 4 Function comparisons
    return r


def _is_zeroth(node, owner):
    """<owner>.data[0, ...] (any trailing slices / Ellipsis)"""
    if not isinstance(node, ast.Subscript):
        return False
    b = node.value
    if not (isinstance(b, ast.Attribute) and b.attr == 'data' and isinstance(b.value, ast.Name)):
        return False
    if owner is not None and b.value.id != owner:
        return False
    sl = node.slice
    first = sl.elts[0] if isinstance(sl, ast.Tuple) and sl.elts else sl
    if not (isinstance(first, ast.Constant) and first.value == 0):
        return False
    rest = sl.elts[1:] if isinstance(sl, ast.Tuple) else []
    for x in rest:
        if isinstance(x, ast.Constant) and x.value is Ellipsis:
            continue
        if isinstance(x, ast.Slice) and x.lower is None and x.upper is None and x.step is None:
            continue
        return False
    return True


# -------------------------------------------------------------- C10.shape
def rule_shape(ctx):
    r = RuleResult('C10.shape', 'shape/size/ndim apply numpy.shape/size/ndim to one coefficient slice data[0,0,...]; '
                                '__len__ is shape[0]; the kernel-level _shape/_ndim agree')
    m = ctx.model
    want = {'get_shape': 'shape', 'get_size': 'size', 'get_ndim': 'ndim'}
    for meth, fn in sorted(want.items()):
        fi = m.lookup_method('UTPM', meth)
        if fi is None:
            r.unknown('UTPM.' + meth, 'accessor vanished')
            continue
        rets = [n for n in walk_no_nested(fi.node) if isinstance(n, ast.Return)]
        ok = False
        for ret in rets:
            v = ret.value
            if isinstance(v, ast.Call) and dotted_name(v.func) == 'numpy.' + fn and len(v.args) == 1 and _is_slice00(v.args[0]):
                ok = True
            if isinstance(v, ast.Attribute) and v.attr == fn and _is_slice00(v.value):
                ok = True
        if ok and len(rets) == 1:
            r.ok(construct=meth, sample='UTPM.%s: `%s`' % (meth, norm(rets[0])))
        else:
            r.bad(Finding('C10.shape', _f(fi), meth, 'UTPM.%s does not return numpy.%s of the coefficient slice self.data[0,0,...]: %s'
                          % (meth, fn, [norm(x) for x in rets]), fi.file, fi.lineno))
        # property binding
        ci = m.cls('UTPM')
        prop = ci.attrs.get(fn)
        if prop is not None and norm(prop) == 'property(%s)' % meth:
            r.ok(construct='prop:' + fn, sample='UTPM.%s = property(%s)' % (fn, meth))
        else:
            r.bad(Finding('C10.shape', UTPM_MOD + ':UTPM', 'prop:' + fn, 'UTPM.%s is not property(%s)' % (fn, meth), 'algopy/utpm/utpm.py', fi.lineno))
    fi = m.lookup_method('UTPM', '__len__')
    if fi is not None and any(isinstance(n, ast.Return) and norm(n.value) == 'self.shape[0]' for n in walk_no_nested(fi.node)):
        r.ok(construct='__len__', sample='UTPM.__len__ returns self.shape[0]')
    else:
        r.bad(Finding('C10.shape', UTPM_MOD + ':UTPM.__len__', '__len__', 'UTPM.__len__ is not self.shape[0]', 'algopy/utpm/utpm.py', getattr(fi, 'lineno', 0)))
    for meth, attr in (('_shape', 'shape'), ('_ndim', 'ndim')):
        fi = m.lookup_method('UTPM', meth)
        if fi is None:
            continue
        rets = [n for n in walk_no_nested(fi.node) if isinstance(n, ast.Return)]
        if len(rets) == 1 and isinstance(rets[0].value, ast.Attribute) and rets[0].value.attr == attr and norm(rets[0].value.value) == 'a_data[0, 0]':
            r.ok(construct=meth, sample='%s: `%s`' % (meth, norm(rets[0])))
        else:
            r.bad(Finding('C10.shape', _f(fi), meth, '%s does not return a_data[0,0].%s' % (meth, attr), fi.file, fi.lineno))
    r.floor = 9
    return r


def _is_slice00(node):
    if not (isinstance(node, ast.Subscript) and norm(node.value) == 'self.data'):
        return False
    sl = node.slice
    elts = sl.elts if isinstance(sl, ast.Tuple) else [sl]
    if len(elts) < 2:
        return False
    if not all(isinstance(e, ast.Constant) and e.value == 0 for e in elts[:2]):
        return False
    for x in elts[2:]:
        if not (isinstance(x, ast.Constant) and x.value is Ellipsis):
            return False
    return True


# --------------------------------------------------------------- base point
# kernel -> list of (output array position in `out`, expected function name) ; None: single output
BASE = {
    '_exp': 'exp', '_log': 'log', '_sqrt': 'sqrt', '_sincos': ('sin', 'cos'), '_tansec2': ('tan', None),
    '_arcsin': ('arcsin', None), '_arccos': ('arccos', None), '_arctan': ('arctan', None),
    '_sinhcosh': ('sinh', 'cosh'), '_tanhsech2': ('tanh', None), '_sign': 'sign', '_botched_clip': 'clip',
    '_dawsn': 'dawsn', '_inv': ('inv',), '_solve': 'solve', '_solve_non_UTPM_x': 'solve', '_cholesky': 'cholesky',
    '_qr_rectangular': 'qr', '_qr_full': 'qr', '_eigh1': 'eigh', '_absolute': 'absolute',
}
# kernels routed through a generic helper: kernel -> (helper, name of the scalar function expected as first argument)
VIA_HELPER = {
    '_expm1': 'expm1', '_log1p': 'log1p', '_erf': 'erf', '_erfi': 'erfi', '_logit': 'logit', '_expit': 'expit',
    '_gammaln': 'gammaln', '_psi': 'psi', '_polygamma': 'polygamma', '_hyperu': 'hyperu',
}
ALIASES = {'np_erfi': 'erfi', 'np_polygamma': 'polygamma', 'np_fix': 'fix', 'np_clip_reordered_args': 'clip'}


def _resolve_scalar_func(ctx, fi, node):
    """name of the NumPy/SciPy scalar function an expression denotes:
    numpy.exp -> exp; scipy.special.logit -> logit; nthderiv.erf -> (through basecase) erf;
    functools.partial(nthderiv.polygamma, m) -> polygamma"""
    m = ctx.model
    if isinstance(node, ast.Name):
        # local variable bound to functools.partial(...)
        vals = [st.value for st in walk_no_nested(fi.node) if isinstance(st, ast.Assign)
                and any(isinstance(t, ast.Name) and t.id == node.id for t in st.targets)]
        if len(vals) == 1:
            return _resolve_scalar_func(ctx, fi, vals[0])
        return None
    if isinstance(node, ast.Call) and dotted_name(node.func) == 'functools.partial' and node.args:
        return _resolve_scalar_func(ctx, fi, node.args[0])
    d = dotted_name(node)
    if d is None:
        return None
    head = d.split('.')[0]
    if head in ('numpy', 'scipy', 'np', 'math'):
        return d.split('.')[-1]
    res = m.resolve_dotted(fi.module, d)
    if res is not None and res[0] == 'func':
        f = res[1]
        # nthderiv function decorated with basecase(<zeroth derivative function>)
        for dec in f.node.decorator_list:
            if isinstance(dec, ast.Call) and dotted_name(dec.func) == 'basecase' and dec.args:
                base = dec.args[0]
                bd = dotted_name(base)
                if bd is None:
                    return None
                last = bd.split('.')[-1]
                return ALIASES.get(last, last)
        return f.name
    return None


def _basecase_ok(ctx):
    """nthderiv.basecase: the wrapper returns fn_zeroth_deriv(*args, ...) on every path with n == 0 and f(*args, ..., n=n) on every
    path with n != 0 (decided path by path over the tests of `n`)"""
    from .rules_api import _paths
    fi = ctx.model.func('algopy.nthderiv.nthderiv', 'basecase')
    inner = [n for n in ast.walk(fi.node) if isinstance(n, ast.FunctionDef) and n is not fi.node and any(isinstance(r_, ast.Return) and isinstance(r_.value, ast.Call)
                                                                                                      for r_ in ast.walk(n))]
    wf = [n for n in inner if n.args.vararg is not None and n.args.kwarg is not None]
    if len(wf) != 1:
        return False
    wf = wf[0]
    zeroth = fi.params[0] if fi.params else 'fn_zeroth_deriv'
    # the name holding the derivative order: popped from kwargs under the key 'n'
    nname = None
    for st in wf.body:
        if isinstance(st, ast.Assign) and len(st.targets) == 1 and isinstance(st.targets[0], ast.Name) and isinstance(st.value, ast.Call) \
                and isinstance(st.value.func, ast.Attribute) and st.value.func.attr in ('pop', 'get') and st.value.args \
                and isinstance(st.value.args[0], ast.Constant) and st.value.args[0].value == 'n':
            nname = st.targets[0].id
    if nname is None:
        return False

    def n_fact(t, o):
        """what a test outcome says about n: 'zero' | 'nonzero' | None"""
        if isinstance(t, ast.UnaryOp) and isinstance(t.op, ast.Not):
            return n_fact(t.operand, not o)
        if isinstance(t, ast.Name) and t.id == nname:
            return 'nonzero' if o else 'zero'
        if isinstance(t, ast.Compare) and len(t.ops) == 1 and isinstance(t.left, ast.Name) and t.left.id == nname \
                and isinstance(t.comparators[0], ast.Constant) and t.comparators[0].value == 0:
            op = t.ops[0]
            if isinstance(op, ast.Eq):
                return 'zero' if o else 'nonzero'
            if isinstance(op, (ast.NotEq, ast.Gt)):
                return 'nonzero' if o else None if isinstance(op, ast.Gt) else 'zero'
        return None
    seen = {'zero': 0, 'nonzero': 0}
    for path in _paths(wf.body):
        stmts = [s_ for s_ in path if not isinstance(s_, tuple)]
        if not stmts or not isinstance(stmts[-1], ast.Return):
            continue
        facts = {n_fact(t_[1], t_[2]) for t_ in path if isinstance(t_, tuple) and len(t_) > 2} - {None}
        if len(facts) != 1:
            return False
        fact = facts.pop()
        c = stmts[-1].value
        if not (isinstance(c, ast.Call) and isinstance(c.func, ast.Name) and any(isinstance(a, ast.Starred) and norm(a.value) == wf.args.vararg.arg for a in c.args)):
            return False
        if fact == 'zero' and c.func.id != zeroth:
            return False
        if fact == 'nonzero' and not (c.func.id != zeroth and any(k.arg == 'n' and norm(k.value) == nname for k in c.keywords)):
            return False
        seen[fact] += 1
    return seen['zero'] >= 1 and seen['nonzero'] >= 1


def rule_base(ctx, kernels=None, rid='base'):
    r = RuleResult(rid, 'the statement defining coefficient 0 of kernel _NAME applies the NumPy/SciPy function called NAME '
                        'to the zeroth input coefficient (per output slot for paired kernels; through nthderiv.basecase / '
                        'functools.partial for kernels routed through the generic helpers)')
    m = ctx.model
    ci = m.cls('RawAlgorithmsMixIn')
    if ci is None:
        raise AnalysisError(rid, ALGO, 'class RawAlgorithmsMixIn vanished')
    if _basecase_ok(ctx):
        r.ok(construct='basecase', sample='nthderiv.basecase: n == 0 routes to fn_zeroth_deriv(*args)')
    else:
        r.unknown('algopy/nthderiv/nthderiv.py:basecase', 'basecase decorator no longer in the recognised form')
    for k, exp in sorted(BASE.items()):
        if kernels is not None and k not in kernels:
            continue
        fi = ci.methods.get(k)
        if fi is None:
            r.unknown(ALGO + ':' + k, 'kernel vanished')
            continue
        exps = exp if isinstance(exp, tuple) else (exp,)
        found = _base_calls(ctx, fi)
        if not found:
            r.unknown(fi.site(), 'no store into coefficient 0 applying a library function found')
            continue
        # found: list of (slot order, func name, node)
        for slot, want in enumerate(exps):
            if want is None:
                continue
            cands = [f for f in found if f[0] == slot]
            if not cands:
                # single-output kernels store through any name
                cands = found if len(exps) == 1 else []
            names = {c[1] for c in cands}
            # the base point must be computed from zeroth input coefficients: a constant coefficient index other than 0
            # inside the defining statement reads a higher-order coefficient
            wrong_idx = []
            for c_ in cands:
                for n_ in ast.walk(c_[2]):
                    if isinstance(n_, ast.Subscript) and isinstance(n_.ctx, ast.Load) and isinstance(n_.value, ast.Name) and n_.value.id.endswith('_data'):
                        f0 = n_.slice.elts[0] if isinstance(n_.slice, ast.Tuple) and n_.slice.elts else n_.slice
                        if isinstance(f0, ast.Constant) and isinstance(f0.value, int) and not isinstance(f0.value, bool) and f0.value != 0:
                            wrong_idx.append(n_)
            if wrong_idx:
                r.bad(Finding(rid, _f(fi), 'slot%d:index' % slot, '%s computes the zeroth coefficient of output %d from `%s`, a higher-order coefficient of the '
                                                                  'argument: `%s`' % (fi.qualname, slot, norm(wrong_idx[0]), norm(cands[0][2])[:90]), fi.file, wrong_idx[0].lineno))
                continue
            if want in names or (want == 'absolute' and 'absolute' in names):
                r.ok(construct='%s[%d]' % (k, slot), nontrivial=True,
                     sample='%s slot %d: base point computed by `%s`' % (k, slot, norm(cands[0][2])[:90]))
            elif not cands:
                r.unknown(fi.site(), 'no base-point store for output slot %d' % slot)
            else:
                r.bad(Finding(rid, _f(fi), 'slot%d:%s' % (slot, sorted(names)),
                              '%s defines the zeroth coefficient of output %d with %s, expected the function named `%s`: `%s`'
                              % (fi.qualname, slot, sorted(names), want, norm(cands[0][2])[:100]), fi.file, cands[0][2].lineno))
    for k, want in sorted(VIA_HELPER.items()):
        if kernels is not None and k not in kernels:
            continue
        fi = ci.methods.get(k)
        if fi is None:
            r.unknown(ALGO + ':' + k, 'kernel vanished')
            continue
        calls = [c for c in walk_no_nested(fi.node) if isinstance(c, ast.Call) and isinstance(c.func, ast.Name)
                 and c.func.id in ('_black_f_white_fprime', '_eval_slow_generic')]
        if len(calls) != 1:
            r.unknown(fi.site(), 'expected exactly one call of a generic helper')
            continue
        got = _resolve_scalar_func(ctx, fi, calls[0].args[0])
        if got == want:
            r.ok(construct=k, nontrivial=True, sample='%s: helper receives `%s` -> %s' % (k, norm(calls[0].args[0]), got))
        elif got is None:
            r.unknown(fi.site(calls[0]), 'scalar function argument `%s` not resolvable' % norm(calls[0].args[0]))
        else:
            r.bad(Finding(rid, _f(fi), 'helper:%s' % got, '%s hands the scalar function `%s` (%s) to %s, expected `%s`'
                          % (fi.qualname, norm(calls[0].args[0]), got, calls[0].func.id, want), fi.file, calls[0].lineno))
    # the helpers themselves: y_data[0] = f(x_data[0])
    for h in ('_black_f_white_fprime', '_eval_slow_generic'):
        fi = m.func(ALGO, h)
        fpar = fi.params[0]

        def _zeroth(e):
            return isinstance(e, ast.Subscript) and isinstance(e.value, ast.Name) and (
                (isinstance(e.slice, ast.Constant) and e.slice.value == 0 and e.slice.value is not False)
                or (isinstance(e.slice, ast.Tuple) and e.slice.elts and isinstance(e.slice.elts[0], ast.Constant) and e.slice.elts[0].value == 0))
        # locals that stand for the zeroth coefficient of a parameter (`x0 = x_data[0]`, assigned once)
        stores_ = {}
        for n_ in walk_no_nested(fi.node):
            if isinstance(n_, ast.Name) and isinstance(n_.ctx, ast.Store):
                stores_[n_.id] = stores_.get(n_.id, 0) + 1
        zero_alias = {s_.targets[0].id for s_ in walk_no_nested(fi.node) if isinstance(s_, ast.Assign) and len(s_.targets) == 1
                      and isinstance(s_.targets[0], ast.Name) and stores_.get(s_.targets[0].id) == 1 and _zeroth(s_.value)
                      and s_.value.value.id in fi.params}

        def _zeroth_arg(e):
            return (_zeroth(e) and e.value.id in fi.params) or (isinstance(e, ast.Name) and e.id in zero_alias)
        st = [s for s in walk_no_nested(fi.node) if isinstance(s, ast.Assign) and len(s.targets) == 1 and _zeroth(s.targets[0])
              and isinstance(s.value, ast.Call) and isinstance(s.value.func, ast.Name) and s.value.func.id == fpar
              and len(s.value.args) == 1 and _zeroth_arg(s.value.args[0])]
        if st:
            r.ok(construct=h, sample='%s: `%s`' % (h, norm(st[0])))
        else:
            r.bad(Finding(rid, _f(fi), 'helper-base', '%s no longer defines y_data[0] = f(x_data[0])' % h, fi.file, fi.lineno))
    r.floor = 25 if kernels is None else 3
    return r


def _base_calls(ctx, fi):
    """library calls whose result is stored into coefficient 0 of an output array:
    -> [(slot, function name, statement)] with slot = position of the target array among
    the kernel's output arrays"""
    outs = []
    for st in walk_no_nested(fi.node):
        if isinstance(st, ast.Assign) and isinstance(st.value, ast.Name) and st.value.id == 'out':
            for t in st.targets:
                if isinstance(t, (ast.Tuple, ast.List)):
                    outs = [e.id for e in t.elts if isinstance(e, ast.Name)]
                elif isinstance(t, ast.Name):
                    outs = [t.id]
        if isinstance(st, ast.Assign) and isinstance(st.value, ast.Subscript) and norm(st.value.value) == 'out' \
                and isinstance(st.value.slice, ast.Constant) and isinstance(st.targets[0], ast.Name):
            while len(outs) <= st.value.slice.value:
                outs.append(None)
            outs[st.value.slice.value] = st.targets[0].id
    res = []
    for st in walk_no_nested(fi.node):
        tg = []
        val = None
        if isinstance(st, ast.Assign):
            tg = st.targets
            val = st.value
        elif isinstance(st, ast.Expr) and isinstance(st.value, ast.Call):
            for k in st.value.keywords:
                if k.arg == 'out':
                    tg = [k.value]
                    val = st.value
        for t in tg:
            elts = t.elts if isinstance(t, (ast.Tuple, ast.List)) else [t]
            for pos, e in enumerate(elts):
                if not isinstance(e, ast.Subscript):
                    continue
                sl = e.slice
                first = sl.elts[0] if isinstance(sl, ast.Tuple) and sl.elts else sl
                # index 0, or index d inside an `if d == 0` branch (handled: _absolute)
                zero = isinstance(first, ast.Constant) and first.value == 0
                if not zero and isinstance(first, ast.Name):
                    zero = _under_eq0(fi, st, first.id)
                if not zero:
                    continue
                arr = norm(e.value)
                slot = outs.index(arr) if arr in outs else (pos if len(elts) > 1 else 0)
                for c in ast.walk(val):
                    if isinstance(c, ast.Call):
                        d = dotted_name(c.func)
                        if d and d.split('.')[0] in ('numpy', 'scipy', 'math'):
                            res.append((slot, d.split('.')[-1], st))
    return res


def _under_eq0(fi, st, var):
    for n in walk_no_nested(fi.node):
        if isinstance(n, ast.If) and isinstance(n.test, ast.Compare) and norm(n.test) == '%s == 0' % var:
            if any(x is st for b in n.body for x in ast.walk(b)):
                return True
    return False


# ---------------------------------------------------------------- C01.wrap
WRAP = {
    # UTPM method -> (kernel, slot of the returned array in the kernel's out tuple or None for single out)
    'exp': ('_exp', None), 'expm1': ('_expm1', None), 'log': ('_log', None), 'log1p': ('_log1p', None), 'sqrt': ('_sqrt', None),
    'sin': ('_sincos', 0), 'cos': ('_sincos', 1), 'tan': ('_tansec2', 0), 'arcsin': ('_arcsin', 0), 'arccos': ('_arccos', 0),
    'arctan': ('_arctan', 0), 'sinh': ('_sinhcosh', 0), 'cosh': ('_sinhcosh', 1), 'tanh': ('_tanhsech2', 0),
    'sign': ('_sign', None), 'absolute': ('_absolute', None), 'negative': ('_negative', None), 'square': ('_square', None),
    'reciprocal': ('_reciprocal', None), 'erf': ('_erf', None), 'erfi': ('_erfi', None), 'dawsn': ('_dawsn', None),
    'logit': ('_logit', None), 'expit': ('_expit', None), 'gammaln': ('_gammaln', None), 'psi': ('_psi', None),
    'polygamma': ('_polygamma', None), 'hyperu': ('_hyperu', None), 'botched_clip': ('_botched_clip', None),
}


def rule_wrap(ctx):
    r = RuleResult('C01.wrap', 'every wrapper UTPM.NAME calls the kernel of NAME on the data of its argument with freshly '
                               'allocated output(s) and returns the output slot that belongs to NAME; the generated dispatcher '
                               'algopy.NAME reaches that wrapper')
    m = ctx.model
    eff = ctx.effects
    for name, (kern, slot) in sorted(WRAP.items()):
        fi = m.lookup_method('UTPM', name)
        if fi is None:
            r.unknown('UTPM.' + name, 'wrapper vanished')
            continue
        calls = [c for c in walk_no_nested(fi.node) if isinstance(c, ast.Call) and isinstance(c.func, ast.Attribute)
                 and c.func.attr.startswith('_') and dotted_name(c.func) and dotted_name(c.func).split('.')[0] in ('cls', 'self', 'UTPM')
                 and not c.func.attr.startswith('__')]
        if len(calls) != 1:
            r.unknown(fi.site(), 'expected exactly one kernel call in wrapper, found %d' % len(calls))
            continue
        c = calls[0]
        probs = []
        if c.func.attr != kern:
            probs.append(('kernel', 'calls kernel %s, expected %s' % (c.func.attr, kern)))
        # input: <arg>.data where arg is self / the last parameter
        src = fi.params[0] if fi.kind != 'classmethod' else fi.params[-1]
        data_args = [a for a in c.args if isinstance(a, ast.Attribute) and a.attr == 'data']
        if not any(isinstance(a.value, ast.Name) and a.value.id == src for a in data_args):
            probs.append(('input', 'kernel is not applied to %s.data' % src))
        outkw = [k.value for k in c.keywords if k.arg == 'out']
        rets = [n for n in walk_no_nested(fi.node) if isinstance(n, ast.Return) and n.value is not None]
        if len(outkw) != 1 or len(rets) != 1 or not isinstance(rets[0].value, ast.Name):
            probs.append(('shape', 'wrapper is not of the form kernel(..., out=...) ; return <name>'))
        else:
            o = outkw[0]
            elts = o.elts if isinstance(o, ast.Tuple) else [o]
            names = [e.value.id if (isinstance(e, ast.Attribute) and e.attr == 'data' and isinstance(e.value, ast.Name)) else None for e in elts]
            rv = rets[0].value.id
            if slot is None:
                if names != [rv]:
                    probs.append(('slot', 'returns `%s` but the kernel writes %s' % (rv, names)))
            else:
                if slot >= len(names) or names[slot] != rv:
                    probs.append(('slot', 'returns `%s`, but output slot %d of %s (the %s slot) receives `%s`'
                                  % (rv, slot, kern, name, names[slot] if slot < len(names) else None)))
            # freshness of every out array (E1)
            info = eff.sums[fi].callargs.get(id(c))
            if info is not None:
                oav = info[2].get('out')
                if oav is not None and any(x[0] == 'p' for x in flat(oav)):
                    probs.append(('fresh', 'an output array handed to the kernel may alias an argument: %s' % sorted(flat(oav))))
        # the result object must not be the argument itself
        ret_av = eff.sums[fi].ret
        if any(x[0] == 'p' for x in flat(ret_av)):
            probs.append(('ret', 'the returned object may alias an argument %s' % sorted(flat(ret_av))))
        if probs:
            for key, msg in probs:
                r.bad(Finding('C01.wrap', _f(fi), key, 'UTPM.%s: %s' % (name, msg), fi.file, c.lineno))
        else:
            r.ok(construct='UTPM.' + name, nontrivial=True, sample='UTPM.%s -> %s, returns slot %s, outputs fresh' % (name, kern, slot))
        # dispatcher
        for modname in ('algopy.globalfuncs', 'algopy.special.special'):
            mi = m.module(modname)
            if name in mi.functions:
                d = mi.functions[name]
                if d.generated or name in class_dispatch_targets(d, m):
                    r.ok(construct='dispatch:' + name, sample='%s.%s dispatches on the argument class to .%s' % (modname, name, name))
                else:
                    r.bad(Finding('C01.wrap', _f(d), 'dispatch', '%s.%s does not dispatch to the class method %s' % (modname, name, name), d.file, d.lineno))
    r.floor = 50
    return r


# -------------------------------------------------------- operand kinds C02
BINOPS = {'__add__': ('add', True), '__sub__': ('sub', True), '__mul__': ('mul', False), '__truediv__': ('div', False)}


def _branches(fi):
    """top-level if/elif chain + trailing statements -> list of (test or None, body).  A chain written with guard
    clauses (`if T1: ...; return` / `if T2: ...; return` / fall-through) is the same chain."""
    out = []

    def terminates(body):
        return bool(body) and isinstance(body[-1], (ast.Return, ast.Raise))

    def chain(stmts, leading=True):
        i = 0
        while i < len(stmts) and not isinstance(stmts[i], ast.If):
            if not leading:
                out.append((None, stmts[i:]))
                return
            i += 1
        if i == len(stmts):
            return
        st = stmts[i]
        rest = stmts[i + 1:]
        out.append((st.test, st.body))
        if st.orelse:
            if len(st.orelse) == 1 and isinstance(st.orelse[0], ast.If):
                chain(st.orelse, leading=False)
            else:
                out.append((None, st.orelse))
            if rest:
                out.append((None, rest))
            return
        if terminates(st.body) and rest:
            chain(rest, leading=False)
        elif rest:
            out.append((None, rest))

    chain(fi.node.body)
    # `if A or B: (if A: X else: Y); tail` is the chain `if A: X; tail / elif B: Y; tail`
    changed = True
    while changed:
        changed = False
        for i, (t, body) in enumerate(out):
            if isinstance(t, ast.BoolOp) and isinstance(t.op, ast.Or) and body and isinstance(body[0], ast.If) and body[0].orelse:
                inner = body[0]
                ds = [norm(v) for v in t.values]
                if norm(inner.test) in ds and len(ds) >= 2:
                    rest = [v for v in t.values if norm(v) != norm(inner.test)]
                    t2 = rest[0] if len(rest) == 1 else ast.BoolOp(op=ast.Or(), values=rest)
                    tail = body[1:]
                    out[i:i + 1] = [(inner.test, inner.body + tail), (t2, inner.orelse + tail)]
                    changed = True
                    break
    return out


def _operand_names(fi, operand):
    """names that hold the coefficient data of the left operand / of the right operand inside an operator overload:
    the pair returned by `_broadcast_arrays(self.data, <operand ...>)`, plain aliases of `self.data`"""
    left, right = {'self.data', 'x_data'}, {operand, 'y_data'}
    for st in walk_no_nested(fi.node):
        if not (isinstance(st, ast.Assign) and len(st.targets) == 1):
            continue
        t, v = st.targets[0], st.value
        if isinstance(t, ast.Tuple) and len(t.elts) == 2 and all(isinstance(e, ast.Name) for e in t.elts):
            if isinstance(v, ast.Call) and (dotted_name(v.func) or '').split('.')[-1] in ('_broadcast_arrays', 'broadcast_arrays', 'broadcast') and len(v.args) == 2:
                left.add(t.elts[0].id)
                right.add(t.elts[1].id)
            elif isinstance(v, ast.Tuple) and len(v.elts) == 2:
                if norm(v.elts[0]) in left:
                    left.add(t.elts[0].id)
                if norm(v.elts[1]) in right:
                    right.add(t.elts[1].id)
        elif isinstance(t, ast.Name) and norm(v) in left:
            left.add(t.id)
    return left, right


def _kind_of_test(t):
    if t is None:
        return 'utpm'
    txt = norm(t)
    if 'numpy.isscalar(rhs)' == txt:
        return 'scalar'
    if 'dtype == object' in txt:
        return 'object'
    if txt == 'isinstance(rhs, numpy.ndarray)':
        return 'ndarray'
    return '?' + txt


def _dtype_sources(fi, call):
    """names that the dtype of an allocation `numpy.zeros(shape, dtype=X)` / zeros_like(Y) derives from"""
    d = dotted_name(call.func) or ''
    last = d.split('.')[-1]
    names = set()
    if last in ('zeros_like', 'empty_like', 'ones_like') and call.args and not any(k.arg == 'dtype' for k in call.keywords) and len(call.args) < 2:
        names |= {n.id for n in ast.walk(call.args[0]) if isinstance(n, ast.Name)}
        return names, 'like'
    kw = [k.value for k in call.keywords if k.arg == 'dtype']
    if not kw:
        return None, 'default'
    v = kw[0]
    seen = set()
    todo = [v]
    while todo:
        e = todo.pop()
        for n in ast.walk(e):
            if isinstance(n, ast.Name) and n.id not in seen:
                seen.add(n.id)
                for st in walk_no_nested(fi.node):
                    if isinstance(st, ast.Assign) and st.lineno < call.lineno:
                        for t in st.targets:
                            tn = [x.id for x in ast.walk(t) if isinstance(x, ast.Name)]
                            if n.id in tn:
                                todo.append(st.value)
    return seen, 'dtype'


def rule_kinds(ctx):
    r = RuleResult('C02.kinds', 'operator overloads: (a) a scalar/ndarray constant is never added to the whole coefficient array '
                                '(+,-) nor multiplied into coefficient 0 only (*,/) - positive evidence only; (b) every freshly allocated '
                                'result array that receives data of both operands takes its dtype from both (numpy.promote_types / '
                                'result_type / NumPy arithmetic), not from one operand; (c) the object-array branch raises; '
                                '(d) __array_priority__ > 0 so that ndarray op UTPM defers to the reflected method')
    m = ctx.model
    for name, (op, additive) in sorted(BINOPS.items()):
        fi = m.lookup_method('UTPM', name)
        if fi is None:
            r.unknown('UTPM.' + name, 'operator vanished')
            continue
        br = _branches(fi)
        kinds = [_kind_of_test(t) for t, _ in br]
        # `if isinstance(rhs, ndarray): if rhs.dtype == object: raise ...; <ndarray code>` is the object branch followed by the ndarray branch
        br2, kinds2 = [], []
        for (t_, body_), k_ in zip(br, kinds):
            if k_ == 'ndarray' and body_ and isinstance(body_[0], ast.If) and not body_[0].orelse and _kind_of_test(body_[0].test) == 'object' \
                    and isinstance(body_[0].body[-1], (ast.Raise, ast.Return)):
                br2.append((body_[0].test, body_[0].body)); kinds2.append('object')
                br2.append((t_, body_[1:])); kinds2.append('ndarray')
            else:
                br2.append((t_, body_)); kinds2.append(k_)
        br, kinds = br2, kinds2
        if kinds != ['scalar', 'object', 'ndarray', 'utpm']:
            r.note('UTPM.%s: operand-kind branches are not in the form scalar/object/ndarray/UTPM (%s); only the evidence rules apply' % (name, kinds))
        operand = fi.params[1]
        lnames, rnames = _operand_names(fi, operand)
        for (test, body), kind in zip(br, kinds):
            key = '%s:%s' % (name, kind)
            evidence = []
            if kind == 'object':
                if not any(isinstance(n, ast.Raise) for s in body for n in ast.walk(s)) and not must_raise(m, fi.module, body):
                    evidence.append('the object-array branch does not raise')
            if kind in ('scalar', 'ndarray'):
                for b in body:
                    for n in ast.walk(b):
                        # whole-array additive combination with the constant
                        if additive and isinstance(n, ast.BinOp) and isinstance(n.op, (ast.Add, ast.Sub)):
                            sides = [norm(n.left), norm(n.right)]
                            if any(x in lnames for x in sides) and any(x in rnames for x in sides):
                                evidence.append('the constant is added to every coefficient: `%s`' % norm(n))
                        if additive and isinstance(n, ast.AugAssign) and isinstance(n.op, (ast.Add, ast.Sub)) \
                                and isinstance(n.target, ast.Subscript) and not _first_index_is_zero(n.target) \
                                and any(isinstance(x, ast.Name) and x.id in rnames for x in ast.walk(n.value)) \
                                and not (isinstance(n.value, ast.Subscript) and _first_index_is_zero(n.value) and False):
                            first = n.target.slice.elts[0] if isinstance(n.target.slice, ast.Tuple) and n.target.slice.elts else n.target.slice
                            if isinstance(first, ast.Constant) and first.value is Ellipsis or isinstance(first, ast.Slice):
                                evidence.append('the constant is added to every coefficient: `%s`' % norm(n))
                        if (not additive) and isinstance(n, ast.AugAssign) and isinstance(n.op, (ast.Mult, ast.Div)) \
                                and isinstance(n.target, ast.Subscript) and _first_index_is_zero(n.target):
                            evidence.append('the constant scales coefficient 0 only: `%s`' % norm(n))
            # dtype of fresh result arrays
            for b in body:
                for n in ast.walk(b):
                    if isinstance(n, ast.Call) and (dotted_name(n.func) or '').split('.')[-1] in ('zeros', 'empty', 'zeros_like', 'empty_like'):
                        src, how = _dtype_sources(fi, n)
                        if src is None:
                            if kind != 'object':
                                evidence.append('result array `%s` is allocated with the default dtype' % norm(n)[:60])
                            continue
                        left = {'self', 'x_data'} & src
                        right = {operand, 'y_data', 'rhs_shape'} & src
                        if how == 'like' and left and not right:
                            evidence.append('result array `%s` takes its dtype from the left operand only' % norm(n)[:60])
                        elif how == 'dtype' and (bool(left) != bool(right)):
                            evidence.append('the dtype of result array `%s` derives from one operand only (%s)' % (norm(n)[:60], sorted(src)))
            if evidence:
                for ev in evidence:
                    r.bad(Finding('C02.kinds', _f(fi), key + ':' + ev[:60], 'UTPM.%s (%s operand): %s' % (name, kind, ev), fi.file, body[0].lineno))
            else:
                r.ok(construct=key, nontrivial=True, sample='UTPM.%s, %s operand: no constant/coefficient or dtype evidence against it' % (name, kind))
    # priority
    for cls in ('UTPM', 'Function'):
        ci = m.cls(cls)
        v = ci.attrs.get('__array_priority__') if ci else None
        if isinstance(v, ast.Constant) and isinstance(v.value, (int, float)) and v.value > 0:
            r.ok(construct=cls + '.__array_priority__', sample='%s.__array_priority__ = %s' % (cls, v.value))
        else:
            r.bad(Finding('C02.kinds', 'algopy:%s' % cls, '__array_priority__', '%s.__array_priority__ is not a positive constant: ndarray op %s '
                          'would not defer to the reflected method' % (cls, cls), ci.file if ci else None, 0))
    r.floor = 18
    return r


def _first_index_is_zero(t):
    sl = t.slice
    first = sl.elts[0] if isinstance(sl, ast.Tuple) and sl.elts else sl
    return isinstance(first, ast.Constant) and first.value == 0


def rule_raw_broadcast(ctx):
    r = RuleResult('C11.raw-broadcast', 'operator overloads never combine the whole coefficient array with the raw array operand under plain NumPy '
                                        'broadcasting (`self.data * rhs`): broadcasting aligns trailing axes, so an operand with as many axes as the '
                                        'coefficient array (or one less) lines up with the direction / coefficient axes and mixes directions. Accepted: '
                                        'the scalar branch, or a guard that bounds the operand\'s ndim by the element ndim')
    m = ctx.model
    # in-place forms are left out: an operand with more axes than the polynomial is not broadcastable into it (outside the properties' domain)
    names = list(BINOPS) + ['__radd__', '__rsub__', '__rmul__', '__rtruediv__', '__pow__', '__rpow__']
    n = 0
    for name in names:
        fi = m.lookup_method('UTPM', name)
        if fi is None or len(fi.params) < 2:
            continue
        me, operand = fi.params[0], fi.params[1]

        def facts_ok(stack):
            for t, br in stack:
                neg = False
                while isinstance(t, ast.UnaryOp) and isinstance(t.op, ast.Not):
                    t, neg = t.operand, not neg
                truth = br != neg
                if truth and norm(t) in ('numpy.isscalar(%s)' % operand, 'numpy.ndim(%s) == 0' % operand):
                    return True
                if truth:
                    for c in ast.walk(t):
                        if isinstance(c, ast.Compare) and len(c.ops) == 1 and isinstance(c.ops[0], (ast.Lt, ast.LtE)):
                            l, rr = norm(c.left), norm(c.comparators[0])
                            if l in ('%s.ndim' % operand, 'numpy.ndim(%s)' % operand, 'len(%s.shape)' % operand) and \
                                    ('%s.ndim' % me in rr or '%s.data.ndim - 2' % me in rr or 'len(%s.shape)' % me in rr):
                                if isinstance(c.ops[0], ast.LtE) or '- 1' in rr or '+' not in rr:
                                    return True
            return False

        # locals that hold the whole coefficient array / the raw operand unchanged (`x_data, c = self.data, rhs` on a "fast path"):
        # registered where they are bound, unless an accepted guard protects that binding
        raw_self, raw_rhs = set(), set()

        def register(st, stack):
            if not (isinstance(st, ast.Assign) and len(st.targets) == 1):
                return
            t, v = st.targets[0], st.value
            pairs = []
            if isinstance(t, ast.Name):
                pairs = [(t, v)]
            elif isinstance(t, ast.Tuple) and isinstance(v, ast.Tuple) and len(t.elts) == len(v.elts):
                pairs = list(zip(t.elts, v.elts))
            for tt, vv in pairs:
                if not isinstance(tt, ast.Name) or facts_ok(stack):
                    continue
                if norm(vv) in ('%s.data' % me, '%s.data[...]' % me) or (isinstance(vv, ast.Name) and vv.id in raw_self):
                    raw_self.add(tt.id)
                if norm(vv) == operand or (isinstance(vv, ast.Name) and vv.id in raw_rhs):
                    if tt.id != operand:
                        raw_rhs.add(tt.id)

        def visit(body, stack):
            stack = list(stack)
            for st in body:
                register(st, stack)
                if isinstance(st, ast.If):
                    visit(st.body, stack + [(st.test, True)])
                    visit(st.orelse, stack + [(st.test, False)])
                    if st.body and isinstance(st.body[-1], (ast.Return, ast.Raise)) and not st.orelse:
                        stack.append((st.test, False))
                    for e in ast.walk(st.test):
                        check(e, stack)
                    continue
                for attr in ('body', 'orelse', 'finalbody'):
                    sub = getattr(st, attr, None)
                    if isinstance(sub, list) and sub and isinstance(sub[0], ast.stmt):
                        visit(sub, stack)
                for e in ast.walk(st):
                    if isinstance(e, ast.stmt) and e is not st:
                        continue
                    check(e, stack)

        seen = set()

        def check(e, stack):
            nonlocal n
            if id(e) in seen:
                return
            pair = None
            if isinstance(e, ast.BinOp) and isinstance(e.op, (ast.Mult, ast.Div, ast.Add, ast.Sub)):
                pair = (e.left, e.right)
            if isinstance(e, ast.AugAssign) and isinstance(e.op, (ast.Mult, ast.Div, ast.Add, ast.Sub)):
                pair = (e.target, e.value)
            if pair is None:
                return
            txt = [norm(x) for x in pair]
            whole = ('%s.data' % me, '%s.data[...]' % me) + tuple(raw_self)
            if not (any(t in whole for t in txt) and (operand in txt or any(t in raw_rhs for t in txt))):
                return
            seen.add(id(e))
            n += 1
            if facts_ok(stack):
                r.ok(construct='%s:%s' % (name, norm(e)[:50]), sample='UTPM.%s: `%s` under a scalar / ndim guard' % (name, norm(e)[:50]))
            else:
                r.bad(Finding('C11.raw-broadcast', _f(fi), norm(e)[:80], 'UTPM.%s combines the whole coefficient array with the raw operand `%s` under NumPy '
                                                                         'broadcasting (`%s`): an operand whose leading axes have the extent of the direction or '
                                                                         'coefficient axis is aligned with them, so directions receive each other\'s factors'
                              % (name, operand, norm(e)[:60]), fi.file, getattr(e, 'lineno', fi.lineno)))
        visit(fi.node.body, [])
        r.ok(construct='scanned:' + name)
    r.floor = 8
    return r


def rule_kernel_dtype(ctx):
    r = RuleResult('C02.dtype-kernel', 'a kernel with two coefficient operands that computes into a temporary and copies it to `out` allocates the '
                                       'temporary like `out` (the caller promotes the dtype of out over both operands), not like one operand')
    m = ctx.model
    ci = m.cls('RawAlgorithmsMixIn')
    n = 0
    for name, fi in sorted(ci.methods.items()):
        data_params = [p for p in fi.value_params() if p.endswith('_data')]
        if 'out' not in fi.params or len(data_params) < 2 or name.startswith('_pb_') or name.endswith('_pullback'):
            continue
        mandatory = any(isinstance(n, ast.If) and norm(n.test) == 'out is None' and any(isinstance(b, ast.Raise) for b in n.body)
                        for n in walk_no_nested(fi.node))
        # (a kernel that never copies a work buffer into `out` has nothing to check: with out=None it returns its own buffer)
        # the premise "the caller promotes the dtype of out" needs a caller that passes `out`
        npos = len(fi.value_params())
        passed = False
        for g in m.all_functions():
            for c_ in walk_no_nested(g.node):
                if isinstance(c_, ast.Call) and isinstance(c_.func, ast.Attribute) and c_.func.attr == name \
                        and (any(k.arg == 'out' for k in c_.keywords) or len(c_.args) >= npos):
                    passed = True
        if not passed and not mandatory:
            continue
        copies = [st for st in walk_no_nested(fi.node) if isinstance(st, ast.Assign) and len(st.targets) == 1
                  and isinstance(st.targets[0], ast.Subscript) and norm(st.targets[0].value) == 'out'
                  and (isinstance(st.value, ast.Name) or (isinstance(st.value, ast.Subscript) and isinstance(st.value.value, ast.Name)))]
        copies += [st for st in walk_no_nested(fi.node) if isinstance(st, ast.Expr) and isinstance(st.value, ast.Call)
                   and dotted_name(st.value.func) == 'numpy.copyto' and len(st.value.args) >= 2 and norm(st.value.args[0]) == 'out'
                   and isinstance(st.value.args[1], ast.Name)]
        for cp in copies:
            src_ = cp.value.args[1] if isinstance(cp, ast.Expr) else cp.value
            tmp = src_.id if isinstance(src_, ast.Name) else src_.value.id
            allocs = [st for st in walk_no_nested(fi.node) if isinstance(st, ast.Assign) and len(st.targets) == 1
                      and isinstance(st.targets[0], ast.Name) and st.targets[0].id == tmp and isinstance(st.value, ast.Call)
                      and (dotted_name(st.value.func) or '').split('.')[-1] in ('empty_like', 'zeros_like', 'zeros', 'empty')]
            for a in allocs:
                n += 1
                src, how = _dtype_sources(fi, a.value)
                src = src or set()
                if 'out' in src or len(set(data_params) & src) >= 2:
                    r.ok(construct=name + ':' + tmp, nontrivial=True, sample='%s: `%s` then `%s`' % (name, norm(a), norm(cp)))
                elif set(data_params) & src:
                    r.bad(Finding('C02.dtype-kernel', _f(fi), tmp + ':' + norm(a), '%s: the work buffer `%s` takes its dtype from operand %s only, although the '
                                  'result is copied into the dtype-promoted `out`: a wider second operand (complex, float vs int) is cast down '
                                  'inside the recurrence' % (fi.qualname, norm(a), sorted(set(data_params) & src)), fi.file, a.lineno))
                else:
                    r.ok(construct=name + ':' + tmp)
    r.floor = 1
    return r


def resolve_locals(fi, e, depth=0):
    """e with every local that the function binds exactly once (plain `name = expr`) replaced by that expression"""
    if depth > 6:
        return e
    stores = {}
    for n in walk_no_nested(fi.node):
        for x in ast.walk(n) if isinstance(n, (ast.Assign, ast.AugAssign, ast.For, ast.With, ast.AnnAssign)) else []:
            if isinstance(x, ast.Name) and isinstance(x.ctx, ast.Store):
                stores.setdefault(x.id, []).append(n)
    import copy as _copy

    class T(ast.NodeTransformer):
        def visit_Name(self, n):
            if isinstance(n.ctx, ast.Load) and n.id not in fi.params and len(stores.get(n.id, ())) == 1:
                st = stores[n.id][0]
                if isinstance(st, ast.Assign) and len(st.targets) == 1 and isinstance(st.targets[0], ast.Name):
                    return resolve_locals(fi, _copy.deepcopy(st.value), depth + 1)
            return n
    return T().visit(_copy.deepcopy(e))



def rule_reflect(ctx):
    r = RuleResult('C02.reflect', 'reflected operators delegate to the binary form with the right algebra: c+x -> x+c, c*x -> x*c, '
                                  'c-x -> (-x)+c, c/x -> lift(c)/x with the constant lifted through __add__ (dtype promotion, UTPM-aware '
                                  'broadcasting); x**y with polynomial y -> exp(log(x)*y); c**x -> exp(log(c)*x)')
    m = ctx.model
    want = {
        '__radd__': lambda v, p: isinstance(v, ast.BinOp) and isinstance(v.op, ast.Add) and {norm(v.left), norm(v.right)} == {'self', p},
        '__rmul__': lambda v, p: isinstance(v, ast.BinOp) and isinstance(v.op, ast.Mult) and {norm(v.left), norm(v.right)} == {'self', p},
        '__rsub__': lambda v, p: isinstance(v, ast.BinOp) and isinstance(v.op, ast.Add) and {norm(v.left), norm(v.right)} == {'-self', p},
    }
    for name, pred in sorted(want.items()):
        fi = m.lookup_method('UTPM', name)
        if fi is None:
            r.unknown('UTPM.' + name, 'reflected operator vanished')
            continue
        rets = [n for n in walk_no_nested(fi.node) if isinstance(n, ast.Return)]
        p = fi.params[1]
        if len(rets) == 1 and pred(rets[0].value, p):
            r.ok(construct=name, sample='UTPM.%s: `%s`' % (name, norm(rets[0])))
        else:
            r.bad(Finding('C02.reflect', _f(fi), name, 'UTPM.%s does not delegate with the right algebra: %s' % (name, [norm(x) for x in rets]), fi.file, fi.lineno))
    # __rtruediv__: numerator built by an addition of the constant to a zero polynomial of self's layout, then divided by self
    fi = m.lookup_method('UTPM', '__rtruediv__')
    if fi is None:
        r.unknown('UTPM.__rtruediv__', 'vanished')
    else:
        rets = [n for n in walk_no_nested(fi.node) if isinstance(n, ast.Return)]
        ok = False
        raw_store = [s for s in walk_no_nested(fi.node) if isinstance(s, ast.Assign) and any(isinstance(t, ast.Subscript) and 'data' in norm(t.value) for t in s.targets)]
        if len(rets) == 1 and isinstance(rets[0].value, ast.BinOp) and isinstance(rets[0].value.op, ast.Div) and norm(rets[0].value.right) == 'self':
            num = rets[0].value.left
            lifted = _expr_or_def(fi, num)
            if isinstance(lifted, ast.BinOp) and isinstance(lifted.op, ast.Add) and 'zeros_like()' in norm(lifted) and fi.params[1] in {norm(lifted.left), norm(lifted.right)}:
                ok = True
        if ok and not raw_store:
            r.ok(construct='__rtruediv__', nontrivial=True, sample='UTPM.__rtruediv__: `%s`' % norm(rets[0]))
        else:
            r.bad(Finding('C02.reflect', _f(fi), '__rtruediv__', 'c / x does not lift the constant through __add__ (raw store of the constant into '
                          'the coefficient array mixes the direction axis with array axes and keeps self\'s dtype): %s'
                          % ([norm(s) for s in raw_store] or [norm(x) for x in rets]), fi.file, fi.lineno))
    CLS = ('UTPM', 'cls', 'self.__class__', 'type(self)')
    resolved = resolve_locals

    def is_exp_of(e, pred):
        """X.exp(arg) / arg.exp() with pred(arg)"""
        if isinstance(e, ast.Call) and isinstance(e.func, ast.Attribute) and e.func.attr == 'exp' and not e.keywords:
            if len(e.args) == 1 and norm(e.func.value) in CLS + ('algopy', 'self'):
                return pred(e.args[0])
            if not e.args:
                return pred(e.func.value)
        return False

    def is_product(e, pa, pb):
        return isinstance(e, ast.BinOp) and isinstance(e.op, ast.Mult) and ((pa(e.left) and pb(e.right)) or (pb(e.left) and pa(e.right)))

    def is_log_of(e, what, recv):
        if isinstance(e, ast.Call) and isinstance(e.func, ast.Attribute) and e.func.attr == 'log' and not e.keywords:
            if len(e.args) == 1 and norm(e.args[0]) == what and norm(e.func.value) in recv:
                return True
            if not e.args and norm(e.func.value) == what and what == 'self':
                return True
        return False
    fi = m.lookup_method('UTPM', '__pow__')
    if fi is not None:
        rn = fi.params[1]
        from .rules_api import _paths
        poly_ok, const_calls = False, []
        for path in _paths(fi.node.body):
            stmts = [s_ for s_ in path if not isinstance(s_, tuple)]
            tests = [(t_[1], t_[2]) for t_ in path if isinstance(t_, tuple) and len(t_) > 2]
            is_poly = any(norm(t_) in ('isinstance(%s, UTPM)' % rn, 'isinstance(%s, cls)' % rn, 'isinstance(%s, self.__class__)' % rn) and o for t_, o in tests)
            if not stmts or not isinstance(stmts[-1], ast.Return) or stmts[-1].value is None:
                continue
            if is_poly:
                v = resolved(fi, stmts[-1].value)
                if is_exp_of(v, lambda a: is_product(a, lambda l: is_log_of(l, 'self', CLS), lambda x: norm(x) == rn)):
                    poly_ok = True
            else:
                for s_ in stmts:
                    for c in ast.walk(s_):
                        if isinstance(c, ast.Call) and isinstance(c.func, ast.Attribute) and c.func.attr == '_pow_real':
                            const_calls.append(c)
        routed = False
        out_arrays = []
        for c in const_calls:
            args = list(c.args)
            outv = args[2] if len(args) > 2 else next((k.value for k in c.keywords if k.arg == 'out'), None)
            if len(args) >= 2 and norm(resolved(fi, args[0])) == 'self.data' and norm(args[1]) == rn and outv is not None:
                routed = True
                out_arrays.append(outv)
        if poly_ok and routed:
            r.ok(construct='__pow__', sample='UTPM.__pow__: polynomial exponent -> exp(log(x)*r); otherwise _pow_real')
        else:
            r.bad(Finding('C02.reflect', _f(fi), '__pow__', 'UTPM.__pow__ no longer routes polynomial exponents to exp(log(x)*r) and constants to _pow_real', fi.file, fi.lineno))
        # dtype of the result: the array handed to _pow_real is allocated with a dtype promoted over base and exponent
        allocs = [resolved(fi, o) for o in out_arrays]
        good = []
        for a_ in allocs:
            if isinstance(a_, ast.Call) and (dotted_name(a_.func) or '').split('.')[-1] in ('zeros', 'empty', 'ones', 'zeros_like', 'empty_like', '__zeros__'):
                dt = next((k.value for k in a_.keywords if k.arg == 'dtype'), None)
                if dt is None and len(a_.args) >= 2:
                    dt = a_.args[1]         # zeros(shape, dtype) / __zeros__(shape, dtype): the dtype by position
                if dt is not None and any(k in norm(dt) for k in ('result_type', 'promote_types')) and rn in [n.id for n in ast.walk(dt) if isinstance(n, ast.Name)] \
                        and any(x in norm(dt) for x in ('self.data', 'self')):
                    good.append(a_)
        if allocs and len(good) == len(allocs):
            r.ok(construct='__pow__:dtype', nontrivial=True, sample='UTPM.__pow__: `%s`' % norm(good[0]))
        else:
            r.bad(Finding('C02.reflect', _f(fi), '__pow__:dtype', 'the result of x**r is not allocated with a dtype promoted over base and exponent '
                          '(%s): a complex exponent loses its imaginary part' % [norm(s_)[:80] for s_ in allocs], fi.file, fi.lineno))
    fi = m.lookup_method('UTPM', '__rpow__')
    if fi is not None:
        rn = fi.params[1]
        rets = [n for n in walk_no_nested(fi.node) if isinstance(n, ast.Return) and n.value is not None]
        if rets and all(is_exp_of(resolved(fi, x.value), lambda a: is_product(a, lambda l: is_log_of(l, rn, ('numpy', 'math', 'cmath')) and norm(l.func.value) == 'numpy',
                                                                                lambda x_: norm(x_) == 'self')) for x in rets):
            r.ok(construct='__rpow__', sample='UTPM.__rpow__: exp(log(r)*x)')
        else:
            r.bad(Finding('C02.reflect', _f(fi), '__rpow__', 'UTPM.__rpow__ is not exp(log(r)*x)', fi.file, fi.lineno))
    r.floor = 7
    return r


def _expr_or_def(fi, node):
    if isinstance(node, ast.Name):
        vals = [st.value for st in walk_no_nested(fi.node) if isinstance(st, ast.Assign) and any(isinstance(t, ast.Name) and t.id == node.id for t in st.targets)]
        if len(vals) == 1:
            return vals[0]
    return node


# ------------------------------------------------------------------- C07.kinds
def rule_linalg_kinds(ctx):
    r = RuleResult('C07.kinds', 'UTPM.dot/outer/solve handle {UTPM,UTPM}, {UTPM,array}, {array,UTPM} in separate branches and raise '
                                'otherwise; each branch calls the kernel whose suffix names the raw operand, passes UTPM operands as '
                                '.data and raw operands as themselves, and allocates the output with a dtype promoted over both operands')
    m = ctx.model
    table = {
        'dot': {('U', 'U'): '_dot', ('U', 'r'): '_dot_non_UTPM_y', ('r', 'U'): '_dot_non_UTPM_x'},
        'outer': {('U', 'U'): '_outer', ('U', 'r'): '_outer_non_utpm_y', ('r', 'U'): '_outer_non_utpm_x'},
        'solve': {('U', 'U'): '_solve', ('r', 'U'): '_solve_non_UTPM_A', ('U', 'r'): '_solve_non_UTPM_x'},
    }
    for name, tab in sorted(table.items()):
        fi = m.lookup_method('UTPM', name)
        if fi is None:
            r.unknown('UTPM.' + name, 'vanished')
            continue
        p1, p2 = fi.params[1], fi.params[2]
        br = _branches(fi)
        seen = set()
        raises = False
        remaining = [(a_, b_) for a_ in 'Ur' for b_ in 'Ur']        # operand-kind combinations not yet taken by an earlier branch
        for test, body in br:
            if test is None:
                if any(isinstance(n, ast.Raise) for s in body for n in ast.walk(s)):
                    raises = True
                continue
            # the branch serves the combinations that satisfy its test among those left over by the earlier branches
            truth = {cmb: _test_truth(test, p1, p2, cmb) for cmb in remaining}
            kind = None
            if all(v is not None for v in truth.values()):
                mine = [cmb for cmb, v in truth.items() if v]
                if len(mine) == 1:
                    kind = mine[0]
                remaining = [cmb for cmb in remaining if not truth[cmb]]
            if kind is None:
                kind = _operand_kinds(test, p1, p2)
            if kind is None:
                r.unknown(fi.site(test), 'operand test `%s` not recognised' % norm(test))
                continue
            seen.add(kind)
            want = tab.get(kind)
            calls = [c for s in body for c in ast.walk(s) if isinstance(c, ast.Call) and isinstance(c.func, ast.Attribute)
                     and c.func.attr.startswith('_') and not c.func.attr.startswith('__') and dotted_name(c.func)
                     and dotted_name(c.func).split('.')[0] in ('cls', 'UTPM')]
            probs = []
            if len(calls) != 1:
                probs.append('expected one kernel call, found %s' % [c.func.attr for c in calls])
            else:
                c = calls[0]
                if c.func.attr != want:
                    probs.append('calls %s, expected %s for operand kinds %s' % (c.func.attr, want, kind))
                exp_args = [(p1 + '.data') if kind[0] == 'U' else p1, (p2 + '.data') if kind[1] == 'U' else p2]
                got = [norm(a) for a in c.args[:2]]
                if got != exp_args:
                    probs.append('passes %s, expected %s' % (got, exp_args))
                okw = [k.value for k in c.keywords if k.arg == 'out']
                if not okw:
                    # the output handed over by position (the position of `out` in the kernel's own signature)
                    kfi = m.lookup_method('UTPM', c.func.attr)
                    vp_ = kfi.value_params() if kfi is not None else []
                    if 'out' in vp_ and len(c.args) > vp_.index('out') and not any(isinstance(a_, ast.Starred) for a_ in c.args):
                        okw = [c.args[vp_.index('out')]]
                if not okw or norm(okw[0]) != 'out.data':
                    probs.append('kernel output is not out.data')
            if name in ('dot', 'solve'):
                allocs = [n for s_ in body for n in ast.walk(s_) if isinstance(n, ast.Call) and (dotted_name(n.func) or '').split('.')[-1] in ('__zeros__', 'zeros', 'empty')]
                for a in allocs:
                    src, how = _dtype_sources(fi, a)
                    if src is None or not ({p1} & src and {p2} & src):
                        probs.append('the dtype of the output `%s` does not derive from both operands (%s): the wider operand is cast down'
                                     % (norm(a)[:70], sorted((src or set()) & {p1, p2})))
            if probs:
                for pm in probs:
                    r.bad(Finding('C07.kinds', _f(fi), '%s:%s:%s' % (name, ''.join(kind), pm[:40]), 'UTPM.%s %s: %s' % (name, kind, pm), fi.file, body[0].lineno))
            else:
                r.ok(construct='%s:%s' % (name, ''.join(kind)), nontrivial=True, sample='UTPM.%s %s -> %s(%s)' % (name, kind, want, ', '.join(exp_args)))
        missing = set(tab) - seen
        if missing:
            r.bad(Finding('C07.kinds', _f(fi), name + ':missing', 'UTPM.%s lacks a branch for operand kinds %s' % (name, sorted(missing)), fi.file, fi.lineno))
        if raises:
            r.ok(construct=name + ':raise', sample='UTPM.%s raises for any other combination' % name)
        else:
            r.bad(Finding('C07.kinds', _f(fi), name + ':noraise', 'UTPM.%s does not raise for unsupported operand kinds' % name, fi.file, fi.lineno))
        if name == 'outer':
            r.note('UTPM.outer takes the result dtype from one operand only (real operands are the property\'s domain)')
    # inv, trace, det, logdet building blocks
    fi = m.lookup_method('UTPM', 'inv')
    inv_ok = False
    if fi is not None and fi.value_params():
        A_ = fi.value_params()[0]
        for c in walk_no_nested(fi.node):
            if isinstance(c, ast.Call) and isinstance(c.func, ast.Attribute) and c.func.attr == '_inv' and c.args:
                outv = c.args[1] if len(c.args) > 1 else next((k.value for k in c.keywords if k.arg == 'out'), None)
                outv = resolve_locals(fi, outv) if outv is not None else None
                first = norm(resolve_locals(fi, c.args[0]))
                rets = [n_ for n_ in walk_no_nested(fi.node) if isinstance(n_, ast.Return) and n_.value is not None]
                if first == A_ + '.data' and isinstance(outv, (ast.Tuple, ast.List)) and len(outv.elts) == 1 and isinstance(outv.elts[0], ast.Attribute) \
                        and outv.elts[0].attr == 'data' and rets and all(norm(r_.value) == norm(outv.elts[0].value) for r_ in rets):
                    inv_ok = True
    if inv_ok:
        r.ok(construct='inv', sample='UTPM.inv -> _inv(A.data, (out.data,)), returns out')
    elif fi is not None:
        r.bad(Finding('C07.kinds', _f(fi), 'inv', 'UTPM.inv no longer calls _inv(A.data, (out.data,))', fi.file, fi.lineno))
    r.floor = 12
    return r


def _test_truth(test, p1, p2, combo):
    """truth value of an operand-kind test for a combination of kinds (U = Taylor polynomial, r = raw array/scalar)"""
    kinds = {p1: combo[0], p2: combo[1]}
    if isinstance(test, ast.BoolOp):
        vals = [_test_truth(v, p1, p2, combo) for v in test.values]
        if any(v is None for v in vals):
            return None
        return all(vals) if isinstance(test.op, ast.And) else any(vals)
    if isinstance(test, ast.UnaryOp) and isinstance(test.op, ast.Not):
        v = _test_truth(test.operand, p1, p2, combo)
        return None if v is None else (not v)
    if isinstance(test, ast.Call) and isinstance(test.func, ast.Name) and test.func.id == 'isinstance' and len(test.args) == 2 \
            and isinstance(test.args[0], ast.Name) and test.args[0].id in kinds:
        cl = [dotted_name(x) or '' for x in (test.args[1].elts if isinstance(test.args[1], ast.Tuple) else [test.args[1]])]
        k = kinds[test.args[0].id]
        if all(c.split('.')[-1] in ('UTPM', 'cls') or c.endswith('__class__') for c in cl):
            return k == 'U'
        if all(c in ('numpy.ndarray', 'ndarray') for c in cl):
            return k == 'r'
    return None


def _operand_kinds(test, p1, p2):
    txt = norm(test)
    def k(p):
        if 'isinstance(%s, UTPM)' % p in txt and 'not isinstance(%s, UTPM)' % p not in txt:
            return 'U'
        if 'not isinstance(%s, UTPM)' % p in txt or 'isinstance(%s, numpy.ndarray)' % p in txt:
            return 'r'
        return None
    a, b = k(p1), k(p2)
    if a is None or b is None:
        return None
    return (a, b)


SLICE_OPS = {'_dot': {'dot'}, '_dot_non_UTPM_x': {'dot'}, '_dot_non_UTPM_y': {'dot'}, '_outer': {'outer'},
             '_outer_non_utpm_x': {'outer'}, '_outer_non_utpm_y': {'outer'}, '_inv': {'inv', 'dot'}, '_solve': {'solve', 'dot'},
             '_solve_non_UTPM_A': {'solve'}, '_solve_non_UTPM_x': {'solve', 'dot'}}


def rule_slice_ops(ctx):
    r = RuleResult('C07.op', 'the NumPy function a linear-algebra kernel _NAME* applies to coefficient slices is the one called NAME '
                             '(numpy.dot / outer / linalg.inv / linalg.solve, plus numpy.dot inside the inv/solve recurrences): e.g. matmul '
                             'differs from dot for N-D operands')
    ci = ctx.model.cls('RawAlgorithmsMixIn')
    for k, allowed in sorted(SLICE_OPS.items()):
        fi = ci.methods.get(k)
        if fi is None:
            r.unknown(ALGO + ':' + k, 'kernel vanished')
            continue
        used = {}
        for c in walk_no_nested(fi.node):
            if isinstance(c, ast.Call):
                d = dotted_name(c.func) or ''
                if d.split('.')[0] in ('numpy', 'scipy') and any(isinstance(a, ast.Subscript) or isinstance(a, ast.Name) and a.id in ('tmp',) for a in c.args):
                    last = d.split('.')[-1]
                    if last in ('shape', 'zeros', 'promote_types', 'add', 'subtract', 'zeros_like', 'array', 'asarray', 'ascontiguousarray', 'copy', 'copyto',
                                'empty', 'empty_like', 'result_type', 'ndim'):
                        continue
                    used.setdefault(last, c)
        # outer product written as a broadcast: a[..., newaxis] * b   (rows from a, columns from b)
        bouter = []
        for c in walk_no_nested(fi.node):
            # numpy.multiply(a, b) is the product a * b
            if isinstance(c, ast.Call) and (dotted_name(c.func) or '') == 'numpy.multiply' and len(c.args) == 2 and not any(k.arg != 'out' for k in c.keywords):
                c = ast.copy_location(ast.BinOp(left=c.args[0], op=ast.Mult(), right=c.args[1]), c)
            if isinstance(c, ast.BinOp) and isinstance(c.op, ast.Mult):
                def trailing_newaxis(e):
                    if isinstance(e, ast.Subscript):
                        sl = e.slice
                        last = sl.elts[-1] if isinstance(sl, ast.Tuple) and sl.elts else sl
                        return norm(last) in ('numpy.newaxis', 'None')
                    return False
                l_, r_ = trailing_newaxis(c.left), trailing_newaxis(c.right)
                if l_ != r_:
                    bouter.append((c.left, c.right) if l_ else (c.right, c.left))
        if bouter and 'outer' in allowed:
            used.setdefault('outer', bouter[0][0])
            used.pop('multiply', None)
            vp_ = fi.value_params()
            for rows, cols in bouter:
                nr = {x.id for x in ast.walk(rows) if isinstance(x, ast.Name)}
                nc = {x.id for x in ast.walk(cols) if isinstance(x, ast.Name)}
                if len(vp_) >= 2 and vp_[1] in nr and vp_[0] in nc and vp_[0] not in nr:
                    r.bad(Finding('C07.op', _f(fi), k + ':broadcast-order', '%s forms the outer product as `%s[..., newaxis] * %s`: the rows come from the second '
                                                                             'operand - this is outer(%s, %s), the transpose' % (fi.qualname, norm(rows)[:30], norm(cols)[:30], vp_[1], vp_[0]),
                                  fi.file, rows.lineno))
                elif len(vp_) >= 2 and vp_[0] in nr and vp_[1] in nc:
                    r.ok(construct=k + ':broadcast-order', sample='%s: outer product as broadcast with rows from `%s`' % (fi.qualname, vp_[0]))
        # only functions that are known to be mistaken for the expected one are findings (matmul / inner / vdot for dot, kron / multiply for outer,
        # lstsq / pinv for solve / inv); a general contraction (einsum, tensordot) is not decided by this rule - its axes are what E2 / E7 look at
        CONFUSABLE = {'matmul', 'inner', 'vdot', 'kron', 'multiply', 'lstsq', 'pinv', 'cross', 'outer', 'dot', 'inv', 'solve', 'tensorsolve', 'tensorinv'}
        for n_ in [k_ for k_ in used if k_ not in allowed and k_ not in CONFUSABLE]:
            r.note('%s applies numpy.%s to coefficient slices: not one of %s, not decided by C07.op' % (fi.qualname, n_, sorted(allowed)))
            used.pop(n_)
        bad = {n: c for n, c in used.items() if n not in allowed}
        if bad:
            for n, c in bad.items():
                r.bad(Finding('C07.op', _f(fi), n, '%s applies numpy function `%s` to coefficient slices (`%s`), expected %s'
                              % (fi.qualname, n, norm(c)[:70], sorted(allowed)), fi.file, c.lineno))
        elif not used:
            if any('not decided by C07.op' in x and fi.qualname in x for x in getattr(r, 'notes', [])):
                r.ok(construct=k + ':other-contraction')
            else:
                r.unknown(fi.site(), 'no NumPy slice operation found in kernel')
        else:
            r.ok(construct=k, sample='%s uses %s on slices' % (k, sorted(used)))
        # operand order of the (non-commutative) product in the pure product kernels: first factor from the first operand
        if k in ('_dot', '_dot_non_UTPM_x', '_dot_non_UTPM_y', '_outer', '_outer_non_utpm_x', '_outer_non_utpm_y'):
            vp = fi.value_params()
            if len(vp) >= 2:
                p1, p2 = vp[0], vp[1]
                for c in walk_no_nested(fi.node):
                    if isinstance(c, ast.Call) and (dotted_name(c.func) or '') in ('numpy.dot', 'numpy.outer', 'numpy.matmul') and len(c.args) >= 2:
                        n1 = {x.id for x in ast.walk(c.args[0]) if isinstance(x, ast.Name)}
                        n2 = {x.id for x in ast.walk(c.args[1]) if isinstance(x, ast.Name)}
                        if p1 in n2 and p2 in n1 and p1 not in n1 and p2 not in n2:
                            r.bad(Finding('C07.op', _f(fi), k + ':order', '%s multiplies `%s`: the first factor comes from the second operand `%s` and the second '
                                                                           'factor from the first operand `%s` (operands swapped: transposed / wrong product)'
                                          % (fi.qualname, norm(c)[:70], p2, p1), fi.file, c.lineno))
                        elif p1 in n1 and p2 in n2:
                            r.ok(construct=k + ':order@%d' % c.lineno, sample='%s: `%s` keeps the operand order' % (fi.qualname, norm(c)[:60]))
    r.floor = 10
    return r


def rule_compound(ctx):
    r = RuleResult('C07.compound', 'det, logdet and the Pade matrix exponentials are built only from graded public operations '
                                   '(no .data access bypasses Taylor arithmetic; the pivot helpers read coefficient 0 only)')
    m = ctx.model
    allowed_attr = {'shape', 'T'}
    for name in ('det', 'logdet'):
        fi = m.lookup_method('UTPM', name)
        if fi is None:
            r.unknown('UTPM.' + name, 'vanished')
            continue
        bad = [n for n in walk_no_nested(fi.node) if isinstance(n, ast.Subscript) and 'data' in norm(n.value) and not norm(n).endswith('.shape[:2]')
               and not norm(n).endswith('.shape[:3]')]
        if bad:
            r.bad(Finding('C07.compound', _f(fi), norm(bad[0]), 'UTPM.%s indexes coefficient data directly: `%s`' % (name, norm(bad[0])), fi.file, bad[0].lineno))
        else:
            r.ok(construct=name, sample='UTPM.%s uses only public Taylor operations' % name)
        calls = sorted({c.func.attr for c in walk_no_nested(fi.node) if isinstance(c, ast.Call) and isinstance(c.func, ast.Attribute) and norm(c.func.value) == 'cls'})
        r.ok(construct=name + ':ops', sample='UTPM.%s operations: %s' % (name, calls))
    for name in ('piv2det', 'piv2mat'):
        fi = m.lookup_method('UTPM', name)
        if fi is None:
            continue
        st = [s for s in walk_no_nested(fi.node) if isinstance(s, ast.Assign) and any(isinstance(t, ast.Subscript) and '.data' in norm(t.value) for t in s.targets)]
        ok = all(_first_index_is_zero(t) for s in st for t in s.targets if isinstance(t, ast.Subscript))
        reads = [n for n in walk_no_nested(fi.node) if isinstance(n, ast.Subscript) and norm(n.value) == 'piv.data' and isinstance(n.ctx, ast.Load)]
        ok = ok and all(_first_index_is_zero(n) for n in reads)
        if ok:
            r.ok(construct=name, sample='UTPM.%s reads and writes coefficient 0 only (pivots are piecewise constant)' % name)
        else:
            r.bad(Finding('C07.compound', _f(fi), name, 'UTPM.%s touches coefficients other than order 0' % name, fi.file, fi.lineno))
    mi = m.module('algopy.linalg.compound')
    for fn, fi in sorted(mi.functions.items()):
        if not fn.startswith('_expm_pade') and fn not in ('expm', 'expm_pade'):
            continue
        bad = [n for n in walk_no_nested(fi.node) if isinstance(n, ast.Attribute) and n.attr == 'data']
        if bad:
            r.bad(Finding('C07.compound', _f(fi), 'data', '%s accesses .data directly' % fn, fi.file, bad[0].lineno))
        else:
            r.ok(construct=fn, sample='%s built from dot/solve/+/* only' % fn)
    r.floor = 10
    return r


# ------------------------------------------------------------- C10.dispatch
EQUIV = {   # hand-written dispatcher -> library functions accepted in its plain-array branch (reason)
    'logdet': {'slogdet'},           # log|det| = slogdet(x)[1]
    'qr_full': {'qr'},               # scipy.linalg.qr is the full QR
    'symvec': {'symvec'}, 'vecsym': {'vecsym'},
    'botched_clip': {'clip'},        # argument order permuted on purpose
    'dpm_hyp1f1': {'mpmath_hyp1f1'}, 'dpm_hyp2f0': {'mpmath_hyp2f0'},
}
HAND = {
    'algopy.globalfuncs': ['sum', 'real', 'imag', 'prod', 'logdet', 'zeros', 'ones', 'zeros_like', 'ones_like', 'dot', 'outer', 'symvec', 'vecsym'],
    'algopy.linalg.linalg': ['qr_full', 'eigh1'],
    'algopy.fft.fft': ['fft', 'ifft'],
    'algopy.special.special': ['hyperu', 'botched_clip', 'polygamma', 'psi', 'gammaln', 'erf', 'erfi', 'dawsn', 'logit', 'expit'],
}
NOT_FORWARDED_OK = {
    ('zeros', 'order'): 'the UTPM branch allocates (D,P)+shape itself; memory order is irrelevant for the coefficients',
    ('ones', 'order'): 'same as zeros',
}


def rule_dispatch(ctx):
    r = RuleResult('C10.dispatch', 'generated dispatchers: the fallback NumPy/SciPy function of the same name exists, UTPM defines the '
                                   'method, and both branches receive *args, **kwargs unchanged; hand-written dispatchers: every '
                                   'delegating return calls the function/method of the dispatcher\'s own name and forwards every parameter')
    m = ctx.model
    try:
        import importlib
        libs = {'numpy': importlib.import_module('numpy'), 'numpy.linalg': importlib.import_module('numpy.linalg'),
                'scipy.linalg': importlib.import_module('scipy.linalg')}
    except Exception:
        libs = {}
    for fi in m.generated:
        name = fi.name
        ns = getattr(fi, 'gen_namespace', None)
        probs = []
        if libs and ns in libs and not hasattr(libs[ns], name):
            nd = libs['numpy'].ndarray if 'numpy' in libs else None
            if nd is not None and hasattr(nd, name):
                r.note('generated %s: fallback %s.%s does not exist; arrays are served by ndarray.%s through the class dispatch, '
                       'python scalars/lists would raise AttributeError' % (name, ns, name, name))
            else:
                probs.append('fallback %s.%s does not exist in the installed library' % (ns, name))
        if m.lookup_method('UTPM', name) is None and name != 'pow':
            probs.append('UTPM defines no method %s' % name)
        rets = [n for n in walk_no_nested(fi.node) if isinstance(n, ast.Return)]
        for ret in rets:
            c = ret.value
            if not isinstance(c, ast.Call):
                probs.append('return is not a call: %s' % norm(ret))
                continue
            star = [a for a in c.args if isinstance(a, ast.Starred) and norm(a.value) == 'args']
            kw = [k for k in c.keywords if k.arg is None and norm(k.value) == 'kwargs']
            if len(star) != 1 or len(kw) != 1 or len(c.args) != 1 or len(c.keywords) != 1:
                probs.append('arguments are not forwarded as (*args, **kwargs): %s' % norm(c)[:80])
            consts = [x.value for x in ast.walk(c.func) if isinstance(x, ast.Constant) and isinstance(x.value, str)]
            if not consts and isinstance(c.func, ast.Attribute) and dotted_name(c.func) is not None:
                consts = [c.func.attr]          # the attribute written out: <namespace>.<name>(...)
            if consts != [name]:
                probs.append('dispatch target name %s differs from the function name %s' % (consts, name))
        tests = [n for n in walk_no_nested(fi.node) if isinstance(n, ast.Call) and isinstance(n.func, ast.Name) and n.func.id == 'hasattr']
        if not tests or not all(isinstance(t.args[1], ast.Constant) and t.args[1].value == name for t in tests):
            probs.append('class dispatch does not test for the attribute %r' % name)
        # the scan over the arguments runs front to back and ends (break / return) at the first hit
        scans = [n for n in walk_no_nested(fi.node) if isinstance(n, ast.For) and (seq_iteration(n) or ('', '', ''))[0] == 'args']
        stops = False
        for lp in scans:
            if seq_iteration(lp)[1] != 'fwd':
                probs.append('the argument scan does not run from the first argument to the last')
            for n in ast.walk(lp):
                if isinstance(n, ast.If) and any(isinstance(c_, ast.Call) and isinstance(c_.func, ast.Name) and c_.func.id == 'hasattr' for c_ in ast.walk(n.test)):
                    if n.body and isinstance(n.body[-1], (ast.Break, ast.Return)):
                        stops = True
        if not scans:
            probs.append('no scan over the arguments found')
        elif not stops:
            probs.append('the argument scan does not stop at the first argument providing the method')
        if probs:
            for pm in probs:
                r.bad(Finding('C10.dispatch', _f(fi), 'gen:%s:%s' % (name, pm[:40]), 'generated dispatcher %s: %s' % (name, pm), fi.file, fi.lineno))
        else:
            r.ok(construct='gen:' + name, nontrivial=True, sample='generated %s: class method if an argument provides it, else %s.%s; (*args, **kwargs) forwarded' % (name, ns, name))
    for modname, names in sorted(HAND.items()):
        mi = m.module(modname)
        for name in names:
            fi = mi.functions.get(name)
            if fi is None:
                r.unknown(modname + ':' + name, 'dispatcher vanished')
                continue
            params = fi.params
            rets = [n for n in walk_no_nested(fi.node) if isinstance(n, ast.Return) and isinstance(n.value, (ast.Call, ast.Subscript))]
            n_ok = 0
            for ret in rets:
                c = ret.value
                if isinstance(c, ast.Subscript):
                    c = c.value
                if not isinstance(c, ast.Call):
                    continue
                d = dotted_name(c.func)
                if d is None and isinstance(c.func, ast.Call) and isinstance(c.func.func, ast.Name) and c.func.func.id == 'getattr' \
                        and len(c.func.args) >= 2 and dotted_name(c.func.args[0]) is not None:
                    # getattr(<module or class>, 'NAME')(...) - NAME a constant, or a local bound to constants only
                    a1 = c.func.args[1]
                    nm = None
                    if isinstance(a1, ast.Constant) and isinstance(a1.value, str):
                        nm = [a1.value]
                    elif isinstance(a1, ast.Name):
                        vals = [st_.value for st_ in walk_no_nested(fi.node) if isinstance(st_, ast.Assign)
                                and any(isinstance(t_, ast.Name) and t_.id == a1.id for t_ in st_.targets)]
                        vals = [v_ for v_ in vals if not (isinstance(v_, ast.Constant) and v_.value is None)]
                        if vals and all(isinstance(v_, ast.Constant) and isinstance(v_.value, str) for v_ in vals):
                            nm = sorted({v_.value for v_ in vals})
                    if nm is not None and len(nm) == 1:
                        d = dotted_name(c.func.args[0]) + '.' + nm[0]
                if d is None:
                    continue
                last = d.split('.')[-1]
                head = d.split('.')[0]
                delegating = head in ('numpy', 'scipy', 'UTPM', 'Function', 'utils', 'algopy') or '.__class__.' in d or head in params
                if d in ('UTPM', 'Function') or d.endswith('.__class__'):
                    delegating = False      # constructor call, not a delegation
                if not delegating:
                    continue
                if last == 'pushforward':
                    continue
                probs = []
                accepted = {name} | EQUIV.get(name, set())
                if last not in accepted:
                    if head in ('numpy', 'scipy') and name in ('zeros_like', 'ones_like'):
                        pass
                    else:
                        probs.append('delegates to `%s`, expected a function/method named %s' % (d, sorted(accepted)))
                used = {x.id for x in ast.walk(c) if isinstance(x, ast.Name)}
                # locals that merely collect parameters (`args = (a, b, x)`) forward them
                for _ in range(2):
                    for st_ in walk_no_nested(fi.node):
                        if isinstance(st_, ast.Assign) and any(isinstance(t_, ast.Name) and t_.id in used for t_ in st_.targets):
                            used |= {x.id for x in ast.walk(st_.value) if isinstance(x, ast.Name)}
                for p in params:
                    if p not in used and (name, p) not in NOT_FORWARDED_OK:
                        probs.append('parameter `%s` is not forwarded in `%s`' % (p, norm(c)[:70]))
                if probs:
                    for pm in probs:
                        r.bad(Finding('C10.dispatch', _f(fi), '%s:%s' % (name, pm[:60]), 'dispatcher %s: %s' % (name, pm), fi.file, ret.lineno))
                else:
                    n_ok += 1
                    r.ok(construct='%s@%d' % (name, ret.lineno), sample='%s: `%s`' % (name, norm(ret)[:90]))
            if n_ok == 0 and not any(f.construct.startswith(name + ':') for f in r.findings):
                r.note('%s: no delegating return recognised' % name)
    r.floor = 80
    return r


# --------------------------------------------------------------------- C13
def _tuple_prefixes(fi):
    """tuple literals added in front of the user's index `sl`"""
    out = []
    for n in walk_no_nested(fi.node):
        if isinstance(n, ast.BinOp) and isinstance(n.op, ast.Add) and isinstance(n.left, ast.Tuple) and isinstance(n.right, ast.Name) and n.right.id == 'sl':
            out.append(n)
    return out


def rule_index(ctx):
    r = RuleResult('C13.index', '__getitem__ indexes data with exactly (slice(None), slice(None)) + sl; __setitem__ stores a polynomial into the '
                                'same selection and a constant into (0, slice(None)) + sl after clearing (slice(1, None), slice(None)) + sl')
    m = ctx.model
    g = m.lookup_method('UTPM', '__getitem__')
    s_ = m.lookup_method('UTPM', '__setitem__')
    if g is None or s_ is None:
        r.unknown('UTPM.__getitem__', 'vanished')
        return r
    pre = _tuple_prefixes(g)
    if len(pre) == 1 and norm(pre[0].left) == '(slice(None), slice(None))':
        r.ok(construct='getitem', sample='__getitem__: `%s`' % norm(pre[0]))
    else:
        r.bad(Finding('C13.index', _f(g), 'prefix:%s' % [norm(p.left) for p in pre], '__getitem__ does not prepend exactly (slice(None), slice(None)) to the '
                      'index: %s' % [norm(p) for p in pre], g.file, g.lineno))
    pre = _tuple_prefixes(s_)
    got = sorted(norm(p.left) for p in pre)
    want = sorted(['(slice(None), slice(None))', '(slice(1, None), slice(None))', '(0, slice(None))'])
    if got == want:
        r.ok(construct='setitem', nontrivial=True, sample='__setitem__ prefixes: %s' % got)
        # roles: the slice(1,None) selection is set to 0, the 0 selection to rhs
        rhs_name = s_.value_params()[1] if len(s_.value_params()) > 1 else 'rhs'
        for p in pre:
            val, txt = _stored_value(s_, p)
            if norm(p.left) == '(slice(1, None), slice(None))':
                if val is None or not (isinstance(val, ast.Constant) and val.value == 0 and val.value is not False):
                    r.bad(Finding('C13.index', _f(s_), 'clear', 'higher coefficients are not cleared with 0: `%s`' % txt, s_.file, p.lineno))
                else:
                    r.ok(construct='setitem:clear', sample='`%s`' % txt)
            if norm(p.left) == '(0, slice(None))':
                if val is None or norm(val) != rhs_name:
                    r.bad(Finding('C13.index', _f(s_), 'const', 'the constant is not stored into coefficient 0: `%s`' % txt, s_.file, p.lineno))
                else:
                    r.ok(construct='setitem:const', sample='`%s`' % txt)
    else:
        r.bad(Finding('C13.index', _f(s_), 'prefix:%s' % got, '__setitem__ index prefixes are %s, expected %s' % (got, want), s_.file, s_.lineno))
    # a Taylor-polynomial right-hand side of lower rank: NumPy aligns the *trailing* array axes, so unit axes have to be
    # inserted right after (D, P) - which is what the shared helper _broadcast_arrays does
    rhs_name = s_.value_params()[1] if len(s_.value_params()) > 1 else 'rhs'
    bc = [c for c in walk_no_nested(s_.node) if isinstance(c, ast.Call) and (dotted_name(c.func) or '').endswith('._broadcast_arrays')
          and len(c.args) == 2 and norm(c.args[1]) == rhs_name + '.data']
    resh = [c for c in walk_no_nested(s_.node) if isinstance(c, ast.Call) and isinstance(c.func, ast.Attribute) and c.func.attr == 'reshape' and c.args]
    # ... and the coefficient array of the right-hand side is never stored as it is: `X[...] = rhs.data` (also as a "fast path" in front of
    # the aligned store) lets NumPy line up its (D, P) axes with whatever axes of the target happen to have the same extents
    raw = []
    for n_ in walk_no_nested(s_.node):
        v_ = None
        if isinstance(n_, ast.Assign) and any(isinstance(t_, ast.Subscript) for t_ in n_.targets):
            v_ = n_.value
        elif isinstance(n_, ast.Call) and isinstance(n_.func, ast.Attribute) and n_.func.attr == '__setitem__' and len(n_.args) == 2:
            v_ = n_.args[1]
        elif isinstance(n_, ast.Call) and (dotted_name(n_.func) or '') in ('numpy.copyto', 'numpy.put', 'numpy.place') and len(n_.args) >= 2:
            v_ = n_.args[1]
        if v_ is not None and norm(v_) in (rhs_name + '.data', rhs_name + '.data[...]'):
            raw.append(n_)
    if raw:
        r.bad(Finding('C13.index', _f(s_), 'raw-store', '__setitem__ stores the coefficient array of a polynomial right-hand side without aligning it (`%s`): for a '
                                                        'right-hand side of lower rank NumPy matches its (D, P) axes against trailing axes of the target whenever the '
                                                        'extents happen to agree' % norm(raw[0])[:80], s_.file, raw[0].lineno))
    elif bc:
        r.ok(construct='setitem:align', sample='__setitem__ aligns a polynomial right-hand side with `%s`' % norm(bc[0])[:80])
    elif resh:
        verdicts = []
        for c in resh:
            shp = c.args[0]
            parts = []

            def flat_(e):
                if isinstance(e, ast.BinOp) and isinstance(e.op, ast.Add):
                    flat_(e.left)
                    flat_(e.right)
                else:
                    parts.append(e)
            flat_(shp)
            kinds = []
            for e in parts:
                t_ = norm(e)
                if isinstance(e, ast.BinOp) and isinstance(e.op, ast.Mult) and any(norm(x) in ('(1,)', '[1]') for x in (e.left, e.right)):
                    kinds.append('ones')
                elif t_.endswith('.shape[:2]'):
                    kinds.append('DP')
                elif t_.endswith('.shape[2:]'):
                    kinds.append('tail')
                elif t_.endswith('.shape'):
                    kinds.append('full')
                else:
                    kinds.append('?')
            if 'ones' in kinds:
                verdicts.append((kinds, c))
        good = [v for v in verdicts if v[0] == ['DP', 'ones', 'tail']]
        wrong = [v for v in verdicts if v[0] and v[0][-1] == 'ones' and v[0][0] in ('full', 'DP')]
        if wrong:
            r.bad(Finding('C13.index', _f(s_), 'align', '__setitem__ pads a lower-rank polynomial right-hand side with unit axes at the *end* (`%s`): NumPy '
                                                      'broadcasting pads in front, so the data is spread along the wrong axis' % norm(wrong[0][1])[:80], s_.file, wrong[0][1].lineno))
        elif good:
            r.ok(construct='setitem:align', sample='__setitem__ inserts unit axes after (D, P): `%s`' % norm(good[0][1])[:80])
        else:
            r.unknown(s_.site(), 'alignment of a lower-rank polynomial right-hand side not recognised')
    else:
        r.unknown(s_.site(), '__setitem__ neither calls _broadcast_arrays nor reshapes the right-hand side: alignment of a lower-rank polynomial not recognised')
    r.floor = 5
    return r


def _stored_value(fi, index_node):
    """value stored through the index expression: `X.__setitem__(<index>, v)` or `X[<index>] = v` -> (v, statement text)"""
    for n in walk_no_nested(fi.node):
        if isinstance(n, ast.Call) and isinstance(n.func, ast.Attribute) and n.func.attr == '__setitem__' \
                and len(n.args) == 2 and n.args[0] is index_node:
            return n.args[1], norm(n)
        if isinstance(n, ast.Assign) and len(n.targets) == 1 and isinstance(n.targets[0], ast.Subscript) and n.targets[0].slice is index_node:
            return n.value, norm(n)
    return None, ''


def _parent_call(fi, node):
    for n in walk_no_nested(fi.node):
        if isinstance(n, ast.Call) and any(a is node for a in n.args):
            return n
    return None


VIEW_METHODS = ['__getitem__', 'get_transpose', 'transpose', 'reshape', 'real', 'imag', 'get_flat', 'coeff_op', 'FtoJT']
COPY_METHODS = ['conjugate', 'neg', 'tril', 'triu', 'tile', 'diag', 'sum', 'trace', 'clone', 'copy', 'zeros_like', 'ones_like', '__abs__', 'prod']


def rule_view(ctx):
    r = RuleResult('C13.view', 'view operations return an object whose data derives from the parent\'s data without any copy on the '
                               'path (E1: returned roots contain the argument and no fresh allocation); value operations return fresh data')
    m = ctx.model
    eff = ctx.effects
    for name in VIEW_METHODS:
        fi = m.lookup_method('UTPM', name)
        if fi is None:
            r.unknown('UTPM.' + name, 'vanished')
            continue
        ret = flat(eff.sums[fi].ret)
        src = fi.params[0] if fi.kind != 'classmethod' else fi.params[1]
        if ('p', src) in ret and not any(x[0] == 'fresh' for x in ret):
            r.ok(construct=name, nontrivial=True, sample='UTPM.%s returns roots %s' % (name, sorted(ret)))
        else:
            r.bad(Finding('C13.view', _f(fi), name, 'UTPM.%s must return a view of its argument but returns %s (a copy breaks writing through the view)'
                          % (name, sorted(ret)), fi.file, fi.lineno))
    for name in COPY_METHODS:
        fi = m.lookup_method('UTPM', name)
        if fi is None:
            continue
        ret = flat(eff.sums[fi].ret)
        if any(x[0] == 'p' for x in ret):
            r.bad(Finding('C13.view', _f(fi), name, 'UTPM.%s must return fresh data but may return storage of %s' % (name, sorted(x[1] for x in ret if x[0] == 'p')), fi.file, fi.lineno))
        else:
            r.ok(construct=name, sample='UTPM.%s returns fresh data' % name)
    r.floor = 18
    return r


MAPS = {'trace': ('numpy.trace', []), 'tril': ('numpy.tril', ['k']), 'triu': ('numpy.triu', ['k']), 'tile': ('numpy.tile', ['reps']),
        'fft': ('numpy.fft.fft', ['n', 'axis']), 'ifft': ('numpy.fft.ifft', ['n', 'axis'])}


def _axis_sign_test(t):
    """`axis < 0` / `0 > axis` -> 'neg' (body is the negative case); `axis >= 0` / `0 <= axis` -> 'pos'; else None"""
    if not (isinstance(t, ast.Compare) and len(t.ops) == 1):
        return None
    l, rr, op = norm(t.left), norm(t.comparators[0]), t.ops[0]
    if l == 'axis' and rr == '0':
        return 'neg' if isinstance(op, ast.Lt) else ('pos' if isinstance(op, ast.GtE) else None)
    if l == '0' and rr == 'axis':
        return 'neg' if isinstance(op, ast.Gt) else ('pos' if isinstance(op, ast.LtE) else None)
    return None


def _whole_array_map(m, fi, name, fn, calls):
    """`fn` applied once to the whole (D,P,...) array: -> (ok, text) or None when the form is not understood.
    The data axis an `axis` argument selects is evaluated for element ranks 1..3 and every legal axis value."""
    from .indexenum import returned_expression, NotEvaluable
    vp = fi.value_params()
    if not vp or len(calls) != 1:
        return None
    a = vp[0]
    c = calls[0]
    if not (c.args and norm(c.args[0]) in (a + '.data', a + '.data[...]')):
        return None
    kw = {k.arg: k.value for k in c.keywords if k.arg}
    if name in ('tril', 'triu'):
        # numpy.tril/triu act on the last two axes of an N-d array
        if len(c.args) >= 2 or 'k' in kw:
            return True, '`%s` acts on the last two axes of the coefficient array' % norm(c)[:60]
        return False, 'parameter `k` is not forwarded to %s' % fn
    if name == 'trace':
        a1, a2 = kw.get('axis1'), kw.get('axis2')
        if a1 is not None and a2 is not None and {norm(a1), norm(a2)} in ({'2', '3'}, {'-2', '-1'}):
            return True, '`%s` traces the two matrix axes' % norm(c)[:60]
        if a1 is None and a2 is None and len(c.args) == 1:
            return False, '`%s` traces axes 0 and 1 - the coefficient and direction axes' % norm(c)[:60]
        return None
    if name in ('fft', 'ifft'):
        ax = kw.get('axis') if 'axis' in kw else (c.args[2] if len(c.args) > 2 else None)
        nn = kw.get('n') if 'n' in kw else (c.args[1] if len(c.args) > 1 else None)
        if nn is None or 'n' not in {x.id for x in ast.walk(nn) if isinstance(x, ast.Name)}:
            return False, 'parameter `n` is not forwarded to %s' % fn
        if ax is None:
            return False, '`%s` transforms the last axis whatever `axis` says' % norm(c)[:60]
        for rk in (1, 2, 3):
            for k in range(-rk, rk):
                facts = {'%s.ndim' % a: rk, '%s.data.ndim' % a: rk + 2, 'len(%s.shape)' % a: rk, 'len(%s.data.shape)' % a: rk + 2,
                         'numpy.ndim(%s.data)' % a: rk + 2}
                ret, ie = returned_expression(m, fi, {'axis': k}, facts)
                try:
                    got = ie.ev(ax)
                except NotEvaluable:
                    return None
                if not isinstance(got, int):
                    return None
                want = k + 2 if k >= 0 else k + rk + 2
                if got % (rk + 2) != want:
                    names = {0: 'coefficient axis D', 1: 'direction axis P'}
                    return False, ('`%s`: for an operand of rank %d and axis=%d the transform runs along data axis %d%s, expected data axis %d'
                                   % (norm(c)[:60], rk, k, got % (rk + 2), ' (the %s)' % names[got % (rk + 2)] if got % (rk + 2) in names else '', want))
        return True, '`%s` selects data axis axis+2 (axis >= 0) resp. the same negative axis, for ranks 1..3' % norm(c)[:60]
    return None


def rule_map(ctx):
    r = RuleResult('C13.map', 'slice-wise operations apply the NumPy function of their own name to slice [d,p] inside full d and p loops and '
                              'forward every extra parameter; sum shifts a non-negative axis by the two leading (D,P) axes and a negative axis by data.ndim')
    m = ctx.model
    for name, (fn, extra) in sorted(MAPS.items()):
        fi = m.lookup_method('UTPM', name)
        if fi is None:
            r.unknown('UTPM.' + name, 'vanished')
            continue
        calls = [c for c in walk_no_nested(fi.node) if isinstance(c, ast.Call) and dotted_name(c.func) == fn]
        inner = []
        # (D, P) as the function names them: `A, B = <array>.shape[:2]`
        dp_pairs = {('D', 'P')}
        for st_ in walk_no_nested(fi.node):
            if isinstance(st_, ast.Assign) and len(st_.targets) == 1 and isinstance(st_.targets[0], ast.Tuple) and len(st_.targets[0].elts) == 2 \
                    and all(isinstance(e_, ast.Name) for e_ in st_.targets[0].elts) and isinstance(st_.value, ast.Subscript) \
                    and isinstance(st_.value.value, ast.Attribute) and st_.value.value.attr == 'shape' and isinstance(st_.value.slice, ast.Slice) \
                    and st_.value.slice.lower is None and st_.value.slice.step is None and norm(st_.value.slice.upper) == '2':
                dp_pairs.add(tuple(e_.id for e_ in st_.targets[0].elts))
        loopvars = {}
        for lp in walk_no_nested(fi.node):
            if isinstance(lp, ast.For) and isinstance(lp.target, ast.Name):
                for (A_, B_) in dp_pairs:
                    if norm(lp.iter) == 'range(%s)' % A_:
                        for lp2 in lp.body:
                            if isinstance(lp2, ast.For) and isinstance(lp2.target, ast.Name) and norm(lp2.iter) == 'range(%s)' % B_:
                                for c in ast.walk(lp2):
                                    if isinstance(c, ast.Call) and dotted_name(c.func) == fn:
                                        inner.append(c)
                                        loopvars[id(c)] = (lp.target.id, lp2.target.id)
        probs = []
        if not inner and name in ('tril', 'triu'):
            # the sibling identity  triu(x, k) = tril(x.T, -k).T  (and vice versa)
            sib = 'tril' if name == 'triu' else 'triu'
            rets = [n_ for n_ in walk_no_nested(fi.node) if isinstance(n_, ast.Return)]
            if len(rets) == 1 and isinstance(rets[0].value, ast.Attribute) and rets[0].value.attr == 'T' and isinstance(rets[0].value.value, ast.Call):
                c_ = rets[0].value.value
                if isinstance(c_.func, ast.Attribute) and c_.func.attr == sib and c_.args and isinstance(c_.args[0], ast.Attribute) and c_.args[0].attr == 'T' \
                        and norm(c_.args[0].value) == fi.value_params()[0]:
                    karg = c_.args[1] if len(c_.args) > 1 else next((k_.value for k_ in c_.keywords if k_.arg == 'k'), None)
                    kpar = fi.value_params()[1] if len(fi.value_params()) > 1 else 'k'
                    if karg is not None and isinstance(karg, ast.UnaryOp) and isinstance(karg.op, ast.USub) and norm(karg.operand) == kpar:
                        r.ok(construct=name + ':sibling', nontrivial=True, sample='UTPM.%s: `%s` (offset negated under transposition)' % (name, norm(rets[0])[:60]))
                    else:
                        r.bad(Finding('C13.map', _f(fi), name + ':sibling-offset', 'UTPM.%s is written as %s of the transpose with offset `%s`: the diagonal offset '
                                                                                     'changes sign under transposition (`-%s` is needed), so every k != 0 selects the wrong diagonals'
                                      % (name, sib, norm(karg) if karg is not None else 'default 0', kpar), fi.file, rets[0].lineno))
                    continue
        if not inner:
            # not the slice-wise loop: a call on the whole coefficient array is decided by its axis arguments; anything else is not decided
            verdict = _whole_array_map(m, fi, name, fn, calls)
            if verdict is None:
                r.unknown(fi.site(), '%s is applied neither slice-wise inside `for d in range(D): for p in range(P)` nor to the whole coefficient array in a '
                                     'form whose axes can be evaluated' % fn)
            elif verdict[0]:
                r.ok(construct=name + ':whole-array', nontrivial=True, sample='UTPM.%s: %s' % (name, verdict[1]))
            else:
                r.bad(Finding('C13.map', _f(fi), name + ':axis', 'UTPM.%s: %s' % (name, verdict[1]), fi.file, fi.lineno))
            continue
        for c in inner:
            dv_, pv_ = loopvars.get(id(c), ('d', 'p'))
            if not (c.args and isinstance(c.args[0], ast.Subscript) and norm(c.args[0].slice).replace(' ', '') in ('(%s,%s)' % (dv_, pv_), '(%s,%s,...)' % (dv_, pv_))):
                probs.append('%s is not applied to slice [d, p]: `%s`' % (fn, norm(c)[:60]))
            used = {x.id for x in ast.walk(c) if isinstance(x, ast.Name)}
            for e in extra:
                if e not in used:
                    probs.append('parameter `%s` is not forwarded to %s' % (e, fn))
        if probs:
            for pm in probs:
                r.bad(Finding('C13.map', _f(fi), name + ':' + pm[:50], 'UTPM.%s: %s' % (name, pm), fi.file, fi.lineno))
        else:
            r.ok(construct=name, nontrivial=True, sample='UTPM.%s: `%s` for every (d, p)' % (name, norm(inner[0])[:70]))
    # sum / pb_sum axis shift
    for name in ('sum', 'pb_sum'):
        fi = m.lookup_method('UTPM', name)
        if fi is None:
            continue
        cands = []
        for n in walk_no_nested(fi.node):
            if isinstance(n, ast.If):
                sgn = _axis_sign_test(n.test)
                neg = [s_ for s_ in n.body if isinstance(s_, ast.Assign)]
                pos = [s_ for s_ in n.orelse if isinstance(s_, ast.Assign)]
                if sgn and len(neg) == 1 and len(pos) == 1 and norm(neg[0].targets[0]) == norm(pos[0].targets[0]):
                    ne, pe = neg[0].value, pos[0].value
                    cands.append((n, ne, pe) if sgn == 'neg' else (n, pe, ne))
            if isinstance(n, ast.IfExp):
                sgn = _axis_sign_test(n.test)
                if sgn:
                    cands.append((n, n.body, n.orelse) if sgn == 'neg' else (n, n.orelse, n.body))
        if len(cands) != 1:
            r.unknown(fi.site(), 'axis normalisation (a test of the sign of `axis` selecting between two shifts) not found')
            continue
        node, ne, pe = cands[0]
        okn = isinstance(ne, ast.BinOp) and isinstance(ne.op, ast.Add) \
            and {norm(ne.left), norm(ne.right)} in ({'self.data.ndim', 'axis'}, {'x.data.ndim', 'axis'})
        okp = isinstance(pe, ast.BinOp) and isinstance(pe.op, ast.Add) and {norm(pe.left), norm(pe.right)} == {'axis', '2'}
        if okn and okp:
            r.ok(construct=name + ':axis', nontrivial=True, sample='UTPM.%s: negative axis -> `%s`, non-negative -> `%s`' % (name, norm(ne), norm(pe)))
        else:
            r.bad(Finding('C13.map', _f(fi), name + ':axis', 'UTPM.%s does not shift the axis by data.ndim (negative) / 2 (non-negative): %s / %s'
                          % (name, norm(ne), norm(pe)), fi.file, node.lineno))
    # whole-array maps
    for name, fn in (('conjugate', 'numpy.conjugate'),):
        fi = m.lookup_method('UTPM', name)
        okc = False
        if fi is not None:
            me = fi.params[0] if fi.params else 'self'
            rets = [n_ for n_ in walk_no_nested(fi.node) if isinstance(n_, ast.Return) and n_.value is not None]
            okc = bool(rets)
            for r_ in rets:
                v = resolve_locals(fi, r_.value)
                inner_ = v.args[0] if isinstance(v, ast.Call) and len(v.args) == 1 and not v.keywords and norm(v.func) in ('UTPM', 'cls', me + '.__class__', 'type(%s)' % me) else None
                whole = isinstance(inner_, ast.Call) and not inner_.keywords and (
                    (dotted_name(inner_.func) in (fn, 'numpy.conj') and len(inner_.args) == 1 and norm(inner_.args[0]) == me + '.data')
                    or (isinstance(inner_.func, ast.Attribute) and inner_.func.attr in ('conjugate', 'conj') and not inner_.args and norm(inner_.func.value) == me + '.data'))
                okc = okc and whole
        if okc:
            r.ok(construct=name, sample='UTPM.%s applies %s to the whole coefficient array' % (name, fn))
        elif fi is not None:
            r.bad(Finding('C13.map', _f(fi), name, 'UTPM.%s does not apply %s to the whole data array' % (name, fn), fi.file, fi.lineno))
    r.floor = 8
    return r


# ----- symvec family: enumerate the index structure of the loop nests (N = 4)
def rule_sym(ctx):
    r = RuleResult('C13.sym', 'symvec / vecsym and their pullbacks enumerate the index pairs of the symmetric matrix in the same order with '
                              'one vector position per pair (sibling agreement, decided by enumerating the loop-nest index structure for N=4; '
                              'see verif/indexenum.py)')
    m = ctx.model
    try:
        sv = m.func('algopy.utils', 'symvec')
        vs = m.func('algopy.utils', 'vecsym')
        uvs = m.lookup_method('UTPM', 'vecsym')
        pbs = m.lookup_method('UTPM', 'pb_symvec')
        pbv = m.lookup_method('UTPM', 'pb_vecsym')
    except AnalysisError as e:
        r.unknown(e.site, e.reason)
        return r
    fam, unk = {}, {}
    dims = {'N': 4, 'M': 4}
    for u in ('F', 'L', 'U'):
        for nm, fi in (('symvec', sv), ('pb_symvec', pbs)):
            opt = [p for p in fi.params if p.upper() == 'UPLO']
            if not opt:
                unk['%s:%s' % (nm, u)] = ['no UPLO parameter']
                continue
            fam['%s:%s' % (nm, u)], unk['%s:%s' % (nm, u)] = enumerate_function(m, fi, dict(dims, **{opt[0]: u}))
    for nm, fi in (('vecsym', vs), ('UTPM.vecsym', uvs), ('pb_vecsym', pbv)):
        fam[nm], unk[nm] = enumerate_function(m, fi, dims)

    def canon(ev):
        # count -> unordered index pair
        d = {}
        for cnt, pairs in ev:
            d.setdefault(cnt, set()).update(tuple(sorted(p)) for p in pairs)
        return {k: tuple(sorted(v)) for k, v in d.items()}
    full = [(a, b) for a in range(4) for b in range(a, 4)]
    want = {i: (p,) for i, p in enumerate(full)}
    for k in ('symvec:F', 'pb_symvec:F', 'vecsym', 'UTPM.vecsym', 'pb_vecsym'):
        if unk.get(k) or not fam.get(k):
            r.unknown(k, 'loop nest not recognised (%s)' % (unk.get(k) or ['no packing statement found'])[0])
            continue
        c = canon(fam[k])
        if c == want:
            r.ok(construct=k, nontrivial=True, sample='%s: position k <-> pair %s ...' % (k, [c[i][0] for i in range(4)]))
        else:
            r.bad(Finding('C13.sym', k, 'enumeration', '%s enumerates the pairs of the symmetric matrix as %s, expected row-wise upper-triangular order %s'
                          % (k, [c.get(i) for i in range(6)], full[:6]), 'algopy/utils.py', 0))
    # the entries (ordered index pairs) that go with one vector position must agree between an operation and its pullback: vecsym
    # stores v[k] into A[i, j] and A[j, i], so the adjoint of v[k] collects Abar[i, j] and Abar[j, i] (an adjoint need not be symmetric)
    def ordered(ev):
        d = {}
        for cnt, pairs in ev:
            d.setdefault(cnt, set()).update(pairs)
        return {k: tuple(sorted(v)) for k, v in d.items()}
    for fwd, bwd in (('vecsym', 'pb_vecsym'), ('UTPM.vecsym', 'pb_vecsym'), ('symvec:F', 'pb_symvec:F')):
        if unk.get(fwd) or unk.get(bwd) or not fam.get(fwd) or not fam.get(bwd):
            continue        # reported above
        a_, b_ = ordered(fam[fwd]), ordered(fam[bwd])
        if a_ == b_:
            r.ok(construct='entries:%s/%s' % (fwd, bwd), nontrivial=True, sample='%s and %s touch the same matrix entries per vector position, e.g. %s' % (fwd, bwd, a_.get(1)))
        else:
            k_ = next(k for k in sorted(set(a_) | set(b_)) if a_.get(k) != b_.get(k))
            r.bad(Finding('C13.sym', 'algopy.utpm.utpm:UTPM.' + bwd.split(':')[0], 'entries:%s' % bwd, '%s and %s disagree on the matrix entries that belong to vector '
                          'position %d: %s vs %s - the adjoint of an entry the forward operation touches is dropped or counted twice'
                          % (fwd, bwd, k_, a_.get(k_), b_.get(k_)), 'algopy/utpm/utpm.py', 0))
    for u in ('L', 'U'):
        a, b = fam.get('symvec:' + u), fam.get('pb_symvec:' + u)
        if not a or not b or unk.get('symvec:' + u) or unk.get('pb_symvec:' + u):
            r.unknown('symvec:' + u, 'branch not recognised (%s)' % ((unk.get('symvec:' + u) or []) + (unk.get('pb_symvec:' + u) or []) + ['no packing statement found'])[0])
            continue
        # exact (ordered) pairs must agree between forward and pullback
        if [(c, p) for c, p in a] == [(c, p) for c, p in b]:
            r.ok(construct='UPLO=' + u, nontrivial=True, sample="symvec/pb_symvec UPLO='%s': %s ..." % (u, a[:3]))
        else:
            r.bad(Finding('C13.sym', 'algopy.utpm.utpm:UTPM.pb_symvec', 'UPLO=' + u, "pb_symvec and symvec disagree on the entry <-> position map for UPLO='%s': %s vs %s"
                          % (u, b[:4], a[:4]), 'algopy/utpm/utpm.py', 0))
    r.floor = 10
    return r


def _scalar_shape_test(test, name):
    """classify the guard that wraps a scalar `shape` argument into a tuple:
    'all'   - true for every integer scalar NumPy accepts as a shape (Python int, numpy.integer)
    'some'  - true for Python ints only (numpy integer scalars reach `(D, P) + shape`, which then broadcasts)
    None    - not recognised"""
    t = test
    if isinstance(t, ast.Call):
        d = dotted_name(t.func) or ''
        if d in ('numpy.isscalar', 'np.isscalar') and len(t.args) == 1 and norm(t.args[0]) == name:
            return 'all'
        if d == 'isinstance' and len(t.args) == 2 and norm(t.args[0]) == name:
            kinds = [dotted_name(x) or '' for x in (t.args[1].elts if isinstance(t.args[1], ast.Tuple) else [t.args[1]])]
            if any(k in ('numbers.Integral', 'numbers.Number', 'numbers.Real') for k in kinds):
                return 'all'
            if any(k in ('numpy.integer', 'numpy.number', 'numpy.generic') for k in kinds) and 'int' in kinds:
                return 'all'
            if kinds and all(k in ('int', 'float', 'bool') for k in kinds):
                return 'some'
    if isinstance(t, ast.UnaryOp) and isinstance(t.op, ast.Not) and isinstance(t.operand, ast.Call) \
            and (dotted_name(t.operand.func) or '') == 'isinstance' and norm(t.operand.args[0]) == name:
        kinds = [dotted_name(x) or '' for x in (t.operand.args[1].elts if isinstance(t.operand.args[1], ast.Tuple) else [t.operand.args[1]])]
        if kinds and all(k in ('tuple', 'list') for k in kinds):
            return 'all'
    if isinstance(t, ast.Compare) and len(t.ops) == 1 and isinstance(t.ops[0], (ast.Eq, ast.Is)) \
            and norm(t.left) in ('type(%s)' % name,) and norm(t.comparators[0]) == 'int':
        return 'some'
    if isinstance(t, ast.Compare) and len(t.ops) == 1 and isinstance(t.ops[0], ast.Eq) and norm(t.left) == 'numpy.ndim(%s)' % name \
            and norm(t.comparators[0]) == '0':
        return 'all'
    return None


def rule_shape_arg(ctx):
    r = RuleResult('C10.shape-arg', 'allocation functions with a `shape` parameter that is concatenated to (D, P): every integer scalar that '
                                    'numpy.zeros/ones accept as a shape (Python int and NumPy integer scalars) is wrapped into a tuple first - '
                                    'otherwise `(D, P) + numpy.int64(n)` broadcasts to array([D+n, P+n]) and the result has the wrong shape and degree')
    m = ctx.model
    mi = m.module('algopy.globalfuncs')
    for name, fi in sorted(mi.functions.items()):
        if 'shape' not in fi.params:
            continue
        concat = [n for n in walk_no_nested(fi.node) if isinstance(n, ast.BinOp) and isinstance(n.op, ast.Add)
                  and ((isinstance(n.left, ast.Tuple) and norm(n.right) == 'shape') or (isinstance(n.right, ast.Tuple) and norm(n.left) == 'shape'))]
        if not concat:
            continue
        wraps = []
        for n in walk_no_nested(fi.node):
            if isinstance(n, ast.If) and n.lineno < concat[0].lineno and any(
                    isinstance(b, ast.Assign) and norm(b.targets[0]) == 'shape' and isinstance(b.value, ast.Tuple) and [norm(e) for e in b.value.elts] == ['shape']
                    for b in n.body):
                wraps.append(n)
            # `shape = (shape,) if numpy.isscalar(shape) else shape`
            if isinstance(n, ast.Assign) and norm(n.targets[0]) == 'shape' and isinstance(n.value, ast.IfExp) and n.lineno < concat[0].lineno:
                ie = n.value
                def _wrapped(e):
                    return isinstance(e, ast.Tuple) and [norm(x_) for x_ in e.elts] == ['shape']
                if _wrapped(ie.body) and norm(ie.orelse) == 'shape':
                    wraps.append(ast.copy_location(ast.If(test=ie.test, body=[n], orelse=[]), n))
                elif _wrapped(ie.orelse) and norm(ie.body) == 'shape':
                    wraps.append(ast.copy_location(ast.If(test=ast.UnaryOp(op=ast.Not(), operand=ie.test), body=[n], orelse=[]), n))
        conv = [n for n in walk_no_nested(fi.node) if isinstance(n, ast.Assign) and norm(n.targets[0]) == 'shape' and isinstance(n.value, ast.Call)
                and (dotted_name(n.value.func) or '') in ('tuple',) and n.lineno < concat[0].lineno]
        key = name + ':scalar-shape'
        if not wraps and not conv:
            r.bad(Finding('C10.shape-arg', _f(fi), key, '%s concatenates `%s` without wrapping a scalar shape into a tuple first' % (name, norm(concat[0])),
                          fi.file, concat[0].lineno))
            continue
        if conv and not wraps:
            r.unknown(fi.site(conv[0]), 'shape normalised by `%s`: not a recognised form' % norm(conv[0]))
            continue
        kinds = [_scalar_shape_test(w.test, 'shape') for w in wraps]
        if 'all' in kinds:
            r.ok(construct=key, sample='%s: `if %s: shape = (shape,)` before `%s`' % (name, norm(wraps[kinds.index('all')].test), norm(concat[0])))
        elif 'some' in kinds:
            w = wraps[kinds.index('some')]
            r.bad(Finding('C10.shape-arg', _f(fi), key, '%s wraps the shape only under `%s`: a NumPy integer scalar (e.g. numpy.prod(A.shape), A.shape[0] of '
                                                        'some arrays) reaches `%s`, which broadcasts instead of concatenating' % (name, norm(w.test), norm(concat[0])),
                          fi.file, w.lineno))
        else:
            r.unknown(fi.site(wraps[0]), 'scalar-shape guard `%s` not recognised' % norm(wraps[0].test))
    r.floor = 2
    return r


def rule_lib_api(ctx):
    r = RuleResult('C10.lib-api', 'every attribute chain rooted in numpy / scipy / math / operator / functools / itertools that the library mentions exists in the '
                                  'installed version of that library (the namespaces of the dependencies are consulted like type stubs; algopy itself is not '
                                  'imported): a name that was removed or never existed raises AttributeError on the path that reaches it')
    import importlib
    roots = ('numpy', 'scipy', 'math', 'operator', 'functools', 'itertools')
    cache = {}

    def resolves(d):
        if d in cache:
            return cache[d]
        parts = d.split('.')
        try:
            obj = importlib.import_module(parts[0])
        except Exception:
            cache[d] = None
            return None
        ok = True
        for i, p_ in enumerate(parts[1:], 1):
            if hasattr(obj, p_):
                obj = getattr(obj, p_)
            else:
                try:
                    obj = importlib.import_module('.'.join(parts[:i + 1]))
                except Exception:
                    ok = False
                    break
        cache[d] = ok
        return ok
    m = ctx.model
    seen = {}
    missing_libs = set()
    for mi in m.modules.values():
        parents = {}
        for n in ast.walk(mi.tree):
            for ch in ast.iter_child_nodes(n):
                parents[id(ch)] = n
        for n in ast.walk(mi.tree):
            if isinstance(n, ast.Attribute) and not (isinstance(parents.get(id(n)), ast.Attribute) and parents[id(n)].value is n):
                d = dotted_name(n)
                if d and d.split('.')[0] in roots and isinstance(n.ctx, ast.Load):
                    seen.setdefault(d, (mi, n))
    for d, (mi, n) in sorted(seen.items()):
        v = resolves(d)
        if v is None:
            missing_libs.add(d.split('.')[0])
            r.ok(construct='skipped:' + d)
        elif v:
            r.ok(construct=d)
        else:
            # a method of a library object reached through an attribute chain (numpy.float64(1).real ...) cannot be told apart from a missing name
            head = d
            while head and resolves(head) is False:
                head = head.rpartition('.')[0]
            r.bad(Finding('C10.lib-api', mi.name, d, '`%s` does not exist in the installed %s (`%s` is the longest prefix that does): AttributeError where it is reached'
                          % (d, d.split('.')[0], head), mi.file, getattr(n, 'lineno', 0)))
    for lib in sorted(missing_libs):
        r.note('library %s is not importable by the interpreter that runs the check: its attribute chains were not examined' % lib)
    r.floor = 100
    return r


def rule_int_index(ctx):
    r = RuleResult('C13.int-index', 'index arithmetic stays in the integers: no true division `/` reaches a slice bound, a `range` bound or `slice(...)` '
                                    'through the local definitions (Python 3 yields a float, NumPy rejects it - the operation raises for every input), '
                                    'and a multi-dimensional index built as a *list* of slices is converted to a tuple (a list is fancy indexing)')
    m = ctx.model
    n_sinks = 0
    for fi in m.all_functions():
        if fi.generated:
            continue
        defs = {}
        for st in walk_no_nested(fi.node):
            if isinstance(st, ast.Assign):
                for t in st.targets:
                    for n in ast.walk(t):
                        if isinstance(n, ast.Name) and isinstance(n.ctx, ast.Store):
                            defs.setdefault(n.id, []).append(st.value)

        def div_in(e, seen, depth=0):
            if depth > 6:
                return None
            if isinstance(e, ast.Call) and (dotted_name(e.func) or '') in ('int', 'len', 'round', 'numpy.int64', 'numpy.intp', 'operator.index'):
                return None
            if isinstance(e, ast.BinOp) and isinstance(e.op, ast.Div):
                return e
            if isinstance(e, ast.Name) and e.id in defs and e.id not in seen:
                seen.add(e.id)
                for d_ in defs[e.id]:
                    hit = div_in(d_, seen, depth + 1)
                    if hit is not None:
                        return hit
                return None
            for ch in ast.iter_child_nodes(e):
                hit = div_in(ch, seen, depth)
                if hit is not None:
                    return hit
            return None
        sinks = []
        for n in walk_no_nested(fi.node):
            if isinstance(n, ast.Call) and isinstance(n.func, ast.Name) and n.func.id in ('slice', 'range'):
                sinks += [(a, n) for a in n.args]
            if isinstance(n, ast.Call) and (dotted_name(n.func) or '') in ('numpy.zeros', 'numpy.empty', 'numpy.ones', 'numpy.eye', 'numpy.identity', 'numpy.arange') and n.args:
                sinks.append((n.args[0], n))        # a shape / count
            if isinstance(n, ast.Subscript):
                sl = n.slice
                for e in (sl.elts if isinstance(sl, ast.Tuple) else [sl]):
                    if isinstance(e, ast.Slice):
                        sinks += [(b, n) for b in (e.lower, e.upper, e.step) if b is not None]
                # a list of slices used as the index
                if isinstance(sl, ast.Name) and sl.id in defs and all(
                        isinstance(d_, (ast.List, ast.ListComp)) and any(isinstance(c_, ast.Call) and isinstance(c_.func, ast.Name) and c_.func.id == 'slice'
                                                                         for c_ in ast.walk(d_)) for d_ in defs[sl.id]):
                    r.bad(Finding('C13.int-index', _f(fi), 'list-index:' + norm(n)[:60], '%s indexes with the list `%s` of slices (`%s`): NumPy treats a list as '
                                                                                        'fancy indexing and raises - a tuple is needed' % (fi.qualname, sl.id, norm(n)[:50]),
                                  fi.file, n.lineno))
        seen_sites = set()
        for e, site in sinks:
            n_sinks += 1
            hit = div_in(e, set())
            if hit is not None and (id(site), norm(hit)) not in seen_sites:
                seen_sites.add((id(site), norm(hit)))
                r.bad(Finding('C13.int-index', _f(fi), 'div:' + norm(site)[:60], '%s: the true division `%s` reaches the index expression `%s`: a float index raises '
                                                                                 '(floor division `//` is meant)' % (fi.qualname, norm(hit)[:50], norm(site)[:60]),
                              fi.file, getattr(site, 'lineno', fi.lineno)))
    r.instances += n_sinks
    r.holding += n_sinks - len(r.findings)
    r.floor = 500
    return r


def rule_broadcast_axes(ctx):
    r = RuleResult('C02.broadcast-axes', 'the UTPM-aware broadcasting helper _broadcast_arrays keeps the coefficient and direction axes apart from the element '
                                         'axes: interpreted over axis labels for operand ranks 2..5, both operands enter numpy broadcasting with (D, P) as '
                                         'their *last* two axes and come back with (D, P) in front and the element axes in their original order')
    from .indexenum import IndexEnum, NotEvaluable
    m = ctx.model
    ci = m.cls('RawAlgorithmsMixIn')
    fi = ci.methods.get('_broadcast_arrays') if ci else None
    if fi is None:
        r.unknown(ALGO + ':_broadcast_arrays', 'helper vanished')
        return r
    vp = fi.value_params()
    if len(vp) < 2:
        r.unknown(fi.site(), 'signature (x_data, y_data) not recognised')
        return r
    class AxisViolation(Exception):
        pass

    def run(Lx, Ly):
        """-> (labels of the two returned arrays, labels at the broadcasting call) or raises NotEvaluable"""
        lab = {vp[0]: ['D', 'P'] + ['x%d' % i for i in range(Lx - 2)], vp[1]: ['D', 'P'] + ['y%d' % i for i in range(Ly - 2)]}
        ie = IndexEnum(m, fi.module, {})
        at_bc = None

        def rank_facts():
            ie.facts = {}
            for nm, l in lab.items():
                ie.facts['len(%s.shape)' % nm] = len(l)
                ie.facts['%s.ndim' % nm] = len(l)
                ie.facts['numpy.ndim(%s)' % nm] = len(l)
                ie.facts['len(numpy.shape(%s))' % nm] = len(l)
        def labels_of(v):
            """axis labels of an array expression: a labelled name, or a transpose of one (method / numpy.transpose / .T)"""
            if isinstance(v, ast.Name):
                return list(lab[v.id]) if v.id in lab else None
            if isinstance(v, ast.Attribute) and v.attr == 'T':
                src = labels_of(v.value)
                return None if src is None else list(reversed(src))
            if isinstance(v, ast.Call) and isinstance(v.func, ast.Attribute) and v.func.attr == 'transpose' and dotted_name(v.func) != 'numpy.transpose':
                src = labels_of(v.func.value)
                if src is None:
                    return None
                if not v.args:
                    ax = tuple(reversed(range(len(src))))
                else:
                    ax = ie.ev(v.args[0]) if len(v.args) == 1 else tuple(ie.ev(a) for a in v.args)
                if not isinstance(ax, tuple) or sorted(ax) != list(range(len(src))):
                    raise AxisViolation('axes %s are not a permutation of the %d axes of %s' % (ax, len(src), norm(v.func.value)))
                return [src[i] for i in ax]
            if isinstance(v, ast.Call) and (dotted_name(v.func) or '') == 'numpy.transpose' and v.args:
                src = labels_of(v.args[0])
                if src is None:
                    return None
                axn = v.args[1] if len(v.args) > 1 else next((k.value for k in v.keywords if k.arg == 'axes'), None)
                ax = tuple(reversed(range(len(src)))) if axn is None else ie.ev(axn)
                if not isinstance(ax, tuple) or sorted(ax) != list(range(len(src))):
                    raise AxisViolation('axes %s are not a permutation' % (ax,))
                return [src[i] for i in ax]
            return None
        for st in fi.node.body:
            rank_facts()
            if isinstance(st, ast.Expr) and isinstance(st.value, ast.Constant):
                continue
            if isinstance(st, ast.Assign) and len(st.targets) == 1 and isinstance(st.targets[0], ast.Name):
                t, v = st.targets[0].id, st.value
                l_ = labels_of(v)
                if l_ is not None:
                    lab[t] = l_
                    continue
                ie.env[t] = ie.ev(v)
                continue
            if isinstance(st, ast.Assign) and len(st.targets) == 1 and isinstance(st.targets[0], ast.Tuple) and isinstance(st.value, ast.Call) \
                    and (dotted_name(st.value.func) or '').split('.')[-1] == 'broadcast_arrays' and len(st.value.args) == 2 \
                    and all(labels_of(a) is not None for a in st.value.args) and len(st.targets[0].elts) == 2:
                a, b = (labels_of(x) for x in st.value.args)
                at_bc = (list(a), list(b))
                L = max(len(a), len(b))
                pa, pb = [None] * (L - len(a)) + a, [None] * (L - len(b)) + b
                merged = []
                for u, w in zip(pa, pb):
                    if u in ('D', 'P') or w in ('D', 'P'):
                        if u != w:
                            raise AxisViolation('numpy broadcasting pairs axis %s of the first operand with axis %s of the second' % (u, w))
                        merged.append(u)
                    else:
                        merged.append('e%d' % len(merged))
                # element axes are numbered from the right so that both operands agree on them
                el = [x for x in merged if x not in ('D', 'P')]
                ren = {x: 'e%d' % i for i, x in enumerate(el)}
                merged = [ren.get(x, x) for x in merged]
                for e_ in st.targets[0].elts:
                    lab[e_.id] = list(merged)
                continue
            if isinstance(st, ast.Return):
                vals = st.value.elts if isinstance(st.value, ast.Tuple) else [st.value]
                return [labels_of(x) for x in vals], at_bc
            raise NotEvaluable('statement not understood: ' + norm(st)[:60])
        raise NotEvaluable('no return reached')

    for Lx in range(2, 6):
        for Ly in range(2, 6):
            key = 'ranks(%d,%d)' % (Lx, Ly)
            try:
                rets, at_bc = run(Lx, Ly)
            except AxisViolation as e:
                r.bad(Finding('C02.broadcast-axes', _f(fi), key + ':' + str(e)[:50], '_broadcast_arrays, operand ranks (%d, %d): %s' % (Lx, Ly, e), fi.file, fi.lineno))
                continue
            except NotEvaluable as e:
                r.unknown(fi.site(), 'operand ranks (%d, %d): %s' % (Lx, Ly, e))
                continue
            except (TypeError, ValueError, IndexError) as e:
                r.unknown(fi.site(), 'operand ranks (%d, %d): axes expression not evaluable (%s)' % (Lx, Ly, e))
                continue
            probs = []
            if at_bc is None:
                probs.append('numpy broadcasting is never applied')
            else:
                for nm, l in zip(vp, at_bc):
                    if l[-2:] != ['D', 'P']:
                        probs.append('`%s` enters broadcasting with axes %s: the coefficient and direction axes are not the last two, so they are '
                                     'broadcast against element axes of the other operand' % (nm, l))
            L = max(Lx, Ly)
            want = ['D', 'P'] + ['e%d' % i for i in range(L - 2)]
            for nm, l in zip(vp, rets):
                if l is not None and l != want and not probs:
                    probs.append('the returned `%s` has axes %s, expected %s' % (nm, l, want))
                if l is None:
                    probs.append('returned value not understood')
            if probs:
                for pm in probs:
                    r.bad(Finding('C02.broadcast-axes', _f(fi), key + ':' + pm[:50], '_broadcast_arrays, operand ranks (%d, %d): %s' % (Lx, Ly, pm), fi.file, fi.lineno))
            else:
                r.ok(construct=key, nontrivial=True, sample='_broadcast_arrays ranks (%d,%d): (D,P) last at the broadcasting call, result axes %s' % (Lx, Ly, want))
    r.floor = 16
    return r


def rule_transpose_axes(ctx):
    r = RuleResult('C13.transpose-axes', 'the transpose kernel permutes the coefficient array like numpy.transpose permutes each slice: the two leading '
                                         '(D, P) axes stay, *all* remaining axes are reversed - decided by evaluating the axes expression for every rank 2..6 '
                                         '(integer/shape level only)')
    from .indexenum import returned_expression, NotEvaluable
    m = ctx.model
    ci = m.cls('RawAlgorithmsMixIn')
    fi = ci.methods.get('_transpose') if ci else None
    if fi is None:
        r.unknown(ALGO + ':_transpose', 'kernel vanished')
        return r
    a = fi.value_params()[0]
    axes_par = fi.value_params()[1] if len(fi.value_params()) > 1 else None
    for n in range(2, 7):
        facts = {'%s.ndim' % a: n, 'len(%s.shape)' % a: n, 'numpy.ndim(%s)' % a: n, 'len(numpy.shape(%s))' % a: n}
        ret, ie = returned_expression(m, fi, {}, facts)
        want = (0, 1) + tuple(range(2, n))[::-1]
        key = 'rank%d' % (n - 2)
        if ret is None or ret.value is None:
            r.unknown(fi.site(), 'no return reached for data rank %d (%s)' % (n, (ie.unknown or ['?'])[0]))
            continue
        v = ret.value
        perm = None
        try:
            d = dotted_name(v.func) if isinstance(v, ast.Call) else None
            if isinstance(v, ast.Call) and d in ('numpy.transpose',) and v.args and norm(v.args[0]) == a:
                ax = v.args[1] if len(v.args) > 1 else next((k.value for k in v.keywords if k.arg == 'axes'), None)
                perm = tuple(range(n))[::-1] if ax is None else tuple(ie.ev(ax))
            elif isinstance(v, ast.Call) and isinstance(v.func, ast.Attribute) and v.func.attr == 'transpose' and norm(v.func.value) == a:
                if len(v.args) == 1:
                    perm = tuple(ie.ev(v.args[0]))
                elif v.args:
                    perm = tuple(ie.ev(x) for x in v.args)
                else:
                    perm = tuple(range(n))[::-1]
            elif isinstance(v, ast.Call) and d == 'numpy.swapaxes' and len(v.args) == 3 and norm(v.args[0]) == a:
                i, j = ie.ev(v.args[1]) % n, ie.ev(v.args[2]) % n
                pl = list(range(n))
                pl[i], pl[j] = pl[j], pl[i]
                perm = tuple(pl)
            elif isinstance(v, ast.Call) and d == 'numpy.moveaxis':
                perm = None
            elif norm(v) in (a, a + '[...]', a + '[:]'):
                perm = tuple(range(n))
        except (NotEvaluable, TypeError, ValueError):
            perm = None
        if perm is None:
            r.unknown(fi.site(ret), 'returned expression `%s` for data rank %d not understood as an axis permutation' % (norm(v)[:60], n))
        elif perm == want:
            r.ok(construct=key, nontrivial=True, sample='_transpose, data rank %d: `%s` permutes axes %s' % (n, norm(v)[:60], perm))
        else:
            r.bad(Finding('C13.transpose-axes', _f(fi), key, '_transpose permutes the axes of rank-%d data as %s, numpy.transpose of each (D,P) slice needs %s: `%s`'
                          % (n, perm, want, norm(v)[:70]), fi.file, ret.lineno))
    r.floor = 5
    return r


def rule_const_all_coeffs(ctx):
    r = RuleResult('C02.const-all', 'no method of UTPM assigns or adds a value that is not coefficient data to the *whole* coefficient array of a Taylor polynomial '
                                    '(`X.data[...] = c`, `+=`, `-=`): a constant belongs to coefficient 0 only (`X[...] = c`, `X.data[0] = c`); scaling all '
                                    'coefficients (`*=`, `/=`) and clearing with 0 are the exceptions')
    m = ctx.model
    cu = m.cls('UTPM')
    if cu is None:
        raise AnalysisError('C02.const-all', UTPM_MOD, 'class UTPM vanished')

    def full(sl):
        f = sl.elts[0] if isinstance(sl, ast.Tuple) and sl.elts else sl
        return (isinstance(f, ast.Constant) and f.value is Ellipsis) or (isinstance(f, ast.Slice) and f.lower is None and f.upper is None and f.step is None)

    n = 0
    for name, fi in sorted(cu.methods.items()):
        def carries_data(v, names):
            """the expression contains coefficient data (not merely the shape / dtype of some)"""
            skip = set()
            for x in ast.walk(v):
                if isinstance(x, ast.Attribute) and x.attr in ('shape', 'dtype', 'ndim', 'size'):
                    skip |= {id(y) for y in ast.walk(x.value)}
                if isinstance(x, ast.Call) and (dotted_name(x.func) or '').split('.')[-1] in ('shape', 'ndim', 'len', 'zeros', 'empty', 'zeros_like', 'empty_like', 'promote_types'):
                    for a_ in list(x.args) + [k.value for k in x.keywords]:
                        skip |= {id(y) for y in ast.walk(a_)}
            return any(id(x) not in skip and ((isinstance(x, ast.Attribute) and x.attr == 'data') or (isinstance(x, ast.Name) and x.id in names)) for x in ast.walk(v))

        def data_names_before(line):
            names = {p_ for p_ in fi.params if p_.endswith('_data')}
            for _ in range(3):
                for st_ in walk_no_nested(fi.node):
                    if isinstance(st_, ast.Assign) and st_.lineno < line and carries_data(st_.value, names):
                        for t_ in st_.targets:
                            for e in (t_.elts if isinstance(t_, (ast.Tuple, ast.List)) else [t_]):
                                if isinstance(e, ast.Name):
                                    names.add(e.id)
            return names

        # a Taylor polynomial built from `zeros((D, P) + shape) + c`: plain broadcasting writes c into every coefficient
        for c_ in walk_no_nested(fi.node):
            if isinstance(c_, ast.Call) and len(c_.args) == 1 and norm(c_.func) in ('cls', 'UTPM', 'self.__class__') and isinstance(c_.args[0], ast.BinOp) \
                    and isinstance(c_.args[0].op, (ast.Add, ast.Sub)):
                b_ = c_.args[0]
                def is_alloc(e):
                    return isinstance(e, ast.Call) and (dotted_name(e.func) or '').split('.')[-1] in ('zeros', 'zeros_like', 'empty', 'empty_like', '__zeros__')
                for alloc_, other in ((b_.left, b_.right), (b_.right, b_.left)):
                    if is_alloc(alloc_) and not is_alloc(other):
                        n += 1
                        if carries_data(other, data_names_before(c_.lineno)):
                            r.ok(construct='%s:%s' % (fi.qualname, norm(c_)[:50]))
                        else:
                            r.bad(Finding('C02.const-all', _f(fi), norm(c_)[:80], '%s: `%s` adds a value that is not coefficient data to an all-zero coefficient array: '
                                                                                   'broadcasting writes it into every Taylor coefficient, a constant belongs to coefficient 0 only'
                                          % (fi.qualname, norm(c_)[:70]), fi.file, c_.lineno))
        for st in walk_no_nested(fi.node):
            if isinstance(st, ast.Expr) and isinstance(st.value, ast.Call) and (dotted_name(st.value.func) or '') == 'numpy.copyto' and len(st.value.args) >= 2:
                dst, v = st.value.args[0], st.value.args[1]
                whole = (isinstance(dst, ast.Attribute) and dst.attr == 'data') or \
                    (isinstance(dst, ast.Subscript) and isinstance(dst.value, ast.Attribute) and dst.value.attr == 'data' and full(dst.slice))
                if whole:
                    n += 1
                    if (isinstance(v, ast.Constant) and v.value == 0) or carries_data(v, data_names_before(st.lineno)):
                        r.ok(construct='%s:%s' % (fi.qualname, norm(st)[:50]), sample='%s: `%s`' % (fi.qualname, norm(st)[:70]))
                    else:
                        r.bad(Finding('C02.const-all', _f(fi), norm(st)[:80], '%s: `%s` copies a value that is not coefficient data into every Taylor coefficient'
                                      % (fi.qualname, norm(st)[:70]), fi.file, st.lineno))
                continue
            if not isinstance(st, (ast.Assign, ast.AugAssign)):
                continue
            if isinstance(st, ast.AugAssign) and not isinstance(st.op, (ast.Add, ast.Sub)):
                continue
            for t in (st.targets if isinstance(st, ast.Assign) else [st.target]):
                if not (isinstance(t, ast.Subscript) and isinstance(t.value, ast.Attribute) and t.value.attr == 'data' and full(t.slice)):
                    continue
                n += 1
                v = st.value
                is_zero = isinstance(v, ast.Constant) and v.value == 0 and v.value is not False
                has_data = carries_data(v, data_names_before(st.lineno))
                if is_zero or has_data:
                    r.ok(construct='%s:%s' % (fi.qualname, norm(st)[:50]), sample='%s: `%s`' % (fi.qualname, norm(st)[:70]))
                else:
                    r.bad(Finding('C02.const-all', _f(fi), norm(st)[:80], '%s: `%s` writes a value that is not coefficient data into every Taylor coefficient of `%s` '
                                                                          '(a constant belongs to coefficient 0 only)' % (fi.qualname, norm(st)[:70], norm(t.value.value)),
                                  fi.file, st.lineno))
    r.floor = 3
    r.stats = {'whole_array_stores': n}
    return r


def rule_cast_guard(ctx):
    r = RuleResult('C08.cast-guard', 'a lossy conversion of a whole coefficient array (`.real`, `.astype(float)` of `X.data`) is guarded by a test over the whole '
                                     'array: deciding from the zeroth coefficient only drops the imaginary parts of the higher-order coefficients')
    m = ctx.model
    cu = m.cls('UTPM')
    n = 0
    for name, fi in sorted(cu.methods.items()):
        for iff in walk_no_nested(fi.node):
            if not isinstance(iff, ast.If):
                continue
            casts = []
            for st in iff.body:
                for x in ast.walk(st):
                    # X.data.real  /  X.data.astype(<real dtype>)
                    if isinstance(x, ast.Attribute) and x.attr == 'real' and isinstance(x.value, ast.Attribute) and x.value.attr == 'data' \
                            and isinstance(x.value.value, ast.Name):
                        casts.append((x.value.value.id, x))
            if not casts:
                continue
            for obj, x in casts:
                n += 1
                tested = [s_ for s_ in ast.walk(iff.test) if isinstance(s_, ast.Attribute) and s_.attr == 'data' and isinstance(s_.value, ast.Name) and s_.value.id == obj]
                if not tested:
                    r.bad(Finding('C08.cast-guard', _f(fi), '%s:untested:%s' % (obj, norm(iff.test)[:50]),
                                  'UTPM.%s drops the imaginary part of `%s` (`%s`) under a test that never looks at `%s.data` (`%s`): a real spectrum does not '
                                  'make the other array real' % (name, obj, norm(x)[:40], obj, norm(iff.test)[:60]), fi.file, iff.lineno))
                    continue
                partial = [s_ for s_ in ast.walk(iff.test) if isinstance(s_, ast.Subscript) and isinstance(s_.value, ast.Attribute) and s_.value.attr == 'data'
                           and isinstance(s_.value.value, ast.Name) and s_.value.value.id == obj]
                whole = len(tested) > len(partial)
                if partial and not whole:
                    r.bad(Finding('C08.cast-guard', _f(fi), '%s:%s' % (obj, norm(iff.test)[:60]),
                                  'UTPM.%s drops the imaginary part of every coefficient of `%s` (`%s`) after testing only `%s`'
                                  % (name, obj, norm(x)[:40], norm(partial[0])), fi.file, iff.lineno))
                else:
                    r.ok(construct='%s:%s' % (name, obj), sample='UTPM.%s: `%s` only after `%s` over the whole array' % (name, norm(x)[:40], norm(iff.test)[:60]))
    r.floor = 2
    return r


def rule_operand_order(ctx):
    r = RuleResult('C02.operand-order', 'in the non-commutative operators (-, /, //, -=, /=) the left operand of every subtraction/division and the first '
                                        'argument of the division kernels derives from `self`, the right one from the other operand - followed '
                                        'through _broadcast_arrays (first result <- first argument) and local copies')
    m = ctx.model
    ops = ['__sub__', '__truediv__', '__floordiv__', '__isub__', '__itruediv__', '__add__', '__iadd__']
    for name in ops:
        fi = m.lookup_method('UTPM', name)
        if fi is None:
            r.unknown('UTPM.' + name, 'operator vanished')
            continue
        other = fi.params[1]
        prov = {'self': {'self'}, other: {'rhs'}}

        def pv(e):
            out = set()
            for n_ in ast.walk(e):
                if isinstance(n_, ast.Name) and n_.id in prov:
                    out |= prov[n_.id]
            return out

        n_sites = 0

        def judge(left, right, node, what):
            nonlocal n_sites
            pl, pr = pv(left), pv(right)
            if not pl or not pr or not (pl | pr) >= {'self', 'rhs'}:
                return
            n_sites += 1
            if pl == {'rhs'} and pr == {'self'}:
                r.bad(Finding('C02.operand-order', _f(fi), '%s:%s' % (name, what), 'UTPM.%s: the left operand of `%s` derives from `%s` and the right one from `self` '
                                                                                   '(operands swapped)' % (name, norm(node)[:70], other), fi.file, node.lineno))
            elif pl == {'self'} and pr == {'rhs'}:
                r.ok(construct='%s@%d' % (name, node.lineno), nontrivial=True, sample='UTPM.%s: `%s` is (self-derived) op (%s-derived)' % (name, norm(node)[:60], other))

        def sites(st):
            nonlocal n_sites
            for n_ in ast.walk(st):
                if isinstance(n_, ast.BinOp) and isinstance(n_.op, (ast.Sub, ast.Div, ast.FloorDiv)):
                    judge(n_.left, n_.right, n_, type(n_.op).__name__)
                elif isinstance(n_, ast.AugAssign) and isinstance(n_.op, (ast.Sub, ast.Div, ast.FloorDiv)):
                    judge(n_.target, n_.value, n_, 'aug' + type(n_.op).__name__)
                elif isinstance(n_, ast.AugAssign) and isinstance(n_.op, ast.Add) and isinstance(n_.target, ast.Subscript) \
                        and _first_index_is_zero(n_.target):
                    # `z[0] += c[0]`: the constant operand meets coefficient 0 of the polynomial operand - not symmetric
                    judge(n_.target, n_.value, n_, 'augAdd0')
                elif isinstance(n_, ast.Call) and (dotted_name(n_.func) or '') in ('numpy.add', 'numpy.subtract', 'numpy.multiply', 'numpy.divide') \
                        and name.startswith('__i') and any(k.arg == 'out' for k in n_.keywords):
                    # in-place operator: the array written must be (a view of) self's data
                    o_ = [k.value for k in n_.keywords if k.arg == 'out'][0]
                    po = pv(o_)
                    if po:
                        n_sites += 1
                        if po == {'rhs'}:
                            r.bad(Finding('C02.operand-order', _f(fi), '%s:out' % name, 'UTPM.%s writes its result into `%s`, which derives from `%s`, not from self'
                                          % (name, norm(o_), other), fi.file, n_.lineno))
                        else:
                            r.ok(construct='%s:out@%d' % (name, n_.lineno), sample='UTPM.%s writes into `%s` (self-derived)' % (name, norm(o_)))
                elif isinstance(n_, ast.Call) and isinstance(n_.func, ast.Attribute) and n_.func.attr in ('_truediv', '_floordiv', '_itruediv') and len(n_.args) >= 2:
                    judge(n_.args[0], n_.args[1], n_, n_.func.attr)
                elif isinstance(n_, ast.Call) and (dotted_name(n_.func) or '') in ('numpy.subtract', 'numpy.divide', 'numpy.true_divide', 'numpy.floor_divide') \
                        and len(n_.args) >= 2:
                    judge(n_.args[0], n_.args[1], n_, (dotted_name(n_.func) or '').split('.')[-1])
                elif isinstance(n_, ast.Call) and (dotted_name(n_.func) or '') == 'numpy.add' and len(n_.args) >= 2 and not name.startswith('__i') \
                        and isinstance(n_.args[0], ast.Subscript) and _first_index_is_zero(n_.args[0]):
                    judge(n_.args[0], n_.args[1], n_, 'add0')

        # one pass in source order: the branches of the operand-kind chain are exclusive and each (re)binds its locals
        # before using them, so the provenance at a statement is the one established by the textually preceding bindings
        simple = [st for st in walk_no_nested(fi.node) if isinstance(st, (ast.Assign, ast.AugAssign, ast.Return, ast.Expr))]
        simple.sort(key=lambda st: (st.lineno, st.col_offset))
        for st in simple:
            sites(st)
            if isinstance(st, ast.Expr) and isinstance(st.value, ast.Call):
                cc = st.value
                dst, srcs = None, []
                if (dotted_name(cc.func) or '') == 'numpy.copyto' and len(cc.args) >= 2:
                    dst, srcs = cc.args[0], [cc.args[1]]
                elif any(k.arg == 'out' for k in cc.keywords):
                    dst, srcs = [k.value for k in cc.keywords if k.arg == 'out'][0], list(cc.args)
                if dst is not None:
                    b_ = dst
                    while isinstance(b_, (ast.Subscript, ast.Attribute)):
                        b_ = b_.value
                    if isinstance(b_, ast.Name) and b_.id not in ('self',):
                        add = set()
                        for s_ in srcs:
                            add |= pv(s_)
                        prov[b_.id] = prov.get(b_.id, set()) | add
            if isinstance(st, ast.Assign):
                t = st.targets[0]
                v = st.value
                if isinstance(t, (ast.Tuple, ast.List)) and isinstance(v, ast.Call) and (dotted_name(v.func) or '').split('.')[-1] in ('_broadcast_arrays', 'broadcast_arrays') \
                        and len(v.args) == len(t.elts):
                    for e_, a_ in zip(t.elts, v.args):
                        if isinstance(e_, ast.Name):
                            prov[e_.id] = set(pv(a_))
                elif isinstance(t, ast.Name):
                    if isinstance(v, ast.Call) and (dotted_name(v.func) or '').split('.')[-1] in ('promote_types', 'result_type', 'zeros', 'empty', 'zeros_like', 'empty_like', 'shape'):
                        prov[t.id] = set()
                    else:
                        prov[t.id] = pv(v)
                elif isinstance(t, ast.Subscript):
                    b_ = t.value
                    while isinstance(b_, (ast.Subscript, ast.Attribute)):
                        b_ = b_.value
                    if isinstance(b_, ast.Name) and b_.id not in ('self',):
                        prov[b_.id] = prov.get(b_.id, set()) | pv(v)
        if n_sites == 0 and name in ('__add__', '__iadd__'):
            r.ok(construct=name + ':symmetric', sample='UTPM.%s: no asymmetric use of the operands' % name)
        elif n_sites == 0:
            r.unknown(fi.site(), 'no subtraction/division between operand-derived values found')
    r.floor = 8
    return r


SELECTORS = {'argmax', 'argmin', 'argsort', 'nonzero', 'flatnonzero', 'where', 'searchsorted', 'argwhere'}


def rule_select_zeroth(ctx):
    r = RuleResult('C10.select-zeroth', 'data-dependent selections in the forward kernels (numpy.argmax / argmin / argsort / where / nonzero ...) look at zeroth '
                                        'coefficients only: which element is the maximum, which entries are zero, is decided at the base point like '
                                        'NumPy would decide it for the values')
    m = ctx.model
    ci = m.cls('RawAlgorithmsMixIn')
    if ci is None:
        raise AnalysisError('C10.select-zeroth', ALGO, 'class RawAlgorithmsMixIn vanished')
    n = 0
    for name, fi in sorted(ci.methods.items()):
        if name.startswith('_pb_') or name.endswith('_pullback'):
            continue
        for c in walk_no_nested(fi.node):
            if not (isinstance(c, ast.Call) and (dotted_name(c.func) or '').split('.')[-1] in SELECTORS and (dotted_name(c.func) or '').split('.')[0] in ('numpy', 'scipy')):
                continue
            subs = [s_ for a in list(c.args) + [k.value for k in c.keywords] for s_ in ast.walk(a)
                    if isinstance(s_, ast.Subscript) and isinstance(s_.value, ast.Name) and s_.value.id.endswith('_data')]
            for s_ in subs:
                f0 = s_.slice.elts[0] if isinstance(s_.slice, ast.Tuple) and s_.slice.elts else s_.slice
                n += 1
                if isinstance(f0, ast.Constant) and f0.value == 0 and f0.value is not False:
                    r.ok(construct='%s:%s' % (fi.qualname, norm(c)[:50]), sample='%s: `%s` selects on the zeroth coefficient' % (fi.qualname, norm(c)[:70]))
                elif isinstance(f0, ast.Constant) and isinstance(f0.value, int):
                    r.bad(Finding('C10.select-zeroth', _f(fi), norm(c)[:80], '%s selects with `%s` on coefficient %d of `%s`, not on the zeroth coefficient'
                                  % (fi.qualname, norm(c)[:60], f0.value, s_.value.id), fi.file, c.lineno))
                else:
                    r.unknown(fi.site(c), 'selection `%s` on a non-constant coefficient index' % norm(c)[:60])
    r.floor = 3
    return r


def rule_wrap_order(ctx):
    r = RuleResult('C-wrap-order', 'a UTPM method hands its operands to a kernel in the kernel\'s parameter order: no operand is passed at the position '
                                   'of a parameter that carries the name of another operand of the same call (x/y, l/Q, a/b, a_min/a_max swapped)')
    m = ctx.model
    cu, ca = m.cls('UTPM'), m.cls('RawAlgorithmsMixIn')
    if cu is None or ca is None:
        raise AnalysisError('C-wrap-order', UTPM_MOD, 'class vanished')

    def stem(e):
        while isinstance(e, ast.Subscript):
            e = e.value
        if isinstance(e, ast.Attribute) and e.attr == 'data' and isinstance(e.value, ast.Name):
            return e.value.id.lower()
        if isinstance(e, ast.Name):
            return e.id.lower()
        return None

    n = 0
    for name, fi in sorted(cu.methods.items()):
        if name.startswith('pb_'):
            continue
        for c in walk_no_nested(fi.node):
            if not (isinstance(c, ast.Call) and isinstance(c.func, ast.Attribute) and isinstance(c.func.value, ast.Name)
                    and c.func.value.id in ('cls', 'self', 'UTPM') and c.func.attr.startswith('_') and not c.func.attr.startswith('__')):
                continue
            k = ca.methods.get(c.func.attr)
            if k is None or any(isinstance(a, ast.Starred) for a in c.args):
                continue
            kparams = k.value_params()
            kstems = [(p_[:-5] if p_.endswith('_data') else p_).lower() for p_ in kparams]
            probs = []
            passed = [stem(a) for a in c.args]
            for i, st in enumerate(passed):
                if st is None or i >= len(kstems):
                    continue
                if st in kstems and kstems.index(st) != i and kstems[i] != st and kstems[i] in passed:
                    probs.append('passes `%s` as argument %d of %s, whose parameter %d is `%s` and whose `%s` is parameter %d'
                                 % (norm(c.args[i]), i, k.name, i, kparams[i], st, kstems.index(st)))
            # kinds: a `.data` array handed to a scalar parameter while a plain name goes to a `*_data` parameter
            for i, a in enumerate(c.args):
                if i < len(kparams) and isinstance(a, ast.Attribute) and a.attr == 'data' and not kparams[i].endswith('_data') and kparams[i] not in ('out', 'work'):
                    for j, b in enumerate(c.args):
                        if j < len(kparams) and j != i and isinstance(b, ast.Name) and kparams[j].endswith('_data'):
                            probs.append('passes the array `%s` for the scalar parameter `%s` and the plain argument `%s` for the array parameter `%s`'
                                         % (norm(a), kparams[i], b.id, kparams[j]))
            n += 1
            if probs:
                r.bad(Finding('C-wrap-order', _f(fi), '%s->%s' % (name, k.name), 'UTPM.%s %s' % (name, probs[0]), fi.file, c.lineno))
            else:
                r.ok(construct='%s->%s@%d' % (name, k.name, n), sample='UTPM.%s -> %s(%s)' % (name, k.name, ', '.join(norm(a) for a in c.args)[:60]))
    r.floor = 60
    return r


def rule_alloc(ctx):
    r = RuleResult('C13.alloc', 'zeros/ones with a Taylor-polynomial dtype allocate (D,P)+shape with (D,P) taken from the dtype object; ones sets '
                                'coefficient 0 only; zeros_like/ones_like delegate with the array\'s shape')
    m = ctx.model
    for name in ('zeros', 'ones'):
        fi = m.func('algopy.globalfuncs', name)
        vp = fi.value_params()
        shape_p = vp[0] if vp else 'shape'
        dtype_p = vp[1] if len(vp) > 1 else 'dtype'
        body = None
        for n in ast.walk(fi.node):
            if isinstance(n, ast.If) and norm(n.test) in ('isinstance(%s, UTPM)' % dtype_p, 'isinstance(%s, algopy.UTPM)' % dtype_p):
                body = n.body
        if body is None:
            r.unknown(fi.site(), 'UTPM-dtype branch not found')
            continue
        txt = ' ; '.join(norm(s_) for s_ in body)
        holder = ast.Module(body=body, type_ignores=[])
        # names bound to (D, P) of the dtype object
        dp = None
        for st in ast.walk(holder):
            if isinstance(st, ast.Assign) and len(st.targets) == 1 and isinstance(st.targets[0], ast.Tuple) and len(st.targets[0].elts) == 2 \
                    and all(isinstance(e, ast.Name) for e in st.targets[0].elts) \
                    and norm(st.value) in ('%s.data.shape[:2]' % dtype_p, 'numpy.shape(%s.data)[:2]' % dtype_p):
                dp = [e.id for e in st.targets[0].elts]
        probs = []
        if dp is None:
            probs.append('(D, P) is not taken from %s.data.shape[:2]' % dtype_p)
        allocs = [c for c in ast.walk(holder) if isinstance(c, ast.Call) and (dotted_name(c.func) or '') in ('numpy.zeros', 'numpy.empty', 'numpy.ones', 'numpy.full')]
        good = [c for c in allocs if c.args and isinstance(c.args[0], ast.BinOp) and isinstance(c.args[0].op, ast.Add)
                and isinstance(c.args[0].left, ast.Tuple) and dp is not None and [norm(e) for e in c.args[0].left.elts] == dp
                and norm(c.args[0].right) in (shape_p, 'tuple(%s)' % shape_p)]
        if not good or len(good) != len(allocs):
            probs.append('the coefficient array is not allocated as numpy.zeros((D, P) + shape, ...)')
        elif dotted_name(good[0].func) != 'numpy.zeros':
            probs.append('the coefficient array is allocated with `%s`, not with zeros' % dotted_name(good[0].func))
        if name == 'ones':
            st = [s_ for s_ in ast.walk(holder) if isinstance(s_, ast.Assign) and isinstance(s_.targets[0], ast.Subscript)]
            if not (len(st) == 1 and _first_index_is_zero(st[0].targets[0]) and isinstance(st[0].value, ast.Constant) and st[0].value.value == 1):
                probs.append('ones does not set exactly coefficient 0 to 1')
        if probs:
            for pm in probs:
                r.bad(Finding('C13.alloc', _f(fi), name + ':' + pm[:40], '%s with a UTPM dtype: %s' % (name, pm), fi.file, fi.lineno))
        else:
            r.ok(construct=name, sample='%s(UTPM dtype): %s' % (name, txt[:100]))
    for name, tgt in (('zeros_like', 'zeros'), ('ones_like', 'ones')):
        fi = m.func('algopy.globalfuncs', name)
        vp = fi.value_params()
        a_p = vp[0] if vp else 'a'
        rets = [n for n in walk_no_nested(fi.node) if isinstance(n, ast.Return)]
        ok = bool(rets)
        for ret in rets:
            c = ret.value
            if not (isinstance(c, ast.Call) and isinstance(c.func, ast.Name) and c.func.id == tgt):
                ok = False
                continue
            shp = c.args[0] if c.args else next((k.value for k in c.keywords if k.arg == 'shape'), None)
            if shp is None or norm(shp) not in ('%s.shape' % a_p, 'numpy.shape(%s)' % a_p):
                ok = False
        if ok:
            r.ok(construct=name, sample='%s delegates to %s(%s.shape, ...)' % (name, tgt, a_p))
        else:
            r.bad(Finding('C13.alloc', _f(fi), name, '%s does not delegate to %s with the array\'s shape' % (name, tgt), fi.file, fi.lineno))
    r.floor = 4
    return r
