"""
E7 - symbolic shape checker ("dimension typing") for the linear-algebra kernels, their pullbacks and wrappers.

The tests exercise these functions with square (often symmetric) matrices only, so a transposition on the wrong side,
`x_shp[-1:]` where `y_shp[-1:]` is meant, or `dot(zbar, x)` where `dot(zbar.T, x)` is meant go unnoticed: for N == M the
shapes still agree.  Here every function is interpreted over *symbolic* shapes: the parameters get the shapes of a
declared signature whose dimension symbols (N, K, M, ...) are pairwise different; every NumPy operation contributes its
shape rule (dot: inner dimensions equal; element-wise: broadcastable; store: value fits the target; inv/solve: square;
a kernel call: the callee's declared signature).  Two *different declared symbols* that are required to be equal are a
violation - it is a shape error for every non-square input, or, where NumPy happens to broadcast, a silently wrong value.

Unknown constructs evaluate to "unknown" and constrain nothing (no alarm); the number of constraints that were decided
with both sides known is reported, with a floor.
"""
import ast

from .model import dotted_name, norm, walk_no_nested


class U:
    """an unknown dimension (unifies with anything)"""
    n = 0

    def __init__(self):
        U.n += 1
        self.k = U.n

    def __repr__(self):
        return '?%d' % self.k


def is_known(d):
    return isinstance(d, (int, str))


class Ctx:
    def __init__(self, fi, alt_name):
        self.fi = fi
        self.alt = alt_name
        self.bind = {}          # U -> dim
        self.conflicts = []     # (node, text)
        self.decided = 0
        self.samples = []

    def res(self, d):
        while isinstance(d, U) and d in self.bind:
            d = self.bind[d]
        return d

    def same(self, a, b):
        """unify two dimensions; False on a conflict between two known, different dimensions"""
        a, b = self.res(a), self.res(b)
        if a is b or a == b and is_known(a):
            if is_known(a):
                self.decided += 1
            return True
        if isinstance(a, U):
            self.bind[a] = b
            return True
        if isinstance(b, U):
            self.bind[b] = a
            return True
        self.decided += 1
        return False

    def fmt(self, shp):
        if shp is None:
            return '?'
        return '(' + ', '.join(str(self.res(d)) for d in shp) + (',' if len(shp) == 1 else '') + ')'

    def conflict(self, node, text):
        self.conflicts.append((node, text))


# value kinds: ('arr', dims) | ('shp', dims) | ('int', dim) | ('tup', [values]) | ('obj', dims)  [UTPM object: dims of .data] | None
def arr(dims):
    return ('arr', tuple(dims))


class Interp:
    def __init__(self, model, fi, env, ctx, sigs):
        self.m = model
        self.fi = fi
        self.env = dict(env)
        self.ctx = ctx
        self.sigs = sigs

    # ------------------------------------------------------------------ expressions
    def shape_of(self, n):
        v = self.ev(n)
        if v is not None and v[0] in ('arr',):
            return v[1]
        return None

    def ev(self, n):
        c = self.ctx
        if n is None:
            return None
        if isinstance(n, ast.Constant):
            if isinstance(n.value, bool):
                return arr(())
            if isinstance(n.value, int):
                return ('int', n.value)
            if isinstance(n.value, (float, complex)):
                return arr(())
            return None
        if isinstance(n, ast.Name):
            return self.env.get(n.id)
        if isinstance(n, ast.UnaryOp):
            v = self.ev(n.operand)
            if v is not None and v[0] == 'int' and isinstance(n.op, ast.USub) and isinstance(v[1], int):
                return ('int', -v[1])
            return v if v is not None and v[0] == 'arr' else None
        if isinstance(n, ast.Attribute):
            if n.attr == 'T':
                v = self.ev(n.value)
                if v is not None and v[0] == 'obj':
                    return ('obj', tuple(v[1][:2]) + tuple(reversed(v[1][2:])))
                return arr(tuple(reversed(v[1]))) if v is not None and v[0] == 'arr' else None
            if n.attr == 'shape':
                v = self.ev(n.value)
                if v is not None and v[0] == 'arr':
                    return ('shp', v[1])
                if v is not None and v[0] == 'obj':
                    return ('shp', v[1][2:])
                return None
            if n.attr == 'data':
                v = self.ev(n.value)
                if v is not None and v[0] == 'obj':
                    return arr(v[1])
                return None
            if n.attr in ('real', 'imag'):
                return self.ev(n.value)
            if n.attr == 'ndim':
                v = self.ev(n.value)
                return ('int', len(v[1])) if v is not None and v[0] == 'arr' else None
            return None
        if isinstance(n, ast.Tuple):
            vals = [self.ev(e) for e in n.elts]
            if all(v is not None and v[0] == 'int' for v in vals):
                return ('shp', tuple(v[1] for v in vals))
            return ('tup', vals)
        if isinstance(n, ast.Subscript):
            return self.subscript(n)
        if isinstance(n, ast.BinOp):
            a, b = self.ev(n.left), self.ev(n.right)
            if isinstance(n.op, ast.Add) and a is not None and b is not None and a[0] == 'shp' and b[0] == 'shp':
                return ('shp', a[1] + b[1])
            if a is not None and b is not None and a[0] == 'int' and b[0] == 'int':
                if isinstance(a[1], int) and isinstance(b[1], int):
                    try:
                        return ('int', {ast.Add: a[1] + b[1], ast.Sub: a[1] - b[1], ast.Mult: a[1] * b[1]}[type(n.op)])
                    except KeyError:
                        return ('int', U())
                da, db = c.res(a[1]), c.res(b[1])
                if isinstance(n.op, ast.Sub) and isinstance(da, str) and isinstance(db, str) and da != db and '-' not in da + db:
                    return ('int', '%s-%s' % (da, db))        # a derived extent (N-M): equal only to itself
                if isinstance(n.op, ast.Mult) and isinstance(da, str) and isinstance(db, str) and '-' not in da + db and '.' not in da + db:
                    # a product of extents (the length of a merged axis): a commutative product, written with sorted factors
                    return ('int', '*'.join(sorted(da.split('*') + db.split('*'))))
                return ('int', U())
            if isinstance(n.op, ast.MatMult):
                return self.dot(n, a, b)
            if (a is not None and a[0] == 'obj') or (b is not None and b[0] == 'obj'):
                # arithmetic of Taylor-polynomial objects broadcasts their element axes
                def el(v):
                    if v is None:
                        return None
                    if v[0] == 'obj':
                        return tuple(v[1][2:])
                    if v[0] == 'arr':
                        return tuple(v[1])
                    if v[0] in ('int', 'idx'):
                        return ()
                    return None
                ea, eb = el(a), el(b)
                if ea is None or eb is None:
                    return None
                r = self.broadcast(n, ea, eb)
                dp = (a if a[0] == 'obj' else b)[1][:2]
                return ('obj', tuple(dp) + tuple(r)) if r is not None else None
            sa = a[1] if a is not None and a[0] == 'arr' else (() if a is not None and a[0] in ('int', 'idx') else None)
            sb = b[1] if b is not None and b[0] == 'arr' else (() if b is not None and b[0] in ('int', 'idx') else None)
            if sa is None or sb is None:
                return None
            r = self.broadcast(n, sa, sb)
            return arr(r) if r is not None else None
        if isinstance(n, ast.Call):
            return self.call(n)
        if isinstance(n, ast.IfExp):
            tv = self.truth(n.test)
            if tv is None and norm(n.test) in getattr(self.ctx, 'facts', {}):
                tv = self.ctx.facts[norm(n.test)]
            if tv is not None:
                return self.ev(n.body if tv else n.orelse)
            a, b = self.ev(n.body), self.ev(n.orelse)
            return a if a == b else None
        return None

    def broadcast(self, node, sa, sb, what='element-wise operation'):
        c = self.ctx
        out = []
        la, lb = len(sa), len(sb)
        for i in range(1, max(la, lb) + 1):
            da = sa[-i] if i <= la else 1
            db = sb[-i] if i <= lb else 1
            da, db = c.res(da), c.res(db)
            if da == 1 and not isinstance(da, U):
                out.append(db)
            elif db == 1 and not isinstance(db, U):
                out.append(da)
            elif c.same(da, db):
                out.append(c.res(da))
            else:
                c.conflict(node, '%s of shapes %s and %s: dimensions %s and %s differ (`%s`)' % (what, c.fmt(sa), c.fmt(sb), da, db, norm(node)[:70]))
                out.append(U())
        return tuple(reversed(out))

    def fits(self, node, target, value, what='store'):
        """value is broadcast into target"""
        c = self.ctx
        if target is None or value is None:
            return
        lt, lv = len(target), len(value)
        for i in range(1, lv + 1):
            dv = c.res(value[-i])
            if i > lt:
                if dv == 1 and not isinstance(dv, U):
                    continue
                c.conflict(node, '%s: value of shape %s does not fit the target of shape %s (`%s`)' % (what, c.fmt(value), c.fmt(target), norm(node)[:70]))
                return
            dt = c.res(target[-i])
            if dv == 1 and not isinstance(dv, U):
                continue
            if not c.same(dt, dv):
                c.conflict(node, '%s: value of shape %s does not fit the target of shape %s - dimensions %s and %s differ (`%s`)'
                           % (what, c.fmt(value), c.fmt(target), dv, dt, norm(node)[:70]))
                return
        if lv and lt:
            c.samples.append('%s: `%s`  %s <- %s' % (self.fi.qualname, norm(node)[:60], c.fmt(target), c.fmt(value)))

    def subscript(self, n):
        base = self.ev(n.value)
        if base is None:
            return None
        sl = n.slice
        if base[0] in ('shp',):
            dims = base[1]
            if isinstance(sl, ast.Slice):
                lo = self.ev(sl.lower) if sl.lower is not None else ('int', None)
                hi = self.ev(sl.upper) if sl.upper is not None else ('int', None)
                if sl.step is not None or lo is None or hi is None or lo[0] != 'int' or hi[0] != 'int':
                    return None
                if not (lo[1] is None or isinstance(lo[1], int)) or not (hi[1] is None or isinstance(hi[1], int)):
                    return None
                return ('shp', dims[slice(lo[1], hi[1])])
            i = self.ev(sl)
            if i is not None and i[0] == 'int' and isinstance(i[1], int) and -len(dims) <= i[1] < len(dims):
                return ('int', dims[i[1]])
            return None
        if base[0] == 'tup':
            i = self.ev(sl)
            if i is not None and i[0] == 'int' and isinstance(i[1], int) and -len(base[1]) <= i[1] < len(base[1]):
                return base[1][i[1]]
            return None
        if base[0] == 'obj':
            # indexing a Taylor-polynomial object addresses its element axes; the coefficient and direction axes stay in front
            saved = self.env.get('<objtmp>')
            self.env['<objtmp>'] = arr(base[1][2:])
            fake = ast.copy_location(ast.Subscript(value=ast.Name(id='<objtmp>', ctx=ast.Load()), slice=sl, ctx=ast.Load()), n)
            r_ = self.subscript(fake)
            if saved is None:
                self.env.pop('<objtmp>', None)
            else:
                self.env['<objtmp>'] = saved
            return ('obj', tuple(base[1][:2]) + tuple(r_[1])) if r_ is not None and r_[0] == 'arr' else None
        if base[0] != 'arr':
            return None
        dims = list(base[1])
        elts = list(sl.elts) if isinstance(sl, ast.Tuple) else [sl]
        n_ell = sum(1 for e in elts if isinstance(e, ast.Constant) and e.value is Ellipsis)
        if n_ell > 1:
            return None
        n_new = sum(1 for e in elts if (isinstance(e, ast.Constant) and e.value is None) or norm(e) == 'numpy.newaxis')
        consumed = len(elts) - n_ell - n_new
        if consumed > len(dims):
            self.ctx.conflict(n, 'too many indices for an array of shape %s: `%s`' % (self.ctx.fmt(base[1]), norm(n)[:60]))
            return None
        out = []
        pos = 0
        for e in elts:
            if isinstance(e, ast.Constant) and e.value is Ellipsis:
                k = len(dims) - consumed
                out.extend(dims[pos:pos + k])
                pos += k
            elif (isinstance(e, ast.Constant) and e.value is None) or norm(e) == 'numpy.newaxis':
                out.append(1)
            elif isinstance(e, ast.Slice):
                if e.lower is None and e.upper is None and e.step is None:
                    out.append(dims[pos])
                elif e.lower is None and e.step is None and self._is_dim(e.upper, dims[pos]):
                    out.append(dims[pos])
                elif e.step is None and (e.lower is None or norm(e.lower) == '0') and e.upper is not None \
                        and (self.ev(e.upper) or (None,))[0] == 'int' and isinstance(self.ctx.res(self.ev(e.upper)[1]), str):
                    out.append(self.ctx.res(self.ev(e.upper)[1]))      # x[:N]: the leading N entries of that axis
                elif e.step is None and e.upper is None and e.lower is not None and (self.ev(e.lower) or (None,))[0] == 'int' \
                        and isinstance(self.ctx.res(self.ev(e.lower)[1]), str) and isinstance(self.ctx.res(dims[pos]), str) \
                        and '-' not in self.ctx.res(self.ev(e.lower)[1]) + self.ctx.res(dims[pos]) and self.ctx.res(self.ev(e.lower)[1]) != self.ctx.res(dims[pos]):
                    out.append('%s-%s' % (self.ctx.res(dims[pos]), self.ctx.res(self.ev(e.lower)[1])))      # x[M:] on an axis of extent N
                else:
                    out.append(U())
                pos += 1
            else:
                v = self.ev(e)
                if v is not None and v[0] == 'arr' and len(v[1]) > 0:
                    return None         # fancy indexing
                if v is not None and v[0] == 'idx' and pos < len(dims):
                    ax = self.ctx.res(dims[pos])
                    if isinstance(ax, str) and '-' not in ax and '-' not in v[1] and not self.ctx.same(ax, v[1]):
                        rel = getattr(self.ctx, 'order', {})
                        small = rel.get((ax, v[1])) or rel.get((v[1], ax))
                        if small != v[1]:       # running over the smaller extent is always in range
                            self.ctx.conflict(n, 'the index `%s` runs over an extent %s but indexes an axis of extent %s: `%s`' % (norm(e), v[1], ax, norm(n)[:60]))
                pos += 1
        out.extend(dims[pos:])
        return arr(out)

    def _is_dim(self, node, dim):
        v = self.ev(node)
        return v is not None and v[0] == 'int' and is_known(self.ctx.res(v[1])) and self.ctx.res(v[1]) == self.ctx.res(dim)

    def dot(self, node, a, b):
        c = self.ctx
        if a is None or b is None or a[0] != 'arr' or b[0] != 'arr':
            return None
        sa, sb = a[1], b[1]
        if len(sa) == 0 or len(sb) == 0:
            return arr(self.broadcast(node, sa, sb))
        inner_a = sa[-1]
        inner_b = sb[-2] if len(sb) >= 2 else sb[0]
        if not c.same(inner_a, inner_b):
            c.conflict(node, 'dot of shapes %s and %s: inner dimensions %s and %s differ (`%s`)'
                       % (c.fmt(sa), c.fmt(sb), c.res(inner_a), c.res(inner_b), norm(node)[:70]))
        else:
            c.samples.append('%s: `%s`  %s . %s' % (self.fi.qualname, norm(node)[:60], c.fmt(sa), c.fmt(sb)))
        rest_b = sb[:-2] + sb[-1:] if len(sb) >= 2 else ()
        return arr(sa[:-1] + rest_b)

    def square(self, node, s, what):
        c = self.ctx
        if s is None or len(s) < 2:
            return
        if not c.same(s[-1], s[-2]):
            c.conflict(node, '%s of a matrix of shape %s: not square (`%s`)' % (what, c.fmt(s), norm(node)[:70]))

    # ------------------------------------------------------------------ calls
    def call(self, n):
        c = self.ctx
        d = dotted_name(n.func) or ''
        last = n.func.attr if isinstance(n.func, ast.Attribute) else d.split('.')[-1]
        kw = {k.arg: k.value for k in n.keywords if k.arg}
        args = list(n.args)
        if last == '_transpose' and d.split('.')[0] in ('cls', 'self', 'UTPM') and args:
            s_ = self.shape_of(args[0])
            if s_ is None or len(s_) < 2:
                return None
            return arr(s_[:2] + tuple(reversed(s_[2:])))
        if last in ('__zeros__', '__zeros_like__') and args:
            v = self.ev(args[0])
            if v is not None and v[0] == 'shp':
                return arr(v[1])
            if v is not None and v[0] == 'arr':
                return arr(v[1])
            return None
        if last == '_shape' and args:
            v = self.ev(args[0])
            return ('shp', v[1]) if v is not None and v[0] == 'arr' else None
        if d in ('UTPM.dot', 'cls.dot') and len(args) >= 2:
            a, b = self.ev(args[0]), self.ev(args[1])
            if a is not None and b is not None and a[0] == 'obj' and b[0] == 'obj':
                r_ = self.dot(n, arr(a[1][2:]), arr(b[1][2:]))
                return ('obj', tuple(a[1][:2]) + tuple(r_[1])) if r_ is not None else None
            return None
        if isinstance(n.func, ast.Attribute) and last == 'reshape' and args:
            recv = self.ev(n.func.value)
            shp = self.ev(args[0]) if len(args) == 1 else ('shp', tuple((self.ev(a_) or ('int', U()))[1] if (self.ev(a_) or ('x',))[0] == 'int' else U() for a_ in args))
            if recv is not None and recv[0] == 'obj' and shp is not None and shp[0] == 'shp':
                return ('obj', tuple(recv[1][:2]) + tuple(shp[1]))
            if recv is not None and recv[0] == 'arr' and shp is not None and shp[0] == 'shp':
                return arr(self.reshape_dims(n, tuple(recv[1]), tuple(shp[1])))
        if isinstance(n.func, ast.Name) and n.func.id in ('cls', 'UTPM') and len(args) == 1:
            v = self.ev(args[0])
            return ('obj', v[1]) if v is not None and v[0] == 'arr' else None
        # kernels / helpers with a declared signature
        if (d.split('.')[0] in ('cls', 'self', 'UTPM') and d.count('.') == 1 and last in self.sigs) or (isinstance(n.func, ast.Name) and n.func.id in self.sigs):
            return self.sig_call(n, last if last in self.sigs else n.func.id, args, kw)
        if d in ('numpy.ndim',) and args:
            v = self.ev(args[0])
            return ('int', len(v[1])) if v is not None and v[0] == 'arr' else None
        if d in ('numpy.shape',) and args:
            v = self.ev(args[0])
            return ('shp', v[1]) if v is not None and v[0] == 'arr' else None
        if d in ('len',) and args:
            v = self.ev(args[0])
            if v is not None and v[0] == 'shp':
                return ('int', len(v[1]))
            if v is not None and v[0] == 'arr' and v[1]:
                return ('int', v[1][0])
            return None
        if d in ('min', 'max') and len(args) == 1:
            v = self.ev(args[0])
            if v is not None and v[0] == 'shp' and len(v[1]) == 2:
                a, b = ('int', v[1][0]), ('int', v[1][1])
                da, db = c.res(a[1]), c.res(b[1])
                if is_known(da) and da == db:
                    return ('int', da)
                rel = getattr(c, 'order', {})
                if (da, db) in rel or (db, da) in rel:
                    small = rel.get((da, db)) or rel.get((db, da))
                    return ('int', small if d == 'min' else (db if small == da else da))
                return ('int', U())
            return None
        if d in ('min', 'max') and len(args) == 2:
            a, b = self.ev(args[0]), self.ev(args[1])
            if a is not None and b is not None and a[0] == 'int' and b[0] == 'int':
                da, db = c.res(a[1]), c.res(b[1])
                if is_known(da) and da == db:
                    return ('int', da)
                rel = getattr(c, 'order', {})
                if (da, db) in rel or (db, da) in rel:
                    small = rel.get((da, db)) or rel.get((db, da))
                    return ('int', small if d == 'min' else (db if small == da else da))
                return ('int', U())
            return None
        if d.startswith('numpy.') or d.startswith('scipy.'):
            if last in ('dot',) and len(args) >= 2:
                r = self.dot(n, self.ev(args[0]), self.ev(args[1]))
                self._out(n, kw, r)
                return r
            if last == 'outer' and len(args) >= 2:
                a, b = self.shape_of(args[0]), self.shape_of(args[1])
                if a is None or b is None:
                    return None
                if len(a) != 1 or len(b) != 1:
                    return arr((U(), U()))
                return arr((a[0], b[0]))
            if last in ('transpose',) and args:
                s = self.shape_of(args[0])
                ax = args[1] if len(args) > 1 else kw.get('axes')
                return self.transpose(n, s, ax)
            if last in ('inv', 'pinv') and args:
                s = self.shape_of(args[0])
                self.square(n, s, 'inverse')
                return arr(s) if s is not None else None
            if last == 'solve' and len(args) >= 2:
                A, b = self.shape_of(args[0]), self.shape_of(args[1])
                self.square(n, A, 'solve')
                if A is not None and b is not None and len(A) >= 2 and len(b) >= 1:
                    if not c.same(A[-1], b[0]):
                        c.conflict(n, 'solve with a matrix of shape %s and a right-hand side of shape %s: dimensions %s and %s differ (`%s`)'
                                   % (c.fmt(A), c.fmt(b), c.res(A[-1]), c.res(b[0]), norm(n)[:70]))
                return arr(b) if b is not None else None
            if last in ('zeros', 'empty', 'ones') and args:
                v = self.ev(args[0])
                if v is not None and v[0] == 'shp':
                    return arr(v[1])
                if v is not None and v[0] == 'int':
                    return arr((v[1],))
                return None
            if last in ('zeros_like', 'empty_like', 'ones_like', 'copy', 'abs', 'absolute', 'negative', 'conj', 'conjugate', 'real', 'imag', 'sqrt', 'exp',
                        'log', 'sign', 'tril', 'triu', 'asarray', 'array', 'ascontiguousarray', 'nan_to_num', 'square', 'reciprocal') and args:
                s = self.shape_of(args[0])
                return arr(s) if s is not None else None
            if last == 'eye' and args:
                v = self.ev(args[0])
                if v is not None and v[0] == 'int':
                    w = self.ev(args[1]) if len(args) > 1 else v
                    return arr((v[1], w[1] if w is not None and w[0] == 'int' else U()))
                return None
            if last in ('sum', 'prod', 'mean', 'max', 'min', 'amax', 'amin') and args:
                s = self.shape_of(args[0])
                ax = args[1] if len(args) > 1 else kw.get('axis')
                if s is None:
                    return None
                if ax is None:
                    return arr(())
                a_ = self.ev(ax)
                if a_ is not None and a_[0] == 'int' and isinstance(a_[1], int) and -len(s) <= a_[1] < len(s):
                    k = a_[1] % len(s)
                    return arr(s[:k] + s[k + 1:])
                return None
            if last == 'trace' and args:
                s = self.shape_of(args[0])
                return arr(s[2:]) if s is not None and len(s) >= 2 and not kw and len(args) == 1 else None
            if last in ('add', 'subtract', 'multiply', 'divide', 'true_divide') and len(args) >= 2:
                a, b = self.shape_of(args[0]), self.shape_of(args[1])
                r = arr(self.broadcast(n, a, b)) if a is not None and b is not None else None
                if len(args) >= 3 and 'out' not in kw:
                    kw = dict(kw, out=args[2])
                self._out(n, kw, r)
                return r
            if last == 'diag' and args:
                s = self.shape_of(args[0])
                if s is not None and len(s) == 1 and not kw and len(args) == 1:
                    return arr((s[0], s[0]))
                return None
            return None
        # methods of arrays
        if isinstance(n.func, ast.Attribute):
            recv = self.ev(n.func.value)
            if recv is not None and recv[0] == 'arr':
                s = recv[1]
                if last in ('copy', 'conj', 'conjugate', 'astype', 'view'):
                    return arr(s)
                if last == 'transpose':
                    ax = args[0] if len(args) == 1 else (ast.Tuple(elts=args, ctx=ast.Load()) if args else None)
                    return self.transpose(n, s, ax)
                if last == 'dot' and args:
                    return self.dot(n, recv, self.ev(args[0]))
                if last in ('sum',):
                    ax = args[0] if args else kw.get('axis')
                    if ax is None:
                        return arr(())
                    a_ = self.ev(ax)
                    if a_ is not None and a_[0] == 'int' and isinstance(a_[1], int) and -len(s) <= a_[1] < len(s):
                        k = a_[1] % len(s)
                        return arr(s[:k] + s[k + 1:])
                    return None
            if recv is not None and recv[0] == 'obj' and last in ('zeros_like', 'copy', 'clone'):
                return recv
        return None

    def _out(self, n, kw, r):
        o = kw.get('out')
        if o is not None and r is not None and r[0] == 'arr':
            self.fits(n, self.shape_of(o), r[1], what='out= of `%s`' % (dotted_name(n.func) or '?'))

    def reshape_dims(self, node, src, tgt):
        """C-order reshape with merged axes kept apart by order: merging a run of source axes (D, P, K) into one of length D*P*K gives the
        ordered extent 'D.P.K'; splitting such an extent again must give the axes back in that order - `(.., P, D, K)` interleaves the data"""
        c = self.ctx
        src = tuple(c.res(d_) for d_ in src)
        out = []
        tgt = [c.res(d_) for d_ in tgt]
        # split: a run of plain target extents whose product is an ordered merged source extent
        merged_src = [d_ for d_ in src if isinstance(d_, str) and '.' in d_]
        i = 0
        while i < len(tgt):
            t = tgt[i]
            done = False
            if isinstance(t, str) and '*' in t:
                fac = sorted(t.split('*'))
                for k in range(len(src)):
                    for l in range(k + 2, len(src) + 1):
                        run = src[k:l]
                        if all(isinstance(x, str) and '.' not in x and '*' not in x and '-' not in x for x in run) and sorted(run) == fac:
                            out.append('.'.join(run))
                            done = True
                            break
                    if done:
                        break
            if not done:
                for ms in merged_src:
                    parts = ms.split('.')
                    run = tgt[i:i + len(parts)]
                    if len(run) == len(parts) and all(isinstance(x, str) for x in run) and sorted(run) == sorted(parts):
                        if list(run) != parts:
                            c.conflict(node, 'reshape splits the merged axis (%s) as (%s): the axes were merged in the order (%s), C-order reshaping gives '
                                             'them back in that order only (`%s`)' % (', '.join(parts), ', '.join(run), ', '.join(parts), norm(node)[:70]))
                        else:
                            c.decided += 1
                        out.extend(run)
                        i += len(parts) - 1
                        done = True
                        break
            if not done:
                out.append(t)
            i += 1
        return tuple(out)

    def transpose(self, node, s, ax):
        if s is None:
            return None
        if ax is None:
            return arr(tuple(reversed(s)))
        if isinstance(ax, ast.Tuple) and all(isinstance(e, ast.Constant) and isinstance(e.value, int) for e in ax.elts) and len(ax.elts) == len(s):
            return arr(tuple(s[e.value] for e in ax.elts))
        return None

    def sig_call(self, n, name, args, kw):
        """a call of a function with declared signatures: some alternative must accept the argument shapes"""
        c = self.ctx
        alts = self.sigs[name]
        fails = []
        for alt in alts:
            params = alt['params']
            saved_bind, saved_dec = dict(c.bind), c.decided
            local = {}

            def inst(dims):
                out = []
                for d_ in dims:
                    if isinstance(d_, str):
                        out.append(local.setdefault(d_, U()))
                    else:
                        out.append(d_)
                return tuple(out)
            ok = True
            why = None
            # keyword arguments use the callee's current parameter names; the table is keyed by the declared ones
            today = getattr(c, 'callee_names', {}).get(name, {})
            bound = list(zip([p for p in alt['order']], args)) + [(today.get(k, k), v) for k, v in kw.items()]
            for pname, a in bound:
                want = params.get(pname)
                if want is None:
                    continue
                if want and want[0] == 'tuple':
                    got = self.ev(a)
                    comps = got[1] if got is not None and got[0] == 'tup' else None
                    if comps is None:
                        continue
                    for w_, g_ in zip(want[1], comps):
                        gs = g_[1] if g_ is not None and g_[0] == 'arr' else None
                        if gs is None or w_ is None:
                            continue
                        wi = inst(w_)
                        if len(wi) != len(gs) or not all(c.same(x, y) for x, y in zip(wi, gs)):
                            ok, why = False, 'component of `%s` has shape %s, expected %s' % (pname, c.fmt(gs), c.fmt(wi))
                            break
                    if not ok:
                        break
                    continue
                gs = self.shape_of(a)
                if gs is None:
                    continue
                wi = inst(want)
                if len(wi) != len(gs):
                    ok, why = False, 'argument `%s` has rank %d, expected %d' % (pname, len(gs), len(wi))
                    break
                for x, y in zip(wi, gs):
                    if not c.same(x, y):
                        ok, why = False, 'argument `%s` = `%s` has shape %s, expected %s' % (pname, norm(a)[:40], c.fmt(gs), c.fmt(wi))
                        break
                if not ok:
                    break
            if ok:
                c.samples.append('%s: call `%s` accepted as %s' % (self.fi.qualname, norm(n)[:60], alt.get('name', name)))
                ret = alt.get('ret')
                if ret is None:
                    return None
                if ret and ret[0] == 'tuple':
                    return ('tup', [arr(inst(r_)) if r_ is not None else None for r_ in ret[1]])
                return arr(inst(ret))
            fails.append(why)
            c.bind, c.decided = saved_bind, saved_dec + 1
        if any(f is not None and 'rank' not in f for f in fails) or all(f is not None for f in fails):
            best = [f for f in fails if f is not None and 'rank' not in f] or [f for f in fails if f]
            c.conflict(n, 'call of %s: no declared signature accepts the argument shapes (%s): `%s`' % (name, best[0] if best else '?', norm(n)[:70]))
        return None

    def truth(self, t):
        """truth of a test on ranks / literal integers; None when not decided"""
        if isinstance(t, ast.Constant) and isinstance(t.value, bool):
            return t.value
        facts = getattr(self.ctx, 'facts', {})
        if facts:
            if norm(t) in facts:
                return facts[norm(t)]
            # `x is not None` is the negation of the declared fact `x is None` (and the other way round)
            if isinstance(t, ast.Compare) and len(t.ops) == 1 and isinstance(t.ops[0], (ast.Is, ast.IsNot, ast.Eq, ast.NotEq)):
                flip = {ast.Is: ast.IsNot, ast.IsNot: ast.Is, ast.Eq: ast.NotEq, ast.NotEq: ast.Eq}[type(t.ops[0])]
                alt = norm(ast.Compare(left=t.left, ops=[flip()], comparators=t.comparators))
                if alt in facts:
                    return not facts[alt]
        if isinstance(t, ast.Compare) and len(t.ops) == 1:
            a, b = self.ev(t.left), self.ev(t.comparators[0])
            if a is not None and b is not None and a[0] == 'int' and b[0] == 'int':
                da, db = self.ctx.res(a[1]), self.ctx.res(b[1])
                rel = getattr(self.ctx, 'order', {})
                small = rel.get((da, db)) or rel.get((db, da)) if isinstance(da, str) and isinstance(db, str) else None
                if small is not None and da != db:
                    strict = getattr(self.ctx, 'strict', False)
                    op = type(t.ops[0])
                    if small == da:         # da <= db (< if strict)
                        table = {ast.Lt: True if strict else None, ast.LtE: True, ast.Gt: False, ast.GtE: False if strict else None,
                                 ast.Eq: False if strict else None, ast.NotEq: True if strict else None}
                    else:                   # db <= da
                        table = {ast.Gt: True if strict else None, ast.GtE: True, ast.Lt: False, ast.LtE: False if strict else None,
                                 ast.Eq: False if strict else None, ast.NotEq: True if strict else None}
                    return table.get(op)
            if a is not None and b is not None and a[0] == 'int' and b[0] == 'int' and isinstance(a[1], int) and isinstance(b[1], int):
                op = t.ops[0]
                table = {ast.Eq: a[1] == b[1], ast.NotEq: a[1] != b[1], ast.Lt: a[1] < b[1], ast.LtE: a[1] <= b[1], ast.Gt: a[1] > b[1], ast.GtE: a[1] >= b[1]}
                return table.get(type(op))
        if isinstance(t, ast.UnaryOp) and isinstance(t.op, ast.Not):
            v = self.truth(t.operand)
            return None if v is None else not v
        if isinstance(t, ast.BoolOp):
            vals = [self.truth(v) for v in t.values]
            if isinstance(t.op, ast.And):
                if any(v is False for v in vals):
                    return False
                return True if all(v is True for v in vals) else None
            if any(v is True for v in vals):
                return True
            return False if all(v is False for v in vals) else None
        return None

    # ------------------------------------------------------------------ statements
    def run(self, body):
        for st in body:
            if getattr(self, 'done', False):
                return
            self.stmt(st)

    def bind_target(self, t, v, st):
        if isinstance(t, ast.Name):
            self.env[t.id] = v
        elif isinstance(t, (ast.Tuple, ast.List)):
            if v is not None and v[0] == 'shp':
                if len(v[1]) == len(t.elts):
                    for e, d_ in zip(t.elts, v[1]):
                        self.bind_target(e, ('int', d_), st)
                else:
                    self.ctx.conflict(st, 'unpacking a shape of length %d into %d names: `%s`' % (len(v[1]), len(t.elts), norm(st)[:70]))
                    for e in t.elts:
                        self.bind_target(e, None, st)
            elif v is not None and v[0] == 'tup' and len(v[1]) == len(t.elts):
                for e, x in zip(t.elts, v[1]):
                    self.bind_target(e, x, st)
            else:
                for e in t.elts:
                    self.bind_target(e, None, st)
        elif isinstance(t, ast.Subscript):
            tv = self.ev(t)
            if tv is not None and tv[0] == 'obj' and v is not None and v[0] == 'obj':
                self.fits(st, tuple(tv[1][2:]), tuple(v[1][2:]))
                return
            ts = self.shape_of(t)
            if v is not None and v[0] == 'arr':
                self.fits(st, ts, v[1])
            elif v is not None and v[0] == 'int':
                pass

    def stmt(self, st):
        if isinstance(st, ast.Assign):
            v = self.ev(st.value)
            for t in st.targets:
                self.bind_target(t, v, st)
        elif isinstance(st, ast.AugAssign):
            v = self.ev(st.value)
            tv = self.ev(st.target)
            if tv is not None and tv[0] == 'obj' and v is not None and v[0] == 'obj':
                self.fits(st, tuple(tv[1][2:]), tuple(v[1][2:]), what='in-place update')
                return
            ts = self.shape_of(st.target)
            if v is not None and v[0] == 'arr' and ts is not None:
                self.fits(st, ts, v[1], what='in-place update')
        elif isinstance(st, ast.Expr):
            self.ev(st.value)
        elif isinstance(st, ast.For):
            rng = None
            if isinstance(st.target, ast.Name) and isinstance(st.iter, ast.Call) and isinstance(st.iter.func, ast.Name) and st.iter.func.id == 'range' \
                    and len(st.iter.args) == 1:
                b = self.ev(st.iter.args[0])
                if b is not None and b[0] == 'int' and isinstance(self.ctx.res(b[1]), str):
                    rng = self.ctx.res(b[1])
            if rng is not None:
                self.env[st.target.id] = ('idx', rng)          # an index that runs over the whole extent `rng`
            elif isinstance(st.target, ast.Name):
                self.env[st.target.id] = ('int', U())
            elif isinstance(st.target, ast.Tuple):
                for e in st.target.elts:
                    if isinstance(e, ast.Name):
                        self.env[e.id] = ('int', U())
            self.run(st.body)
        elif isinstance(st, ast.If):
            # a branch that only raises is input validation: the code after it runs with the test false
            if all(isinstance(b, ast.Raise) for b in st.body) and not st.orelse:
                return
            t = norm(st.test)
            taken = getattr(self.ctx, 'facts', {})
            if t in taken:
                self.run(st.body if taken[t] else st.orelse)
                return
            tv = self.truth(st.test)
            if tv is not None:
                self.run(st.body if tv else st.orelse)
                return
            before = dict(self.env)
            self.undecided = getattr(self, 'undecided', 0) + 1
            self.run(st.body)
            e1 = self.env
            self.env = dict(before)
            self.run(st.orelse)
            e2 = self.env
            self.undecided -= 1
            merged = {}
            for k in set(e1) | set(e2):
                merged[k] = e1.get(k) if e1.get(k) == e2.get(k) else (e1.get(k) if k not in e2 else (e2.get(k) if k not in e1 else None))
            self.env = merged
        elif isinstance(st, ast.Return):
            v = self.ev(st.value) if st.value is not None else None
            self.env['<return>'] = v
            if not getattr(self, 'undecided', 0):
                self.done = True        # reached on a path whose tests were all decided: nothing after it runs
        elif isinstance(st, (ast.With, ast.Try)):
            self.run(st.body)
            if isinstance(st, ast.Try):
                self.run(st.finalbody)


def check_function(model, fi, alt, sigs, callee_names=None):
    """interpret fi under one alternative of its declared signature -> Ctx"""
    ctx = Ctx(fi, alt.get('name', fi.name))
    ctx.callee_names = callee_names or {}
    ctx.order = alt.get('order_rel', {})
    ctx.strict = alt.get('strict', False)
    ctx.facts = alt.get('facts', {})
    env = {}
    for p, dims in alt['params'].items():
        if dims is None:
            continue
        if dims and dims[0] == 'tuple':
            env[p] = ('tup', [arr(d_) if d_ is not None else None for d_ in dims[1]])
        elif dims and dims[0] == 'tuple_obj':
            # the output tuple of a pullback wrapper: one Taylor polynomial per operand (the tracer's protocol)
            env[p] = ('tup', [('obj', tuple(d_[1])) if d_ is not None else None for d_ in dims[1]])
        elif dims and dims[0] == 'obj':
            env[p] = ('obj', tuple(dims[1]))
        elif dims and dims[0] == 'int':
            env[p] = ('int', dims[1])
        else:
            env[p] = arr(dims)
    it = Interp(model, fi, env, ctx, sigs)
    it.run(fi.node.body)
    want = alt.get('ret')
    got = it.env.get('<return>')
    if want is not None and got is not None and got[0] == 'arr' and want and want[0] != 'tuple':
        if len(want) == len(got[1]):
            for a, b in zip(want, got[1]):
                if not ctx.same(a, b):
                    ctx.conflict(fi.node, 'returns an array of shape %s, declared %s' % (ctx.fmt(got[1]), ctx.fmt(want)))
                    break
    return ctx
