"""
Shared framework: findings, rule results, known-findings matching, evidence.
"""
import json
import os
import time

VERIF = os.path.dirname(os.path.dirname(os.path.abspath(__file__)))
KNOWN = os.path.join(VERIF, 'known_findings.jsonl')


class Finding:
    """A positive piece of evidence that a rule instance is broken.
    key = (rule, module:function, construct) - never a line number."""

    def __init__(self, rule, func, construct, message, file=None, line=None, severity='VIOLATION', extra=None):
        self.rule = rule
        self.func = func              # 'algopy.utpm.utpm:UTPM.pb_prod'
        self.construct = construct    # normalised statement text / parameter name
        self.message = message
        self.file = file
        self.line = line // 100000 if isinstance(line, int) and line >= 100000 else line      # model.LINE_SCALE
        self.severity = severity      # VIOLATION | NOTE
        self.extra = extra or {}

    @property
    def key(self):
        return '%s|%s|%s' % (self.rule, self.func, self.construct)

    def as_dict(self):
        return {'rule': self.rule, 'function': self.func, 'construct': self.construct,
                'message': self.message, 'file': self.file, 'line': self.line,
                'severity': self.severity, 'key': self.key, 'extra': self.extra}


class Unknown:
    def __init__(self, rule, site, reason):
        self.rule, self.site, self.reason = rule, site, reason


class RuleResult:
    def __init__(self, rule, decides):
        self.rule = rule
        self.decides = decides        # one sentence: what this rule decides
        self.instances = 0            # obligations checked
        self.holding = 0
        self.nontrivial = set()       # distinct constructs needing a non-trivial derivation
        self.samples = []
        self.findings = []
        self.unknowns = []
        self.notes = []
        self.floor = 0
        self.stats = {}

    def ok(self, construct=None, sample=None, nontrivial=False):
        self.instances += 1
        self.holding += 1
        if nontrivial and construct is not None:
            self.nontrivial.add(construct)
        if sample is not None and len(self.samples) < 4:
            self.samples.append(sample)

    def bad(self, finding):
        self.instances += 1
        self.findings.append(finding)
        self.nontrivial.add(finding.construct)

    def unknown(self, site, reason):
        self.instances += 1
        self.unknowns.append(Unknown(self.rule, site, reason))

    def note(self, text):
        if text not in self.notes:
            self.notes.append(text)


def load_known():
    """-> {key: record}; lines starting with 'fixed:' or '#' are documentation"""
    out = {}
    if not os.path.exists(KNOWN):
        return out
    for ln in open(KNOWN, encoding='utf-8'):
        ln = ln.strip()
        if not ln or ln.startswith('#') or ln.startswith('fixed:'):
            continue
        rec = json.loads(ln)
        out[rec['key']] = rec
    return out


def write_evidence(prop, tier, results, wall, violations, known_hits, explanation, assumptions,
                   extra_cov=None, selftest=None):
    seed = int(os.environ.get('VERIF_SEED', '0') or 0)
    obligations = sum(r.instances for r in results)
    discharged = sum(r.holding for r in results)
    nontriv = set()
    for r in results:
        for c in r.nontrivial:
            nontriv.add((r.rule, c))
    samples = []
    for r in results:
        for s in r.samples[:3]:
            samples.append({'rule': r.rule, 'obligation': s})
    cov = {
        'explanation': explanation,
        'obligations': obligations,
        'discharged': discharged,
        'evaluations': obligations,
        'distinct_nontrivial': len(nontriv),
        'rule': 'one evaluation = one rule instance (obligation) derived from /repo\'s current source; '
                'non-trivial = needed an interprocedural summary, an index/weight derivation or a resolved call chain, '
                'counted per distinct (rule, construct)',
        'samples': samples[:24],
        'rules': [{'rule': r.rule, 'decides': r.decides, 'instances': r.instances, 'holding': r.holding,
                   'floor': r.floor, 'findings': [f.as_dict() for f in r.findings],
                   'unknown': [{'site': u.site, 'reason': u.reason} for u in r.unknowns],
                   'notes': r.notes, 'stats': r.stats} for r in results],
        'known_findings_matched': known_hits,
        'exhaustive': False,
    }
    if extra_cov:
        cov.update(extra_cov)
    if selftest is not None:
        cov['selftest'] = selftest
    ev = {
        'property_id': prop,
        'tier': tier,
        'seed': seed,
        'level': 'other',
        'coverage': cov,
        'assumptions': assumptions,
        'wall_s': round(wall, 3),
        'violations': violations,
    }
    d = os.environ.get('VERIF_EVIDENCE_DIR') or os.path.join(VERIF, 'evidence')
    os.makedirs(d, exist_ok=True)
    with open(os.path.join(d, prop + '.json'), 'w') as fh:
        json.dump(ev, fh, indent=1, sort_keys=True, default=str)
    return ev


def write_replay(prop, n, finding):
    d = os.environ.get('VERIF_REPLAY_DIR') or os.path.join(VERIF, 'replay')
    os.makedirs(d, exist_ok=True)
    path = os.path.join(d, '%s-%d.json' % (prop, n))
    with open(path, 'w') as fh:
        json.dump({'property': prop, 'finding': finding.as_dict()}, fh, indent=1)
    return path
