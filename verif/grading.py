"""
E2 - graded-recurrence checker for Taylor coefficient kernels.

In R[t]/(t^D) every coefficient array carries a weight on its leading axis:
entry j of an array with offset `off` has weight j + off.  A kernel statement
that defines output coefficient e must be *homogeneous* (every additive term
is a product whose weights add up to the target weight, O3), must stay inside
the arrays (O1), may only read what is already available (O2) and its
summation ranges must be *maximal* - extending a range by one step at either
end must leave the admissible index domain or hit a vanishing factor (O4).

The interpreter is syntax directed over the idioms used by this repository
(slices, reversed slices, list comprehensions, explicit inner loops, work
arrays, numpy.sum/add/dot with out=).  Anything else is reported as UNKNOWN
(never as a violation).  Violations of O1/O2/O4 are reported only with a
concrete witness valuation found by bounded enumeration of the *index model*
(no code of the repository is executed).
"""
import ast
import copy
from .affine import Aff, Ranges, to_aff, prove_nonneg, prove_le, lower_bound, find_witness
from .model import dotted_name, norm, walk_no_nested

ANY = 'ANY'          # weight wildcard (zero array)


class Bot:
    def __init__(self, why):
        self.why = why

    def __repr__(self):
        return 'Bot(%s)' % self.why


class Read:
    """one read of coefficient array `arr` at axis-0 index `idx`; `asg` is the set of
    arrays that had already been assigned for the current order when the read was
    evaluated (availability is judged at evaluation time, not when a work array
    holding the value is consumed)"""
    __slots__ = ('arr', 'idx', 'node', 'asg', 'seq', 'loops', 'branch', 'cons')
    current_assigned = frozenset()
    current_seq = 0
    current_loops = ()
    current_branch = ()
    current_cons = ()

    def __init__(self, arr, idx, node, asg=None, seq=None, loops=None, branch=None, cons=None):
        self.arr, self.idx, self.node = arr, idx, node
        self.asg = Read.current_assigned if asg is None else asg
        self.seq = Read.current_seq if seq is None else seq
        self.loops = Read.current_loops if loops is None else loops
        self.branch = Read.current_branch if branch is None else branch
        self.cons = Read.current_cons if cons is None else cons


class Val:
    """abstract value of an expression.
    kind: 'w'    single weight (Aff or ANY) - an array/scalar without d axis
          'fam'  stack along axis 0: weight(pos) = start + step*pos, pos in [0, length)
                 (posvar names the position variable used inside `start`-free form)
          'bot'  unknown
    reads: list of Read; factors: list of Aff (explicit scalar factors)"""

    def __init__(self, kind, w=None, reads=None, factors=None, posvar=None, length=None, why=None, whole=None):
        self.kind = kind
        self.w = w
        self.reads = list(reads or [])
        self.factors = list(factors or [])
        self.posvar = posvar
        self.length = length
        self.why = why
        self.whole = whole      # name of the graded array when the value is that whole array (series-level use)

    @staticmethod
    def scalar(reads=None, factors=None):
        return Val('w', Aff.const(0), reads, factors)

    @staticmethod
    def bot(why, reads=None):
        return Val('bot', None, reads, why=why)


class GVar:
    """a graded array variable: entry j has weight j + off; `length` entries"""

    def __init__(self, name, off, length, role='local', scaled=False, zero_init=False):
        self.name = name
        self.off = off
        self.length = length
        self.role = role            # 'in' | 'out' | 'local'
        self.scaled = scaled        # index-scaled: entry of weight 0 is (conceptually) zero / never to be read
        self.zero_init = zero_init


class Issue:
    def __init__(self, ob, verdict, func, node, msg, witness=None):
        self.ob, self.verdict, self.func, self.node, self.msg, self.witness = ob, verdict, func, node, msg, witness


# kernels that take whole series and return whole series (series-level ops):
# name -> (indices of series arguments, 'ret' kind)
SERIES_OPS = {
    '_mul': ([0, 1], 'series'), '_amul': ([0, 1], None), '_truediv': ([0, 1], 'series'),
    '_reciprocal': ([0], 'series'), '_square': ([0], 'series'), '_exp': ([0], 'series'), '_sqrt': ([0], 'series'),
    '_log': ([0], 'series'), '_pow_real': ([0], 'series'), '_plus_const': ([0], 'series'), '_dawsn': ([0], 'series'),
    '_dot': ([0, 1], 'series'), '_transpose': ([0], 'series'), '_diag': ([0], 'series'),
    '_polygamma': ([1], 'series'), '_hyperu': ([2], 'series'), '_negative': ([0], 'series'),
    '_solve': ([0, 1], 'series'), '_inv': ([0], 'series'),
    '_black_f_white_fprime': ([1, 2], 'series'), '_eval_slow_generic': ([1], 'series'),
    '_qr_rectangular': ([0], None), '_qr': ([0], None), '_iouter': ([0, 1], None),
}

LINEAR_UNARY = {'diag', 'tril', 'triu', 'transpose', 'trace', 'conjugate', 'real', 'imag', 'fft', 'ifft',
                'ravel', 'reshape', 'asarray', 'array', 'copy', 'negative', 'tile', 'nan_to_num', 'squeeze'}
BILINEAR = {'dot', 'outer', 'multiply', 'kron', 'inner', 'tensordot', 'matmul', 'vdot'}
ADDITIVE = {'add', 'subtract'}
META_FUNCS = {'shape', 'ndim', 'size', 'len', 'isscalar', 'result_type', 'promote_types', 'isinstance', 'type',
              'min_scalar_type', 'iscomplexobj', 'isrealobj', 'str', 'repr', 'print', 'may_share_memory', 'shares_memory'}
NONLINEAR_FUNCS = {'exp', 'log', 'sqrt', 'sin', 'cos', 'tan', 'arcsin', 'arccos', 'arctan', 'sinh', 'cosh', 'tanh', 'expm1', 'log1p',
                   'reciprocal', 'power', 'abs', 'absolute', 'sign', 'inv', 'cholesky', 'qr', 'eigh', 'eig', 'svd', 'lu', 'lu_factor',
                   'erf', 'erfi', 'dawsn', 'gammaln', 'psi', 'polygamma', 'logit', 'expit', 'clip', 'maximum', 'minimum'}
WEIGHT0_FUNCS = None   # any other library call requires weight-0 arguments and yields weight 0


class KernelAnalysis:
    def __init__(self, fi, graded_params=None, raw_params=(), extra_dsyms=(), model=None, extra_graded=()):
        self.fi = fi
        self.model = model
        self.issues = []
        self.obligations = 0
        self.discharged = 0
        self.samples = []
        self.stores = 0
        self.dsyms = set(extra_dsyms)
        self.dderived = {}          # name -> Aff in degree symbols (d = D-1)
        self.gvars = {}
        self.temps = {}             # name -> Val (kind 'w')
        self.aff_env = {}           # names with known affine values (d_half etc. not included)
        self.ranges = Ranges()
        self.loop_stack = []        # (var, lo, hi, desc)
        self.order_ctx = []         # stack of dicts for order loops: {'var', 'stored': {arr: first stmt index}, 'assigned': set()}
        self.raw_params = set(raw_params)
        self.unknown = []
        self.posn = 0
        self.scaled_later = set()
        self.guards_on_degree = []
        self.var_ranges = []        # every loop / position variable ever introduced: (uid, lo, hi) in creation order
        self.parity = None
        self.pending_o4 = []
        self.iter_stores = []
        self.seq = 0
        self.branch = []        # stack of (if-node id, arm)
        self.cons = []          # stack of constraints on loop variables: (uid, 'eq'|'ge'|'le', Aff)
        self.wlog = []      # writes: (array, ('idx', Aff) | ('fam', start, step, length), seq, loops, stmt)
        self.rlog = []      # reads : Read objects actually consumed by a store
        self.check_init = True      # O5 (forward kernels); pullback kernels accumulate into their out by contract
        self.defer_coverage = False  # O7 is run by the caller after helper analyses have been merged
        self.extra_graded = set(extra_graded)
        self._init_params(graded_params)
        for ds in extra_dsyms:
            # a parameter that receives the caller's truncation degree (number of coefficients)
            self.aff_env[ds] = Aff.var('#D')

    # ------------------------------------------------------------------ setup
    def _init_params(self, graded_params):
        fi = self.fi
        for p in fi.value_params():
            if p in self.raw_params:
                continue
            if graded_params is not None:
                if p in graded_params:
                    self._decl(p, 'in')
            elif p.endswith('_data') or p in self.extra_graded:
                self._decl(p, 'in')
            elif p == 'out' and not self._out_is_tuple():
                self._decl(p, 'out')

    def _out_is_tuple(self):
        # `out[0] = ...` / `out[d] /= d` stores into an array; a tuple of arrays is never stored into
        for st in walk_no_nested(self.fi.node):
            if isinstance(st, ast.Subscript) and isinstance(st.value, ast.Name) and st.value.id == 'out' and isinstance(st.ctx, ast.Store):
                return False
        for st in walk_no_nested(self.fi.node):
            if isinstance(st, ast.Assign) and isinstance(st.value, ast.Name) and st.value.id == 'out' \
                    and any(isinstance(t, (ast.Tuple, ast.List)) for t in st.targets):
                return True
            if isinstance(st, ast.Subscript) and isinstance(st.value, ast.Name) and st.value.id == 'out' \
                    and isinstance(st.slice, ast.Constant) and isinstance(st.slice.value, int):
                return True
        return False

    def _decl(self, name, role, off=0, length=None, scaled=False, zero_init=False):
        L = length if length is not None else Aff.var('#D')
        self.gvars[name] = GVar(name, Aff.const(off) if not isinstance(off, Aff) else off, L, role, scaled, zero_init)
        return self.gvars[name]

    def unk(self, node, why):
        self.unknown.append((node, why))

    def issue(self, ob, verdict, node, msg, witness=None):
        self.issues.append(Issue(ob, verdict, self.fi, node, msg, witness))

    # ---------------------------------------------------------- degree symbol
    def _maybe_degree_unpack(self, st):
        """D,P = x_data.shape[:2] / D = x_data.shape[0] / DT,P,M,N = numpy.shape(A_data) ..."""
        if not isinstance(st, ast.Assign) or len(st.targets) != 1:
            return False
        t, v = st.targets[0], st.value
        src = None
        if isinstance(v, ast.Subscript):
            b = v.value
            if isinstance(b, ast.Attribute) and b.attr == 'shape':
                src = b.value
            elif isinstance(b, ast.Call) and dotted_name(b.func) in ('numpy.shape',) and b.args:
                src = b.args[0]
        elif isinstance(v, ast.Attribute) and v.attr == 'shape':
            src = v.value
        elif isinstance(v, ast.Call) and dotted_name(v.func) in ('numpy.shape',) and v.args:
            src = v.args[0]
        elif isinstance(v, ast.Name) and v.id.endswith('_shp'):
            # D,P,M,N = A_shp  with  A_shp = A_data.shape
            for s2 in walk_no_nested(self.fi.node):
                if isinstance(s2, ast.Assign) and len(s2.targets) == 1 and isinstance(s2.targets[0], ast.Name) \
                        and s2.targets[0].id == v.id:
                    vv = s2.value
                    if isinstance(vv, ast.Attribute) and vv.attr == 'shape':
                        src = vv.value
                    elif isinstance(vv, ast.Call) and dotted_name(vv.func) == 'numpy.shape' and vv.args:
                        src = vv.args[0]
        if src is None:
            return False
        name = self._arr_name(src)
        if name is None or name not in self.gvars:
            return False
        first = None
        if isinstance(t, (ast.Tuple, ast.List)) and t.elts and isinstance(t.elts[0], ast.Name):
            if isinstance(v, ast.Subscript):
                sl = v.slice
                # shape[:k] or shape[0:k]
                if not (isinstance(sl, ast.Slice) and (sl.lower is None or (isinstance(sl.lower, ast.Constant) and sl.lower.value == 0))):
                    return False
            first = t.elts[0].id
        elif isinstance(t, ast.Name) and isinstance(v, ast.Subscript) and isinstance(v.slice, ast.Constant) and v.slice.value == 0:
            first = t.id
        if first is None:
            return False
        self.dsyms.add(first)
        self.aff_env[first] = Aff.var('#D') - self.gvars[name].length + self.gvars[name].length  # = #D symbolically
        self.aff_env[first] = self.gvars[name].length
        return True

    def _arr_name(self, node):
        """name under which an array expression is tracked: `x_data`, `L.data`, `self.data`"""
        if isinstance(node, ast.Name):
            return node.id
        if isinstance(node, ast.Attribute) and node.attr == 'data' and isinstance(node.value, ast.Name):
            return node.value.id + '.data'
        return None

    # ------------------------------------------------------------------ run
    def run(self):
        self.ranges = Ranges(symmin={'#D': 1})
        self._prescan_scaled()
        self.block(self.fi.node.body)
        if self.check_init:
            if not self.defer_coverage:
                self.finish_coverage()
            for st, name, why in init_hazards(self):
                self.obligations += 1
                self.issue('O5', 'VIOLATION', st, 'accumulates into `%s` before defining it (%s): the result includes the previous contents of the buffer '
                                                  '(a re-used `out`, numpy.empty): `%s`' % (name, why, norm(st)[:90]), {'array': name})
        return self

    def finish_coverage(self, extra_cover=None):
        """O7 (see coverage_gaps); extra_cover: {array: {D: indices stored by a helper this kernel delegates to}}"""
        gaps_ = coverage_gaps(self, extra_cover=extra_cover or {})
        self.obligations += self.coverage_checked - len(gaps_)
        self.discharged += self.coverage_checked - len(gaps_)
        if self.coverage_checked and len(self.samples) < 60:
            self.samples.append('%s: the stores of %d array(s) cover every coefficient index 0..D-1 for D = 1..5 (O7)' % (self.fi.qualname, self.coverage_checked))
        for arr, st, D_, gap, allg in gaps_:
            self.obligations += 1
            self.issue('O7', 'VIOLATION', st, 'coefficient%s %s of `%s` %s never stored for truncation degree D=%d: the loops over the order do not '
                                              'cover 0..D-1 (e.g. `%s`)' % ('s' if len(gap) > 1 else '', gap, arr, 'are' if len(gap) > 1 else 'is', D_, norm(st)[:80]),
                       {'array': arr, '#D': D_, 'missing': gap, 'gaps': allg})

    def _prescan_scaled(self):
        """arrays whose entries of index >= 1 are all multiplied/divided by their
        index in a *dedicated* loop (`for d in range(1,D): y[d] /= d`, `u_tilde[j] *= j`,
        `xtctilde[d-1] *= d`) are index-scaled while the recurrences run: their
        weight-0 entry is conceptually zero and never read"""
        for st in walk_no_nested(self.fi.node):
            if isinstance(st, ast.For) and isinstance(st.target, ast.Name):
                v = st.target.id
                names = []
                for b in st.body:
                    if isinstance(b, ast.AugAssign) and isinstance(b.op, (ast.Mult, ast.Div)) \
                            and isinstance(b.value, ast.Name) and b.value.id == v and isinstance(b.target, ast.Subscript):
                        nm = self._arr_name(b.target.value)
                        if nm:
                            names.append(nm)
                            continue
                    names = None
                    break
                if names:
                    self.scaled_later.update(names)

    # ---------------------------------------------------------------- blocks
    def block(self, body):
        for i, st in enumerate(body):
            split = self._split_ifexp(st)
            if split is not None and getattr(self, '_ifexp_depth', 0) < 4:
                # `x = A if c else B; rest`  ==  `if c: x = A; rest  else: x = B; rest` - the branch analysis
                # (refinement of loop variables, control-dependence check) then applies to the conditional value
                test, st_a, st_b = split
                node = ast.If(test=test, body=[st_a] + list(body[i + 1:]), orelse=[st_b] + list(body[i + 1:]))
                ast.copy_location(node, st)
                self._ifexp_depth = getattr(self, '_ifexp_depth', 0) + 1
                try:
                    self.stmt(node)
                finally:
                    self._ifexp_depth -= 1
                return
            self.stmt(st)

    @staticmethod
    def _split_ifexp(st):
        if not isinstance(st, (ast.Assign, ast.AugAssign, ast.Expr, ast.Return)):
            return None
        found = []

        def find(n):
            for c in ast.iter_child_nodes(n):
                if found:
                    return
                if isinstance(c, (ast.Lambda, ast.ListComp, ast.GeneratorExp, ast.SetComp, ast.DictComp)):
                    continue
                if isinstance(c, ast.IfExp):
                    found.append(c)
                    return
                find(c)
        find(st)
        if not found:
            return None
        target = found[0]

        out = []
        for arm in (target.body, target.orelse):
            # deep copy with the chosen arm in place of the conditional expression
            memo = {id(target): arm}
            out.append(copy.deepcopy(st, memo))
        return target.test, out[0], out[1]

    def stmt(self, st):
        asg = set()
        for c in self.order_ctx:
            asg |= c['assigned']
        Read.current_assigned = frozenset(asg)
        self.seq += 1
        Read.current_seq = self.seq
        Read.current_loops = tuple((c['var'], c['desc']) for c in self.order_ctx)
        Read.current_branch = tuple(self.branch)
        Read.current_cons = tuple(self.cons)
        if self._maybe_degree_unpack(st):
            return
        if isinstance(st, ast.Assign):
            # views of one coefficient of a graded array held in a local: later in-place updates of the local are stores
            if not hasattr(self, 'view_alias'):
                self.view_alias = {}
            for t_ in st.targets:
                for n_ in ast.walk(t_):
                    if isinstance(n_, ast.Name):
                        self.view_alias.pop(n_.id, None)
            if len(st.targets) == 1 and isinstance(st.targets[0], ast.Name) and isinstance(st.value, ast.Subscript) \
                    and self._arr_name(st.value.value) in self.gvars and st.targets[0].id not in self.gvars:
                import copy as _copy
                self.view_alias[st.targets[0].id] = _copy.deepcopy(st.value)
            return self.assign(st)
        if isinstance(st, ast.AugAssign):
            return self.augassign(st)
        if isinstance(st, ast.Expr):
            if isinstance(st.value, ast.Call):
                self.call_stmt(st.value, st)
            return
        if isinstance(st, ast.For):
            return self.for_loop(st)
        if isinstance(st, ast.If):
            return self.if_stmt(st)
        if isinstance(st, ast.While):
            self.unk(st, 'while loop in a graded kernel')
            return
        if isinstance(st, ast.Return):
            if isinstance(st.value, ast.Call) and any(k.arg == 'out' for k in st.value.keywords):
                self.call_stmt(st.value, st)
            return
        if isinstance(st, (ast.Raise, ast.Pass, ast.Assert, ast.Import, ast.ImportFrom, ast.FunctionDef)):
            return
        if isinstance(st, ast.With):
            return self.block(st.body)
        if isinstance(st, ast.Try):
            self.block(st.body)
            return

    # ------------------------------------------------------------------ loops
    def _range_of(self, it):
        """iteration space of `range(..)` forms -> (lo, hi, desc) inclusive Affs, or None"""
        desc = False
        node = it
        if isinstance(node, ast.Subscript) and isinstance(node.slice, ast.Slice) and node.slice.lower is None \
                and node.slice.upper is None and isinstance(node.slice.step, ast.UnaryOp) \
                and isinstance(node.slice.step.op, ast.USub) and isinstance(node.slice.step.operand, ast.Constant) \
                and node.slice.step.operand.value == 1:
            desc = True
            node = node.value
        if isinstance(node, ast.Call) and isinstance(node.func, ast.Name) and node.func.id == 'reversed' and node.args:
            desc = not desc
            node = node.args[0]
        if not (isinstance(node, ast.Call) and isinstance(node.func, ast.Name) and node.func.id == 'range'):
            return None
        a = [to_aff(x, self.aff_env) for x in node.args]
        if any(x is None for x in a):
            return None
        if len(a) == 1:
            return Aff.const(0), a[0] - 1, desc
        if len(a) == 2:
            return a[0], a[1] - 1, desc
        if len(a) == 3 and a[2].is_const:
            if a[2].c == 1:
                return a[0], a[1] - 1, desc
            if a[2].c == -1:
                return a[1] + 1, a[0], not desc
        return None

    def _unzip_ranges(self, st):
        """`for i, k in zip(range(..), range(..))` with unit steps and equal lengths -> the loop `for t in range(n): i = a1 +- t; k = a2 +- t; body`
        (one iteration variable, the targets affine in it); None if the form or the equality of the lengths is not established"""
        import copy
        it = st.iter
        if not (isinstance(st.target, ast.Tuple) and all(isinstance(t, ast.Name) for t in st.target.elts) and isinstance(it, ast.Call)
                and isinstance(it.func, ast.Name) and it.func.id == 'zip' and len(it.args) == len(st.target.elts) and not it.keywords):
            return None
        tname = '_zip%d' % st.lineno
        pro, lens = [], []
        for tgt, src in zip(st.target.elts, it.args):
            rev = False
            node = src
            if isinstance(node, ast.Call) and isinstance(node.func, ast.Name) and node.func.id == 'reversed' and len(node.args) == 1:
                rev, node = True, node.args[0]
            if isinstance(node, ast.Subscript) and isinstance(node.slice, ast.Slice) and node.slice.lower is None and node.slice.upper is None \
                    and node.slice.step is not None and norm(node.slice.step) == '-1':
                rev, node = not rev, node.value
            if not (isinstance(node, ast.Call) and isinstance(node.func, ast.Name) and node.func.id == 'range' and 1 <= len(node.args) <= 3 and not node.keywords):
                return None
            a = [copy.deepcopy(x) for x in node.args]
            if len(a) == 1:
                a = [ast.Constant(value=0), a[0]]
            step = 1
            if len(a) == 3:
                sa = to_aff(a[2], self.aff_env)
                if sa is None or not sa.is_const or sa.c not in (1, -1):
                    return None
                step = int(sa.c)
            lo, hi = a[0], a[1]
            T = ast.Name(id=tname, ctx=ast.Load())
            if step == 1:
                n_ = ast.BinOp(left=hi, op=ast.Sub(), right=lo)                 # range(lo, hi): lo, lo+1, ..
                first = lo if not rev else ast.BinOp(left=copy.deepcopy(hi), op=ast.Sub(), right=ast.Constant(value=1))
                asc = not rev
            else:
                n_ = ast.BinOp(left=lo, op=ast.Sub(), right=hi)                 # range(lo, hi, -1): lo, lo-1, ..
                first = lo if not rev else ast.BinOp(left=copy.deepcopy(hi), op=ast.Add(), right=ast.Constant(value=1))
                asc = rev
            val = ast.BinOp(left=copy.deepcopy(first), op=ast.Add() if asc else ast.Sub(), right=T)
            pro.append(ast.Assign(targets=[ast.Name(id=tgt.id, ctx=ast.Store())], value=val))
            lens.append(n_)
        la = [to_aff(x, self.aff_env) for x in lens]
        if any(x is None for x in la) or any(x != la[0] for x in la[1:]):
            return None
        loop = ast.For(target=ast.Name(id=tname, ctx=ast.Store()), iter=ast.Call(func=ast.Name(id='range', ctx=ast.Load()), args=[lens[0]], keywords=[]),
                       body=pro + list(st.body), orelse=[])
        for n in ast.walk(loop):
            if not hasattr(n, 'lineno'):
                n.lineno = st.lineno
                n.end_lineno = getattr(st, 'end_lineno', st.lineno)
                n.col_offset = st.col_offset
                n.end_col_offset = getattr(st, 'end_col_offset', st.col_offset)
        return loop

    def for_loop(self, st):
        if not isinstance(st.target, ast.Name):
            uz = self._unzip_ranges(st) if not st.orelse else None
            if uz is not None:
                return self.for_loop(uz)
            # e.g. `for nf, f in enumerate(...)`: not a coefficient loop
            self._walk_opaque(st)
            return
        var = st.target.id
        # a loop bound computed from coefficient values (e.g. "number of non-zero coefficients") makes the set of
        # terms depend on the data and on the truncation degree
        for n in ast.walk(st.iter):
            if isinstance(n, ast.Name) and n.id in self.temps and self.temps[n.id].reads:
                t = self.temps[n.id]
                rgs = self._all_ranges([r.idx for r in t.reads])
                for r in t.reads:
                    ga = self.gvars.get(r.arr)
                    if ga is None:
                        continue
                    w = ga.off + r.idx
                    if not prove_le(w, Aff.const(0), rgs):
                        self.obligations += 1
                        self.issue('CTRL', 'VIOLATION', st, 'the range of the loop `%s` depends on `%s`, which is computed from higher-order Taylor '
                                                            'coefficients (%s[%s]): which terms are summed depends on the data (zero patterns) and on '
                                                            'the truncation degree' % (norm(st.iter)[:60], n.id, r.arr, r.idx), {})
                        break
        rg = self._range_of(st.iter)
        if rg is None and any(isinstance(n, ast.Name) and n.id in self.temps and self.temps[n.id].reads for n in ast.walk(st.iter)):
            # reported above; analyse the body with the widest range that the expression allows (min(a, X) -> a)
            rg = self._range_of(_strip_minmax(st.iter, self.temps))
        if rg is None:
            # loops over non-range iterables (multi-indices, blocks): analyse body without a range
            if self._mentions_graded_index(st, var):
                self.unk(st, 'loop variable `%s` indexes a coefficient axis but its range is not a range() form' % var)
            saved = self.ranges
            self.block(st.body)
            self.ranges = saved
            return
        lo, hi, desc = rg
        parity = self._needs_parity(st, var)
        if parity:
            return self._for_parity(st, var, lo, hi, desc)
        return self._for_body(st, var, lo, hi, desc)

    def _mentions_graded_index(self, st, var):
        for n in ast.walk(st):
            if isinstance(n, ast.Subscript):
                nm = self._arr_name(n.value)
                if nm in self.gvars:
                    first = n.slice.elts[0] if isinstance(n.slice, ast.Tuple) and n.slice.elts else n.slice
                    if any(isinstance(x, ast.Name) and x.id == var for x in ast.walk(first)):
                        return True
        return False

    def _needs_parity(self, st, var):
        for n in ast.walk(st):
            if isinstance(n, ast.BinOp) and isinstance(n.op, ast.FloorDiv) and isinstance(n.right, ast.Constant) and n.right.value == 2:
                if any(isinstance(x, ast.Name) and x.id == var for x in ast.walk(n.left)):
                    return True
        return False

    def _for_parity(self, st, var, lo, hi, desc):
        """case split var = 2m + r, r in {0,1}: floor divisions by two become affine"""
        for r in (0, 1):
            m = self._uid('%s#half%d' % (var, r))
            saved_env = dict(self.aff_env)
            saved_r = self.ranges
            saved_temps = dict(self.temps)
            # m in [ceil((lo-r)/2), (hi-r)/2]
            mlo = (lo - r).scale(0.5) if False else (lo - r).scale(Aff.const(1).c / 2)
            mhi = (hi - r).scale(Aff.const(1).c / 2)
            self.ranges = self.ranges.push(m, mlo, mhi)
            self.var_ranges.append((m, mlo, mhi))
            self.aff_env[var] = Aff.var(m).scale(2) + r
            self.parity = (var, r, m)
            self._loop_body(st, m, desc, is_parity=True, order_aff=Aff.var(m).scale(2) + r)
            self.parity = None
            self.aff_env = saved_env
            self.ranges = saved_r
            if r == 0:
                self.temps = saved_temps

    def _uid(self, var):
        self.posn += 1
        return '%s@%d' % (var, self.posn)

    def _for_body(self, st, var, lo, hi, desc):
        saved_r = self.ranges
        saved_env = dict(self.aff_env)
        uid = self._uid(var)
        self.ranges = self.ranges.push(uid, lo, hi)
        self.var_ranges.append((uid, lo, hi))
        self.aff_env[var] = Aff.var(uid)
        self._loop_body(st, uid, desc)
        self.ranges = saved_r
        self.aff_env = saved_env

    def _loop_body(self, st, var, desc, is_parity=False, order_aff=None):
        # is this an order loop?  (its variable appears in the axis-0 index of a store into a graded array)
        stored = self._stored_arrays(st, st.target.id)
        ctx = {'var': var, 'stored': stored, 'assigned': set(), 'desc': desc, 'node': st,
               'aff': order_aff if order_aff is not None else Aff.var(var), 'offs': dict(self._last_store_offsets)}
        self.order_ctx.append(ctx)
        # two passes so that work arrays reach their steady-state weight; issues from the last pass only
        n_issues, n_unk = len(self.issues), len(self.unknown)
        ob, di, sa = self.obligations, self.discharged, list(self.samples)
        temps0 = dict(self.temps)
        self.block(st.body)
        temps1 = dict(self.temps)
        changed = any(_wkey(temps1.get(k)) != _wkey(temps0.get(k)) for k in set(temps0) | set(temps1))
        if changed:
            del self.issues[n_issues:]
            del self.unknown[n_unk:]
            self.obligations, self.discharged, self.samples = ob, di, sa
            for k in set(temps0) | set(temps1):
                self.temps[k] = _join_w(temps0.get(k), temps1.get(k))
            ctx['assigned'] = set()
            self.block(st.body)
        self.order_ctx.pop()

    def _stored_arrays(self, st, var):
        out = {}
        self._last_store_offsets = offs = {}
        for n in ast.walk(st):
            tg = []
            if isinstance(n, ast.Assign):
                tg = n.targets
            elif isinstance(n, ast.AugAssign):
                tg = [n.target]
            elif isinstance(n, ast.Call):
                for k in n.keywords:
                    if k.arg == 'out':
                        tg = [k.value]
            for t in tg:
                for tt in (t.elts if isinstance(t, ast.Tuple) else [t]):
                    if isinstance(tt, ast.Subscript):
                        nm = self._arr_name(tt.value)
                        if nm in self.gvars:
                            first = tt.slice.elts[0] if isinstance(tt.slice, ast.Tuple) and tt.slice.elts else tt.slice
                            if any(isinstance(x, ast.Name) and x.id == var for x in ast.walk(first)):
                                out.setdefault(nm, n.lineno)
                                # offset c of a store index of the form var + c (None: any other form)
                                c_ = None
                                if isinstance(first, ast.Name):
                                    c_ = 0
                                elif isinstance(first, ast.BinOp) and isinstance(first.op, (ast.Add, ast.Sub)) and isinstance(first.left, ast.Name) \
                                        and first.left.id == var and isinstance(first.right, ast.Constant) and isinstance(first.right.value, int):
                                    c_ = first.right.value if isinstance(first.op, ast.Add) else -first.right.value
                                elif isinstance(first, ast.BinOp) and isinstance(first.op, ast.Add) and isinstance(first.right, ast.Name) \
                                        and first.right.id == var and isinstance(first.left, ast.Constant) and isinstance(first.left.value, int):
                                    c_ = first.left.value
                                offs.setdefault(nm, set()).add(c_)
        return out

    def _walk_opaque(self, st):
        self.block(st.body)

    def if_stmt(self, st):
        # guards on the truncation degree are recorded (C12.D)
        names = {n.id for n in ast.walk(st.test) if isinstance(n, ast.Name)}
        if names & (self.dsyms | set(self.dderived)):
            self.guards_on_degree.append(st)
        # control flow may depend on zeroth coefficients only: a branch on a higher-order coefficient makes the
        # result depend on whether that coefficient happens to vanish (sparse inputs)
        self._ctrl_check(st.test, st)
        # parity test under a parity split
        par = getattr(self, 'parity', None)
        tv = None
        if par is not None:
            tv = self._eval_parity_test(st.test, par)
        # refine `if d == c:` on a loop variable
        eqv = self._eq_refine(st.test)
        if tv is True:
            return self.block(st.body)
        if tv is False:
            return self.block(st.orelse)
        temps0 = dict(self.temps)
        asg0 = [set(c['assigned']) for c in self.order_ctx]
        cmpv = self._cmp_refine(st.test)
        saved_r, saved_env = self.ranges, dict(self.aff_env)
        ncons = len(self.cons)
        if eqv is not None:
            var, c = eqv
            uid0 = list(self.aff_env[var].vars())[0]
            self.cons.append((uid0, 'eq', Aff.const(c)))
            self.aff_env[var] = Aff.const(c)
        elif cmpv is not None:
            uid, blo, bhi, _, _ = cmpv
            self.ranges = _narrow(self.ranges, uid, blo, bhi)
            if blo is not None:
                self.cons.append((uid, 'ge', blo))
            if bhi is not None:
                self.cons.append((uid, 'le', bhi))
        self.term_arms = getattr(self, 'term_arms', {})
        self.once_ifs = getattr(self, 'once_ifs', set())
        if not self.ranges.items:
            self.once_ifs.add(id(st))       # executed once per call: its arms are alternative paths
        if st.body and isinstance(st.body[-1], (ast.Return, ast.Raise)):
            self.term_arms[(id(st), 0)] = st.lineno
        if st.orelse and isinstance(st.orelse[-1], (ast.Return, ast.Raise)):
            self.term_arms[(id(st), 1)] = st.lineno
        self.branch.append((id(st), 0))
        self.block(st.body)
        self.branch.pop()
        del self.cons[ncons:]
        env_body = dict(self.aff_env)
        if eqv is not None:
            env_body[eqv[0]] = saved_env.get(eqv[0])
        self.ranges, self.aff_env = saved_r, dict(saved_env)
        temps1 = dict(self.temps)
        asg1 = [set(c['assigned']) for c in self.order_ctx]
        self.temps = dict(temps0)
        for c, a in zip(self.order_ctx, asg0):
            c['assigned'] = set(a)
        if cmpv is not None:
            uid, _, _, elo, ehi = cmpv
            self.ranges = _narrow(self.ranges, uid, elo, ehi)
            if elo is not None:
                self.cons.append((uid, 'ge', elo))
            if ehi is not None:
                self.cons.append((uid, 'le', ehi))
        self.branch.append((id(st), 1))
        self.block(st.orelse)
        self.branch.pop()
        del self.cons[ncons:]
        env_else = dict(self.aff_env)
        # bindings made identically on both branches (e.g. `D, P, N = v_data.shape` / `D, P, M, N = v_data.shape`) survive
        merged = dict(saved_env)
        for k, v in env_body.items():
            if v is not None and k in env_else and env_else[k] == v:
                merged[k] = v
        self.ranges, self.aff_env = saved_r, merged
        for c, a, a0 in zip(self.order_ctx, asg1, asg0):
            both = c['assigned'] & a
            if cmpv is not None and cmpv[1] is not None:
                # arrays assigned only when the guard holds: remember the condition (uid >= bound)
                for arr in a - c['assigned']:
                    c.setdefault('cond', {})[arr] = (cmpv[0], cmpv[1])
            c['assigned'] = both
        for k in set(temps1) | set(self.temps):
            self.temps[k] = _join_w(temps1.get(k), self.temps.get(k))

    def _cmp_refine(self, test):
        """`v > c`, `v >= c`, `v < c`, `v <= c` on a loop variable -> (uid, body lo, body hi, else lo, else hi)"""
        if not (isinstance(test, ast.Compare) and len(test.ops) == 1 and isinstance(test.left, ast.Name)):
            return None
        a = self.aff_env.get(test.left.id)
        if a is None or len(a.t) != 1 or a.c != 0 or list(a.t.values())[0] != 1:
            return None
        uid = list(a.t)[0]
        if self.ranges.get(uid) is None:
            return None
        c = to_aff(test.comparators[0], self.aff_env)
        if c is None or uid in c.vars():
            return None
        op = test.ops[0]
        if isinstance(op, ast.Gt):
            return uid, c + 1, None, None, c
        if isinstance(op, ast.GtE):
            return uid, c, None, None, c - 1
        if isinstance(op, ast.Lt):
            return uid, None, c - 1, c, None
        if isinstance(op, ast.LtE):
            return uid, None, c, c + 1, None
        return None

    def _ctrl_check(self, test, st):
        if isinstance(test, ast.BoolOp):
            for v in test.values:
                self._ctrl_check(v, st)
            return
        if isinstance(test, ast.UnaryOp) and isinstance(test.op, ast.Not):
            return self._ctrl_check(test.operand, st)
        if isinstance(test, ast.Compare) and all(isinstance(o, (ast.Is, ast.IsNot)) for o in test.ops):
            return      # identity tests (`out is None`) read no data
        if isinstance(test, ast.Call) and isinstance(test.func, ast.Name) and test.func.id in ('isinstance', 'hasattr', 'callable'):
            return
        if isinstance(test, (ast.Name, ast.Attribute)):
            return      # truthiness of a flag / module (`if pytpcore`), not coefficient data
        if not any(isinstance(n, ast.Subscript) or (isinstance(n, ast.Name) and (n.id in self.gvars or n.id in self.temps)) for n in ast.walk(test)):
            return
        n_iss = len(self.issues)
        v = self.ev(test)
        del self.issues[n_iss:]
        rg = self._all_ranges([r.idx for r in v.reads])
        for r in v.reads:
            ga = self.gvars.get(r.arr)
            if ga is None:
                continue
            w = ga.off + r.idx
            self.obligations += 1
            if prove_le(w, Aff.const(0), rg):
                self.discharged += 1
                continue
            wit = find_witness(lambda val: w.eval(val) > 0, rg, ['#D']) if self._closed([w], rg) else None
            if wit is not None or not w.is_const:
                self.issue('CTRL', 'VIOLATION', st, 'control flow depends on a higher-order Taylor coefficient %s[%s] (weight %s): `%s` - the computed '
                                                    'coefficients change when that coefficient happens to be zero' % (r.arr, r.idx, w, norm(test)[:80]), wit or {})
            elif w.c > 0:
                self.issue('CTRL', 'VIOLATION', st, 'control flow depends on a higher-order Taylor coefficient %s[%s]: `%s`' % (r.arr, r.idx, norm(test)[:80]), {})
            else:
                self.discharged += 1

    def _eq_refine(self, test):
        if isinstance(test, ast.Compare) and len(test.ops) == 1 and isinstance(test.ops[0], ast.Eq) \
                and isinstance(test.left, ast.Name) and isinstance(test.comparators[0], ast.Constant) \
                and isinstance(test.comparators[0].value, int) and test.left.id in self.aff_env \
                and len(self.aff_env[test.left.id].vars()) == 1 and self.aff_env[test.left.id].is_const is False \
                and self.ranges.get(list(self.aff_env[test.left.id].vars())[0]) is not None:
            return test.left.id, test.comparators[0].value
        return None

    def _eval_parity_test(self, test, par):
        var, r, m = par
        # (d+1) % 2 == 1 / d % 2 == 0 ...
        if isinstance(test, ast.Compare) and len(test.ops) == 1 and isinstance(test.ops[0], (ast.Eq, ast.NotEq)) \
                and isinstance(test.left, ast.BinOp) and isinstance(test.left.op, ast.Mod) \
                and isinstance(test.left.right, ast.Constant) and test.left.right.value == 2 \
                and isinstance(test.comparators[0], ast.Constant):
            a = to_aff(test.left.left, self.aff_env)
            if a is None:
                return None
            # a = 2*m*k + c : parity of constant part if coefficient of m is even
            if any((v % 2) != 0 for k, v in a.t.items()):
                return None
            val = int(a.c) % 2
            res = (val == test.comparators[0].value)
            return res if isinstance(test.ops[0], ast.Eq) else (not res)
        return None

    # ----------------------------------------------------------- expressions
    def new_pos(self, length=None):
        self.posn += 1
        pv = '#j%d' % self.posn
        if length is not None:
            self.var_ranges.append((pv, Aff.const(0), length - 1))
        return pv

    def axis0(self, sub):
        sl = sub.slice
        if isinstance(sl, ast.Tuple):
            return sl.elts[0] if sl.elts else None
        return sl

    def rest_axes(self, sub):
        sl = sub.slice
        if isinstance(sl, ast.Tuple):
            return sl.elts[1:]
        return []

    def ev(self, n):
        """-> Val"""
        if isinstance(n, (ast.BinOp, ast.UnaryOp)) and not any(isinstance(x, (ast.Subscript, ast.Call, ast.Attribute)) for x in ast.walk(n)):
            a = to_aff(n, self.aff_env)
            if a is not None and a.vars() and all(('@' in v or v.startswith('#')) for v in a.vars()):
                # purely a scalar expression in loop variables: an explicit factor
                return Val.scalar(factors=[a])
        if isinstance(n, ast.Constant):
            if isinstance(n.value, (int, float)) and not isinstance(n.value, bool) and n.value == 0:
                return Val('w', ANY)
            return Val.scalar()
        if isinstance(n, ast.Name):
            if n.id in self.gvars:
                g = self.gvars[n.id]
                pv = self.new_pos(g.length)
                return Val('fam', g.off + Aff.var(pv), [Read(g.name, Aff.var(pv), n)], posvar=pv,
                           length=g.length, whole=g.name)
            if n.id in self.temps:
                t = self.temps[n.id]
                return Val(t.kind, t.w, t.reads, t.factors, posvar=t.posvar, length=t.length, why=t.why)
            a = to_aff(n, self.aff_env)
            if a is not None and n.id in self.aff_env and a.is_const and a.c == 0:
                return Val('w', ANY)        # a name bound to the integer 0: the zero of every weight
            fac = [a] if (a is not None and (self.ranges.get(n.id) is not None or n.id in self.aff_env)) else []
            return Val.scalar(factors=fac)
        if isinstance(n, ast.Attribute):
            nm = self._arr_name(n)
            if nm in self.gvars:
                g = self.gvars[nm]
                pv = self.new_pos(g.length)
                return Val('fam', g.off + Aff.var(pv), [Read(g.name, Aff.var(pv), n)], posvar=pv,
                           length=g.length, whole=g.name)
            if n.attr == 'T':
                return self.ev(n.value)
            if n.attr in ('shape', 'dtype', 'ndim', 'size'):
                return Val.scalar()
            v = self.ev(n.value)
            if n.attr in ('real', 'imag', 'flat'):
                return v
            if v.kind == 'w' and v.w == Aff.const(0):
                return Val.scalar(v.reads)
            return Val.bot('attribute .%s of a graded value' % n.attr, v.reads)
        if isinstance(n, ast.Subscript):
            return self.ev_subscript(n)
        if isinstance(n, ast.UnaryOp):
            v = self.ev(n.operand)
            if isinstance(n.op, ast.USub):
                a = to_aff(n, self.aff_env)
                if v.kind == 'w' and v.w == Aff.const(0) and a is not None and v.factors:
                    return Val.scalar(v.reads, [a])
                return v
            if isinstance(n.op, ast.UAdd):
                return v
            return Val.scalar(v.reads) if (v.kind == 'w' and v.w == Aff.const(0)) else Val.bot('unary op on graded value', v.reads)
        if isinstance(n, ast.BinOp):
            return self.ev_binop(n)
        if isinstance(n, (ast.ListComp, ast.GeneratorExp)):
            return self.ev_comp(n)
        if isinstance(n, (ast.List, ast.Tuple)):
            vals = [self.ev(x) for x in n.elts]
            reads = [r for v in vals for r in v.reads]
            if all(v.kind == 'w' and v.w == Aff.const(0) for v in vals):
                return Val.scalar(reads)
            return Val.bot('list/tuple of graded values', reads)
        if isinstance(n, ast.Call):
            return self.ev_call(n)
        if isinstance(n, ast.IfExp):
            a, b = self.ev(n.body), self.ev(n.orelse)
            return self.add_vals(a, b, n)
        if isinstance(n, (ast.Compare, ast.BoolOp)):
            reads = []
            for x in ast.iter_child_nodes(n):
                if isinstance(x, ast.expr):
                    reads += self.ev(x).reads
            return Val.scalar(reads)
        if isinstance(n, ast.Starred):
            return self.ev(n.value)
        return Val.bot('expression %s' % type(n).__name__)

    def slice_family(self, g, sl, node):
        """x[a:b:s] on the coefficient axis -> (start idx Aff, step, length Aff) or None"""
        L = g.length
        step = 1
        if sl.step is not None:
            s = to_aff(sl.step, self.aff_env)
            if s is None or not s.is_const or s.c not in (1, -1):
                return None
            step = int(s.c)
        lo = to_aff(sl.lower, self.aff_env) if sl.lower is not None else None
        hi = to_aff(sl.upper, self.aff_env) if sl.upper is not None else None
        if (sl.lower is not None and lo is None) or (sl.upper is not None and hi is None):
            return None
        if step == 1:
            start = lo if lo is not None else Aff.const(0)
            stop = hi if hi is not None else L
            return start, 1, stop - start, (lo, hi)
        start = lo if lo is not None else L - 1
        if hi is None:
            length = start + 1
        else:
            length = start - hi
        return start, -1, length, (lo, hi)

    def ev_subscript(self, n):
        base = n.value
        nm = self._arr_name(base)
        # slice of a slice: y_data[:d][::-1]
        if isinstance(base, ast.Subscript):
            inner = self.ev_subscript(base)
            sl0 = n.slice
            if isinstance(sl0, ast.Tuple) and sl0.elts and isinstance(sl0.elts[0], ast.Slice) and all(
                    (isinstance(e_, ast.Constant) and e_.value is Ellipsis) or
                    (isinstance(e_, ast.Slice) and e_.lower is None and e_.upper is None and e_.step is None) for e_ in sl0.elts[1:]):
                sl0 = sl0.elts[0]          # y_data[1:d+1][::-1, :, ...]: only the coefficient axis is re-sliced
            if inner.kind == 'fam' and isinstance(sl0, ast.Slice):
                sl = sl0
                if sl.lower is None and sl.upper is None and sl.step is not None:
                    s = to_aff(sl.step, self.aff_env)
                    if s is not None and s.is_const and s.c == -1 and inner.length is not None:
                        pv = inner.posvar
                        newpv = self.new_pos(inner.length)
                        sub = inner.length - 1 - Aff.var(newpv)
                        w = inner.w.subs(pv, sub)
                        reads = [Read(r.arr, r.idx.subs(pv, sub), r.node, r.asg, r.seq, r.loops, r.branch, r.cons) for r in inner.reads]
                        return Val('fam', w, reads, inner.factors, posvar=newpv, length=inner.length)
                    if s is not None and s.is_const and s.c == 1:
                        return inner
                return Val.bot('slice of a slice not understood: ' + norm(n), inner.reads)
            if inner.kind == 'w':
                # further indexing of a single coefficient / work array element
                return Val('w', inner.w, inner.reads, inner.factors)
            if inner.kind == 'fam':
                a0 = self.axis0(n)
                if not isinstance(a0, ast.Slice):
                    ia = to_aff(a0, self.aff_env)
                    if ia is not None:
                        pv = inner.posvar
                        reads = [Read(r.arr, r.idx.subs(pv, ia), r.node, r.asg, r.seq, r.loops, r.branch, r.cons) for r in inner.reads]
                        return Val('w', inner.w.subs(pv, ia), reads, inner.factors)
            return Val.bot('subscript of subscript: ' + norm(n), inner.reads)
        if nm in self.gvars:
            g = self.gvars[nm]
            a0 = self.axis0(n)
            extra = []
            for x in self.rest_axes(n):
                extra += self._index_reads(x)
            if a0 is None:
                return Val.bot('empty subscript')
            if isinstance(a0, ast.Constant) and a0.value is Ellipsis:
                pv = self.new_pos(g.length)
                return Val('fam', g.off + Aff.var(pv), [Read(g.name, Aff.var(pv), n)] + extra, posvar=pv, length=g.length, whole=g.name)
            if isinstance(a0, ast.Slice):
                if a0.lower is None and a0.upper is None and a0.step is None:
                    pv = self.new_pos(g.length)
                    return Val('fam', g.off + Aff.var(pv), [Read(g.name, Aff.var(pv), n)] + extra, posvar=pv, length=g.length, whole=g.name)
                fam = self.slice_family(g, a0, n)
                if fam is None:
                    return Val.bot('slice with non-affine bounds: ' + norm(n))
                start, step, length, (lo, hi) = fam
                pv = self.new_pos(length)
                idx = start + Aff.var(pv).scale(step)
                self._check_slice_bounds(g, a0, lo, hi, step, n)
                return Val('fam', g.off + idx, [Read(g.name, idx, n)] + extra, posvar=pv, length=length)
            ia = to_aff(a0, self.aff_env)
            if ia is None:
                return Val.bot('non-affine coefficient index: ' + norm(n))
            return Val('w', g.off + ia, [Read(g.name, ia, n)] + extra)
        if isinstance(base, ast.Name) and base.id in self.temps:
            t = self.temps[base.id]
            return Val(t.kind, t.w, t.reads, t.factors, why=t.why)
        v = self.ev(base)
        idxr = self._index_reads(n.slice)
        if v.kind == 'w':
            return Val('w', v.w, v.reads + idxr, v.factors)
        return Val.bot('subscript of ' + norm(base)[:40], v.reads + idxr)

    def _index_reads(self, node):
        """reads hidden inside index expressions (numpy.argmax(x_data[0,p]))"""
        out = []
        for x in ast.walk(node):
            if isinstance(x, ast.Subscript) and self._arr_name(x.value) in self.gvars:
                out += self.ev_subscript(x).reads
        return out

    def ev_binop(self, n):
        a, b = self.ev(n.left), self.ev(n.right)
        if isinstance(n.op, (ast.Add, ast.Sub)):
            return self.add_vals(a, b, n)
        if isinstance(n.op, ast.Mult) or isinstance(n.op, ast.MatMult):
            return self.mul_vals(a, b, n)
        if isinstance(n.op, (ast.Div, ast.FloorDiv)):
            if b.kind == 'w' and b.w == Aff.const(0):
                return Val(a.kind, a.w, a.reads + b.reads, a.factors, posvar=a.posvar, length=a.length, why=a.why)
            if b.kind == 'w' and b.w == ANY:
                return Val.bot('division by a zero work array', a.reads + b.reads)
            return Val.bot('division by a value of non-zero weight: ' + norm(n)[:60], a.reads + b.reads)
        if isinstance(n.op, (ast.Pow, ast.Mod)):
            if a.kind == 'w' and a.w == Aff.const(0) and b.kind == 'w' and b.w == Aff.const(0):
                return Val.scalar(a.reads + b.reads)
            return Val.bot('power of a graded value: ' + norm(n)[:60], a.reads + b.reads)
        return Val.bot('operator %s' % type(n.op).__name__, a.reads + b.reads)

    def add_vals(self, a, b, node):
        reads = a.reads + b.reads
        if a.kind == 'bot' or b.kind == 'bot':
            return Val.bot((a.why if a.kind == 'bot' else b.why), reads)
        if a.kind == 'fam' and b.kind == 'fam':
            bw = b.w.subs(b.posvar, Aff.var(a.posvar))
            breads = [Read(r.arr, r.idx.subs(b.posvar, Aff.var(a.posvar)), r.node, r.asg, r.seq, r.loops, r.branch, r.cons) for r in b.reads]
            if a.w != bw:
                self.obligations += 1
                self.issue('O3', 'VIOLATION', node, 'sum of two coefficient families with different weights: %s vs %s in `%s`'
                           % (a.w, bw, norm(node)[:80]))
            return Val('fam', a.w, a.reads + breads, posvar=a.posvar, length=a.length)
        if a.kind == 'fam' or b.kind == 'fam':
            f, o = (a, b) if a.kind == 'fam' else (b, a)
            if o.w == ANY:
                return Val('fam', f.w, reads, f.factors, posvar=f.posvar, length=f.length)
            # family + single coefficient broadcast along d: only weight-0 scalars (x_data - const) are not homogeneous
            lit = None
            if isinstance(node, ast.BinOp):
                for side in (node.left, node.right):
                    c_ = side.operand if isinstance(side, ast.UnaryOp) and isinstance(side.op, (ast.USub, ast.UAdd)) else side
                    if isinstance(c_, ast.Constant) and isinstance(c_.value, (int, float, complex)) and not isinstance(c_.value, bool) and c_.value != 0:
                        lit = side
            if lit is not None and not o.reads and f.posvar is not None and f.posvar in f.w.vars():
                # a numeric literal added to the whole coefficient array: plain broadcasting puts it into every coefficient,
                # it belongs to coefficient 0 only (the `_plus_const` slip)
                self.obligations += 1
                self.issue('O3', 'VIOLATION', node, 'the constant `%s` (weight 0) is added to every coefficient of a family whose weights differ: `%s` - '
                                                    'a constant belongs to coefficient 0 only' % (norm(lit), norm(node)[:80]))
                return Val('fam', f.w, reads, f.factors, posvar=f.posvar, length=f.length)
            return Val.bot('family combined additively with a single coefficient: ' + norm(node)[:60], reads)
        # both single weights (explicit factors are kept: every summation variable is unique to its term)
        facs = a.factors + b.factors
        if a.w == ANY:
            return Val('w', b.w, reads, facs)
        if b.w == ANY:
            return Val('w', a.w, reads, facs)
        if a.w != b.w:
            self.obligations += 1
            w = self._witness_neq(a.w, b.w)
            if w is not None:
                self.issue('O3', 'VIOLATION', node, 'terms of different weight are added: %s vs %s in `%s`'
                           % (a.w, b.w, norm(node)[:90]), w)
            else:
                self.unk(node, 'weights %s and %s could not be compared' % (a.w, b.w))
            return Val.bot('inhomogeneous sum', reads)
        return Val('w', a.w, reads, facs)

    def _witness_neq(self, wa, wb):
        d = wa - wb
        if d.is_const:
            return {} if d.c != 0 else None
        return find_witness(lambda v: d.eval(v) != 0, self.ranges, ['#D'])

    def mul_vals(self, a, b, node):
        reads = a.reads + b.reads
        factors = a.factors + b.factors
        if a.kind == 'bot' or b.kind == 'bot':
            return Val.bot((a.why if a.kind == 'bot' else b.why), reads)
        if a.kind == 'fam' and b.kind == 'fam':
            # element-wise product pairs equal positions
            bw = b.w.subs(b.posvar, Aff.var(a.posvar))
            breads = [Read(r.arr, r.idx.subs(b.posvar, Aff.var(a.posvar)), r.node, r.asg, r.seq, r.loops, r.branch, r.cons) for r in b.reads]
            if a.length is not None and b.length is not None and a.length != b.length:
                self.obligations += 1
                w = find_witness(lambda v: (a.length - b.length).eval(v) != 0 and a.length.eval(v) > 1 and b.length.eval(v) > 1,
                                 self.ranges, ['#D'])
                if w is not None:
                    self.issue('O4', 'VIOLATION', node, 'element-wise product of coefficient families of different length '
                                                        '(%s vs %s) in `%s`' % (a.length, b.length, norm(node)[:80]), w)
            return Val('fam', a.w + bw, a.reads + breads, factors, posvar=a.posvar, length=a.length)
        if a.kind == 'fam' or b.kind == 'fam':
            f, o = (a, b) if a.kind == 'fam' else (b, a)
            if o.w == ANY:
                return Val('w', ANY, reads)
            return Val('fam', f.w + o.w, reads, factors, posvar=f.posvar, length=f.length)
        if a.w == ANY or b.w == ANY:
            return Val('w', ANY, reads)
        return Val('w', a.w + b.w, reads, factors)

    def ev_comp(self, n):
        if len(n.generators) != 1 or n.generators[0].ifs or not isinstance(n.generators[0].target, ast.Name):
            return Val.bot('comprehension form')
        g = n.generators[0]
        rg = self._range_of(g.iter)
        if rg is None:
            return Val.bot('comprehension over a non-range iterable')
        lo, hi, desc = rg
        var = g.target.id
        pv = self._uid(var)
        saved_r, saved_env = self.ranges, dict(self.aff_env)
        self.ranges = self.ranges.push(pv, lo, hi)
        self.var_ranges.append((pv, lo, hi))
        self.aff_env[var] = Aff.var(pv)
        v = self.ev(n.elt)
        self.aff_env = saved_env
        self.ranges = saved_r
        if not v.reads and v.kind in ('w', 'fam') and (v.kind == 'fam' or v.w == Aff.const(0) or v.w == ANY):
            return Val.scalar()
        if v.kind == 'bot':
            return v
        if v.kind == 'fam':
            return Val.bot('comprehension of families', v.reads)
        return Val('fam', v.w, v.reads, v.factors, posvar=pv, length=hi - lo + 1)

    def close_family(self, v, node):
        """numpy.sum(family, axis=0): all members must have the same weight"""
        if v.kind != 'fam':
            return v
        self.obligations += 1
        k = v.w.coeff(v.posvar)
        if k != 0:
            self.issue('O3', 'VIOLATION', node, 'sum over the coefficient axis of terms whose weight varies with the '
                                                'position (%s) in `%s`' % (v.w, norm(node)[:90]), {})
            return Val.bot('inhomogeneous family sum', v.reads)
        self.discharged += 1
        lo, hi = self._pos_range(v)
        if hi is not None and not any(u == v.posvar for u, _, _ in self.var_ranges):
            self.var_ranges.append((v.posvar, lo, hi))
        return Val('w', v.w, v.reads, v.factors)

    def _pos_range(self, v):
        for uid, lo, hi in self.var_ranges:
            if uid == v.posvar:
                return lo, hi
        return Aff.const(0), (v.length - 1) if v.length is not None else None

    def ev_call(self, c):
        d = dotted_name(c.func)
        name = d.split('.')[-1] if d else None
        kw = {k.arg: k.value for k in c.keywords if k.arg}
        # series-level kernels
        if d and d.split('.')[0] in ('cls', 'self', 'UTPM') and name in SERIES_OPS:
            return self.series_call(name, c, kw)
        if isinstance(c.func, ast.Name) and c.func.id in SERIES_OPS:
            return self.series_call(c.func.id, c, kw)
        if name == 'truncated_triple_dot' and len(c.args) == 4:
            # declared summary: weight = 4th argument, reads X, Y, Z at indices 0 .. D-1
            W = to_aff(c.args[3], self.aff_env)
            reads = []
            for a in c.args[:3]:
                nm = self._graded_base(a)
                if nm is None or W is None:
                    return Val.bot('truncated_triple_dot argument not a graded array')
                pv = self.new_pos()
                reads.append(Read(nm, Aff.var(pv), a))
                self.var_ranges.append((pv, Aff.const(0), W - 1))
            return Val('w', W, reads)
        if isinstance(c.func, ast.Attribute) and not (d and d.split('.')[0] in ('numpy', 'scipy', 'math', 'nthderiv', 'functools', 'algopy')):
            # method call on a value
            recv = self.ev(c.func.value)
            m = c.func.attr
            if m in ('copy', 'transpose', 'reshape', 'conj', 'conjugate', 'astype', 'ravel', 'flatten', 'squeeze', 'swapaxes'):
                return recv
            if m in ('fill',):
                return Val.scalar(recv.reads)
            if m in ('sum',):
                return recv if recv.kind != 'fam' else Val.bot('method sum on a family', recv.reads)
            args = [self.ev(a) for a in c.args]
            reads = recv.reads + [r for a in args for r in a.reads]
            if (recv.kind == 'w' and recv.w == Aff.const(0)) and all(a.kind == 'w' and a.w == Aff.const(0) for a in args):
                return Val.scalar(reads)
            if m == 'dot' and len(args) == 1:
                return self.mul_vals(recv, args[0], c)
            return Val.bot('method .%s on a graded value' % m, reads)
        args = [self.ev(a) for a in c.args]
        reads = [r for a in args for r in a.reads]
        for k, v in kw.items():
            if k != 'out':
                reads += self.ev(v).reads
        if name == 'sum' and args:
            ax = kw.get('axis') or (c.args[1] if len(c.args) > 1 else None)
            if args[0].kind == 'fam':
                if ax is not None and isinstance(ax, ast.Constant) and ax.value == 0:
                    return self.close_family(args[0], c)
                return Val.bot('numpy.sum over a coefficient family without axis=0', reads)
            return args[0]
        if name in META_FUNCS:
            return Val.scalar()
        if name in ('fft', 'rfft', 'ifft', 'irfft', 'hfft') and c.args:
            ax = kw.get('axis')
            a0 = self.ev(c.args[0])
            if a0.kind == 'fam' and isinstance(ax, ast.Constant) and ax.value == 0:
                # a transform along the coefficient axis: legitimate only as a zero-padded (linear) convolution
                nn = kw.get('n') or (c.args[1] if len(c.args) > 1 else None)
                na = to_aff(nn, self.aff_env) if nn is not None else None
                L = a0.length if a0.length is not None else Aff.var('#D')
                self.obligations += 1
                if name in ('fft', 'rfft') and (na is None or prove_le(na, L.scale(2) - 2, self._all_ranges([na, L]))):
                    self.issue('O2', 'VIOLATION', c, 'discrete Fourier transform of length %s along the coefficient axis in `%s`: products of such '
                                                     'transforms are *circular* convolutions - high-order coefficients wrap around into the low orders '
                                                     '(needs zero padding to at least 2D-1)' % (na if na is not None else L, norm(c)[:70]), {})
                return Val.bot('FFT along the coefficient axis is outside the graded idioms', a0.reads)
        if name == 'einsum' and len(c.args) == 3 and isinstance(c.args[0], ast.Constant) and isinstance(c.args[0].value, str):
            # 'iab,ibc->ac': the leading (coefficient) axis of both operands is paired and summed
            spec = c.args[0].value.replace(' ', '')
            if '->' in spec and spec.count(',') == 1:
                ins, outp = spec.split('->')
                a_, b_ = ins.split(',')
                va, vb = self.ev(c.args[1]), self.ev(c.args[2])
                if va.kind == 'fam' and vb.kind == 'fam' and a_ and b_ and a_[0] == b_[0] and a_[0] not in outp:
                    return self.close_family(self.mul_vals(va, vb, c), c)
                if va.kind != 'fam' and vb.kind != 'fam':
                    return self.mul_vals(va, vb, c)
            return Val.bot('einsum form not understood: ' + norm(c)[:60], self.ev(c.args[1]).reads + self.ev(c.args[2]).reads)
        if name == 'square' and args:
            return self.mul_vals(args[0], args[0], c)
        if name in ('divide', 'true_divide') and len(c.args) >= 2 and (d or '').split('.')[0] in ('numpy', 'np'):
            # numpy.divide(a, b) is a / b
            return self.ev(ast.copy_location(ast.BinOp(left=c.args[0], op=ast.Div(), right=c.args[1]), c))
        if name == 'negative' and len(c.args) >= 1 and (d or '').split('.')[0] in ('numpy', 'np'):
            return self.ev(ast.copy_location(ast.UnaryOp(op=ast.USub(), operand=c.args[0]), c))
        if name in BILINEAR and len(args) >= 2:
            return self.mul_vals(args[0], args[1], c)
        if name in ADDITIVE and len(args) >= 2:
            return self.add_vals(args[0], args[1], c)
        if name in ('solve', 'lstsq') and len(args) >= 2:
            if args[0].kind == 'w' and args[0].w == Aff.const(0):
                return Val(args[1].kind, args[1].w, reads, posvar=args[1].posvar, length=args[1].length)
            return Val.bot('solve with a coefficient matrix of non-zero weight', reads)
        if name in LINEAR_UNARY and args:
            v = args[0]
            return Val(v.kind, v.w, reads, v.factors, posvar=v.posvar, length=v.length, why=v.why)
        if name in ('swapaxes', 'moveaxis') and len(c.args) == 3 and all(
                (isinstance(a_, ast.UnaryOp) and isinstance(a_.op, ast.USub) and isinstance(a_.operand, ast.Constant))
                or (isinstance(a_, ast.Constant) and isinstance(a_.value, int) and a_.value >= 2) for a_ in c.args[1:]):
            # two matrix axes change places (negative axes / axes behind (D, P)): the coefficient axis stays where it is
            v = args[0]
            return Val(v.kind, v.w, reads, v.factors, posvar=v.posvar, length=v.length, why=v.why)
        if name in ('zeros', 'zeros_like', 'empty', 'empty_like', 'ones', 'eye', 'identity'):
            if name in ('zeros', 'zeros_like', 'empty', 'empty_like'):
                return Val('w', ANY, [])
            return Val.scalar()
        if name in ('np_filled_like',):
            return Val('w', ANY, [])
        # any other function: arguments must have weight 0 (functions of the base point)
        if all(a.kind == 'w' and (a.w == Aff.const(0) or a.w == ANY) for a in args):
            return Val.scalar(reads)
        bad = [a for a in args if not (a.kind == 'w' and (a.w == Aff.const(0) or a.w == ANY))]
        if any(a.kind == 'bot' for a in bad):
            return Val.bot(bad[0].why or 'argument not understood', reads)
        if name in NONLINEAR_FUNCS and bad[0].kind == 'w':
            self.obligations += 1
            self.issue('O3', 'VIOLATION', c, 'non-linear function `%s` applied to a coefficient of non-zero weight (%s): '
                                             'only functions of the zeroth coefficient are graded' % (d or norm(c.func), bad[0].w), {})
            return Val.bot('nonlinear function of graded value', reads)
        return Val.bot('library function `%s` applied to graded coefficients is outside the recognised idioms' % (d or norm(c.func)), reads)

    def _graded_base(self, node):
        """x_data / x_data.transpose(..) / Q_data -> graded array name"""
        while isinstance(node, ast.Call) and isinstance(node.func, ast.Attribute) and node.func.attr in ('transpose', 'copy', 'conj', 'swapaxes'):
            node = node.func.value
        nm = self._arr_name(node)
        return nm if nm in self.gvars else None

    def series_call(self, name, c, kw):
        """call of a kernel operating on whole series: every series argument must be a
        whole graded array of offset 0; the result is a whole series"""
        idxs, ret = SERIES_OPS[name]
        reads = []
        args = list(c.args)
        for i in idxs:
            if i >= len(args):
                continue
            v = self.ev(args[i])
            reads += v.reads
            if v.kind == 'fam' and v.posvar is not None:
                k = v.w.coeff(v.posvar)
                off = v.w - Aff.var(v.posvar).scale(k)
                self.obligations += 1
                if k == 1 and off == Aff.const(0):
                    self.discharged += 1
                else:
                    self.issue('O3', 'VIOLATION', c, 'series-level kernel %s receives an argument whose entry j has weight %s '
                                                     '(expected weight j): `%s`' % (name, v.w, norm(args[i])[:60]), {})
            elif v.kind == 'w' and (v.w == Aff.const(0)) and not v.reads:
                pass
            elif v.kind == 'w' and v.w == ANY and not v.reads:
                pass        # the zero series (numpy.zeros_like(x_data)) is homogeneous of every weight
            elif v.kind == 'bot':
                self.unk(c, 'argument %d of %s: %s' % (i, name, v.why))
            else:
                self.unk(c, 'argument %d of series kernel %s is not a whole series: %s' % (i, name, norm(args[i])[:60]))
        # out= : mark as written whole series
        outn = kw.get('out')
        if outn is None and name in ('_mul', '_truediv', '_dot', '_amul') and len(args) > 2:
            outn = args[2]
        if outn is not None:
            for o in (outn.elts if isinstance(outn, ast.Tuple) else [outn]):
                nm = self._graded_base(o) or self._arr_name(o)
                if nm in self.temps:
                    # a work array receiving a whole series becomes a graded array
                    self._decl(nm, 'local')
                    del self.temps[nm]
        pv = self.new_pos()
        return Val('fam', Aff.var(pv), reads, posvar=pv, length=Aff.var('#D'), whole='<%s>' % name)

    # ------------------------------------------------------------ statements
    def assign(self, st):
        if len(st.targets) != 1:
            for t in st.targets:
                self._assign_one(t, st.value, st)
            return
        self._assign_one(st.targets[0], st.value, st)

    def _assign_one(self, t, value, st):
        if isinstance(t, (ast.Tuple, ast.List)):
            # y_data, z_data = out  /  Q, R = numpy.linalg.qr(A0)  (targets may be stores)
            if isinstance(value, ast.Name) and all(isinstance(x, ast.Name) for x in t.elts) and value.id in ('out',):
                for x in t.elts:
                    self._decl(x.id, 'out')
                return
            if all(isinstance(x, ast.Subscript) for x in t.elts):
                v = self.ev(value)
                for x in t.elts:
                    self.store(x, v, st, aug=None)
                return
            if isinstance(value, (ast.Tuple, ast.List)) and len(value.elts) == len(t.elts):
                for x, vv in zip(t.elts, value.elts):
                    self._assign_one(x, vv, st)
                return
            if isinstance(value, ast.Call) and (dotted_name(value.func) or '').split('.')[-1] in ('_broadcast_arrays', 'broadcast_arrays') \
                    and len(value.args) == len(t.elts) and all(isinstance(x, ast.Name) for x in t.elts):
                # UTPM-aware broadcasting keeps the coefficient axis: a whole series stays a whole series,
                # a constant lifted with reshape((1,1)+shape) is a weight-0 value
                for x, a in zip(t.elts, value.args):
                    av = self.ev(a)
                    if av.kind == 'fam' and av.whole is not None:
                        g0 = self.gvars.get(av.whole)
                        self._decl(x.id, 'local', g0.off if g0 else 0, av.length)
                        self.temps.pop(x.id, None)
                    elif isinstance(a, ast.Call) and isinstance(a.func, ast.Attribute) and a.func.attr == 'reshape':
                        self._bind(x.id, Val.scalar(), st, a)
                        self.lifted = getattr(self, 'lifted', set()) | {x.id}
                    else:
                        self._bind(x.id, Val.bot('operand of _broadcast_arrays not understood: ' + norm(a)[:40]), st, a)
                return
            v = self.ev(value)
            for x in t.elts:
                if isinstance(x, ast.Name):
                    self._bind(x.id, Val(v.kind if v.kind != 'fam' else 'bot', v.w, v.reads, why='tuple unpacking'), st, value)
                elif isinstance(x, ast.Subscript):
                    self.store(x, v, st, aug=None)
            return
        if isinstance(t, ast.Name):
            # d = D-1 : degree-derived symbol
            a = to_aff(value, self.aff_env)
            if a is not None and not isinstance(value, ast.Name) or (isinstance(value, ast.Name) and value.id in self.aff_env):
                if a is not None and (a.vars() <= ({'#D'} | set(self.ranges.vars())) or a.is_const):
                    self.aff_env[t.id] = a
                    if '#D' in a.vars():
                        self.dderived[t.id] = a
                    self.temps.pop(t.id, None)
                    return
            # parity helper: d_half = (d+1)//2 under a parity split
            if isinstance(value, ast.BinOp) and isinstance(value.op, ast.FloorDiv) and isinstance(value.right, ast.Constant) \
                    and value.right.value == 2:
                num = to_aff(value.left, self.aff_env)
                par = getattr(self, 'parity', None)
                if num is not None and par is not None and all((v % 2) == 0 for v in num.t.values()):
                    # floor((2m*k + c)/2) = m*k + floor(c/2)
                    half = Aff({k: v / 2 for k, v in num.t.items()}, int(num.c) // 2)
                    self.aff_env[t.id] = half
                    return
                self.unk(st, 'floor division not resolvable: ' + norm(st))
                return
            self._bind_name(t.id, value, st)
            return
        if isinstance(t, ast.Subscript):
            v = self.ev(value)
            self.store(t, v, st, aug=None)
            return
        if isinstance(t, ast.Attribute):
            return

    def _bind_name(self, name, value, st):
        # out aliases: y_data = out / z_data = out / Q_data = out[0]
        if isinstance(value, ast.Name) and value.id == 'out':
            self._decl(name, 'out')
            if 'out' in self.gvars and name != 'out':
                # `out[...] = 0.; z_data = out`: what was stored through `out` is stored in z_data
                self.alias_of = getattr(self, 'alias_of', {})
                self.alias_of[name] = 'out'
            return
        if isinstance(value, ast.Subscript) and isinstance(value.value, ast.Name) and value.value.id == 'out' \
                and isinstance(value.slice, ast.Constant):
            self._decl(name, 'out')
            return
        if isinstance(value, ast.Subscript) and self._arr_name(value.value) in self.gvars:
            # a view that keeps the whole coefficient axis (`R2_data = R_data[:, :, :, M:]`): same grading, same role
            sl0 = value.slice.elts[0] if isinstance(value.slice, ast.Tuple) and value.slice.elts else value.slice
            if isinstance(sl0, ast.Slice) and sl0.lower is None and sl0.upper is None and sl0.step is None:
                src = self._arr_name(value.value)
                g = self.gvars[src]
                self.gvars[name] = GVar(name, g.off, g.length, g.role, g.scaled, False)
                self.alias_of = getattr(self, 'alias_of', {})
                self.alias_of[name] = src
                self.partial_views = getattr(self, 'partial_views', set()) | {name}
                return
        if isinstance(value, (ast.Name, ast.Attribute)) and self._arr_name(value) in self.gvars:
            src = self._arr_name(value)
            g = self.gvars[src]
            self.gvars[name] = GVar(name, g.off, g.length, g.role, g.scaled, g.zero_init)
            self.alias_of = getattr(self, 'alias_of', {})
            self.alias_of[name] = src
            return
        # Y_r = Y.reshape(...) / numpy.reshape(Y, ...): numpy returns a view only for suitably contiguous data
        rb = None
        if isinstance(value, ast.Call) and isinstance(value.func, ast.Attribute) and value.func.attr == 'reshape':
            rb = self._graded_base(value.func.value)
        elif isinstance(value, ast.Call) and (dotted_name(value.func) or '') == 'numpy.reshape' and value.args:
            rb = self._graded_base(value.args[0])
        if rb is not None:
            self.reshape_alias = getattr(self, 'reshape_alias', {})
            self.reshape_alias[name] = (rb, st)
        gv = self._graded_alloc(value)
        if gv is not None:
            off, length, zero = gv
            self._decl(name, 'local', off, length, zero_init=zero)
            if isinstance(value, ast.Call) and (dotted_name(value.func) or norm(value.func)).split('.')[-1] == 'copy':
                self.copy_init = getattr(self, 'copy_init', set()) | {name}
            self.temps.pop(name, None)
            if isinstance(value, ast.Call) and (dotted_name(value.func) or '').split('.')[-1] in ('empty_like', 'zeros_like'):
                self.like_alloc = getattr(self, 'like_alloc', set()) | {name}
            return
        v = self.ev(value)
        if v.kind == 'fam':
            if v.whole is not None:
                # result of a series-level op or a whole graded array expression
                self._decl(name, 'local', 0, v.length)
                self.temps.pop(name, None)
                # remember what the derived series was built from (C01.deriv-series)
                return
            k = v.w.coeff(v.posvar) if v.posvar else None
            if k == 1:
                off = v.w - Aff.var(v.posvar)
                if off.is_const:
                    self._decl(name, 'local', off, v.length)
                    self.temps.pop(name, None)
                    return
            if name in self.gvars and self.gvars[name].role == 'local':
                del self.gvars[name]
            self.temps[name] = Val('fam', v.w, v.reads, v.factors, posvar=v.posvar, length=v.length)
            return
        self._bind(name, v, st, value)

    def _bind(self, name, v, st, value):
        if name in self.gvars and self.gvars[name].role == 'local':
            del self.gvars[name]
        self.temps[name] = Val(v.kind, v.w, v.reads, v.factors, why=v.why)

    def _graded_alloc(self, value):
        """numpy.zeros_like(G) / empty_like(G) / G.copy() / G[1:].copy() / numpy.zeros((D,P,..)) ->
        (offset, length, zero-initialised)"""
        if isinstance(value, ast.Call):
            d = dotted_name(value.func)
            name = d.split('.')[-1] if d else None
            if name in ('zeros_like', 'empty_like', 'copy', '__zeros_like__', 'np_filled_like') and value.args:
                nm = self._graded_base(value.args[0]) if not isinstance(value.args[0], ast.Subscript) else None
                if nm:
                    g = self.gvars[nm]
                    return g.off, g.length, name in ('zeros_like', '__zeros_like__', 'np_filled_like')
                if isinstance(value.args[0], ast.Subscript):
                    v = self.ev(value.args[0])
                    if v.kind == 'fam' and v.posvar and v.w.coeff(v.posvar) == 1 and (v.w - Aff.var(v.posvar)).is_const:
                        return v.w - Aff.var(v.posvar), v.length, False
            if isinstance(value.func, ast.Attribute) and value.func.attr == 'copy' and not value.args:
                inner = value.func.value
                v = self.ev(inner)
                if v.kind == 'fam' and v.posvar and v.w.coeff(v.posvar) == 1 and (v.w - Aff.var(v.posvar)).is_const:
                    return v.w - Aff.var(v.posvar), v.length, False
            if name in ('zeros', 'empty', '__zeros__') and value.args:
                shp = value.args[0]
                if isinstance(shp, ast.Tuple) and shp.elts:
                    a = to_aff(shp.elts[0], self.aff_env)
                    if a is not None and '#D' in a.vars() and isinstance(shp.elts[0], ast.Name):
                        return Aff.const(0), a, name != 'empty'
                if isinstance(shp, ast.Attribute) and shp.attr == 'shape':
                    nm = self._graded_base(shp.value)
                    if nm:
                        g = self.gvars[nm]
                        return g.off, g.length, name != 'empty'
                if isinstance(shp, ast.Name) and shp.id.endswith('_shp'):
                    # numpy.zeros(A_shp) with A_shp = A_data.shape
                    for s2 in walk_no_nested(self.fi.node):
                        if isinstance(s2, ast.Assign) and len(s2.targets) == 1 and isinstance(s2.targets[0], ast.Name) \
                                and s2.targets[0].id == shp.id and isinstance(s2.value, ast.Attribute) and s2.value.attr == 'shape':
                            nm = self._graded_base(s2.value.value)
                            if nm:
                                g = self.gvars[nm]
                                return g.off, g.length, True
        return None

    def target_info(self, t):
        """store target -> ('graded', GVar, kind, idx/fam) | ('temp', name, full) | None"""
        if isinstance(t, ast.Subscript):
            base = t.value
            # y_data[1:].fill / x[..][..] handled by caller; nested subscripts on graded arrays
            while isinstance(base, ast.Subscript):
                t = base
                base = base.value
            nm = self._arr_name(base)
            if nm in self.gvars:
                return ('graded', self.gvars[nm], t)
            if isinstance(base, ast.Name):
                return ('temp', base.id, t)
        elif isinstance(t, ast.Name):
            if t.id in self.gvars:
                return ('graded-whole', self.gvars[t.id], t)
            return ('temp', t.id, None)
        return None

    def store(self, target, v, st, aug):
        info = self.target_info(target)
        if info is None:
            return
        if info[0] in ('graded', 'graded-whole') and info[1].name in getattr(self, 'reshape_alias', {}):
            base, bst = self.reshape_alias[info[1].name]
            gb = self.gvars.get(base)
            if gb is not None and gb.role in ('in', 'out') or (gb is not None and not gb.zero_init and base in getattr(self, 'like_alloc', set())):
                self.obligations += 1
                self.issue('RESHAPE', 'VIOLATION', st, 'coefficients are stored through `%s`, a reshape of `%s`: numpy.reshape returns a copy for '
                                                       'non-contiguous data (transposed / Fortran-ordered operands), so the results never reach `%s`'
                           % (norm(bst)[:60], base, base), {})
        if info[0] == 'temp':
            name = info[1]
            full = self._is_full_subscript(target)
            cur = self.temps.get(name)
            if aug is None:
                neww = v
                if not full and cur is not None and cur.kind == 'w':
                    neww = _join_w(cur, v)
                self.temps[name] = Val(neww.kind, neww.w, (cur.reads if (cur is not None and not full) else []) + v.reads,
                                       v.factors, why=neww.why)
            else:
                self._aug_temp(name, v, aug, st)
            return
        g = info[1]
        sub = info[2]
        self.stores += 1
        a0 = self.axis0(sub) if isinstance(sub, ast.Subscript) else None
        whole = info[0] == 'graded-whole' or a0 is None or (isinstance(a0, ast.Constant) and a0.value is Ellipsis) \
            or (isinstance(a0, ast.Slice) and a0.lower is None and a0.upper is None and a0.step is None)
        if whole:
            return self._store_family(g, Aff.const(0), 1, g.length, v, st, aug, target)
        if isinstance(a0, ast.Slice):
            fam = self.slice_family(g, a0, sub)
            if fam is None:
                self.unk(st, 'store through a slice with non-affine bounds')
                return
            start, step, length, (lo, hi) = fam
            self._check_slice_bounds(g, a0, lo, hi, step, sub)
            return self._store_family(g, start, step, length, v, st, aug, target)
        e = to_aff(a0, self.aff_env)
        if e is None:
            self.unk(st, 'store at a non-affine coefficient index: ' + norm(target))
            return
        self._store_coeff(g, e, v, st, aug, target)

    def _is_full_subscript(self, t):
        if not isinstance(t, ast.Subscript):
            return True
        sl = t.slice
        elts = sl.elts if isinstance(sl, ast.Tuple) else [sl]
        for x in elts:
            if isinstance(x, ast.Constant) and x.value is Ellipsis:
                continue
            if isinstance(x, ast.Slice) and x.lower is None and x.upper is None and x.step is None:
                continue
            return False
        return True

    def _aug_temp(self, name, v, op, st):
        cur = self.temps.get(name)
        if cur is None:
            cur = Val('w', ANY)
        if isinstance(op, (ast.Add, ast.Sub)):
            nv = self.add_vals(Val(cur.kind, cur.w, cur.reads, cur.factors, why=cur.why), v, st)
            self.temps[name] = nv
        elif isinstance(op, (ast.Mult,)):
            if isinstance(st, ast.AugAssign) and isinstance(st.value, ast.Constant) and st.value.value == 0:
                self.temps[name] = Val('w', ANY)
            else:
                self.temps[name] = self.mul_vals(cur, v, st)
        elif isinstance(op, ast.Div):
            if v.kind == 'w' and v.w == Aff.const(0):
                self.temps[name] = Val(cur.kind, cur.w, cur.reads + v.reads, cur.factors, why=cur.why)
            else:
                self.temps[name] = Val.bot('in-place division of a work array by a graded value', cur.reads + v.reads)
        else:
            self.temps[name] = Val.bot('in-place operator on a work array', cur.reads + v.reads)

    # --------------------------------------------------- the four obligations
    def _order_ctx_for(self, g, e):
        for ctx in reversed(self.order_ctx):
            if g.name in ctx['stored'] or (getattr(self, 'alias_of', {}).get(g.name) in ctx['stored']):
                return ctx
        return None

    def _store_coeff(self, g, e, v, st, aug, target):
        W = g.off + e
        fn = self.fi.qualname
        # O1 for the written index
        self._bounds(g, e, target, st, write=True)
        # C12.D: written index must not depend on the truncation degree
        self._no_degree(e, target, st)
        if v.kind == 'fam':
            self.obligations += 1
            self.issue('O3', 'VIOLATION', st, 'a stack of coefficients is stored into a single coefficient: `%s`' % norm(st)[:90], {})
            return
        if v.kind == 'bot':
            self.unk(st, 'right-hand side not understood (%s): %s' % (v.why, norm(st)[:90]))
            self._reads_checks(g, W, v, st, aug)
            self._mark_assigned(g, e)
            return
        # O3
        self.obligations += 1
        rhs_w = v.w
        ok3 = True
        if isinstance(aug, (ast.Mult, ast.Div)):
            if not (rhs_w == Aff.const(0)):
                ok3 = False
                self.issue('O3', 'VIOLATION', st, 'coefficient of weight %s is scaled in place by a value of weight %s: `%s`'
                           % (W, rhs_w, norm(st)[:90]), {})
        elif rhs_w == ANY:
            pass
        elif rhs_w != W:
            ok3 = False
            wit = self._witness_neq(rhs_w, W)
            if wit is not None:
                self.issue('O3', 'VIOLATION', st, 'coefficient of weight %s is assigned an expression of weight %s: `%s`'
                           % (W, rhs_w, norm(st)[:100]), wit)
            else:
                self.unk(st, 'weights %s / %s not comparable' % (W, rhs_w))
        if ok3:
            self.discharged += 1
            if len(self.samples) < 40:
                self.samples.append('%s: `%s`  target weight %s = rhs weight %s; reads %s'
                                    % (fn, norm(st)[:70], W, rhs_w, sorted(set('%s[%s]' % (r.arr, r.idx) for r in v.reads))[:6]))
        self.iter_stores.append((g.name, list(v.reads), e, isinstance(aug, ast.Mult)))
        self.wlog.append((g.name, ('idx', e), self.seq, tuple((c['var'], c['desc']) for c in self.order_ctx), st, tuple(self.branch), tuple(self.cons)))
        self.rlog.extend(v.reads)
        self.store_log = getattr(self, 'store_log', [])
        self.store_log.append((g.name, e, self._all_ranges([e])))
        self._reads_checks(g, W, v, st, aug)
        self._mark_assigned(g, e)

    def _mark_assigned(self, g, e):
        for ctx in reversed(self.order_ctx):
            if ctx['aff'] == e:
                ctx['assigned'].add(g.name)
                return
            offs = ctx.get('offs', {}).get(g.name)
            d_ = e - ctx['aff']
            if offs is not None and len(offs) == 1 and None not in offs and d_.is_const and d_.c == list(offs)[0]:
                # the array's only store in this order loop is at index order + c: that entry is now assigned
                ctx['assigned'].add(g.name)
                return

    def _store_family(self, g, start, step, length, v, st, aug, target):
        """whole-array / slice store: position-wise weights must agree"""
        fn = self.fi.qualname
        self.wlog.append((g.name, ('fam', start, step, length), self.seq, tuple((c['var'], c['desc']) for c in self.order_ctx), st, tuple(self.branch), tuple(self.cons)))
        self.rlog.extend(v.reads)
        if v.kind == 'bot':
            self.unk(st, 'right-hand side not understood (%s): %s' % (v.why, norm(st)[:90]))
            return
        self.obligations += 1
        if v.kind == 'w':
            if v.w == ANY or (v.w == Aff.const(0) and not v.reads and isinstance(aug, (ast.Mult, ast.Div))) or \
                    (v.w == Aff.const(0) and isinstance(aug, (ast.Mult, ast.Div))):
                self.discharged += 1
                return
            if v.w == Aff.const(0) and aug is None and not v.reads:
                # y_data[...] = 0. style constant fill
                self.discharged += 1
                return
            self.issue('O3', 'VIOLATION', st, 'a single value of weight %s is broadcast over coefficients of different '
                                              'weights: `%s`' % (v.w, norm(st)[:90]), {})
            return
        pv = v.posvar
        tw = g.off + start + Aff.var(pv).scale(step)
        if isinstance(aug, (ast.Mult, ast.Div)):
            self.issue('O3', 'VIOLATION', st, 'series scaled element-wise by another series: `%s`' % norm(st)[:90], {})
            return
        if v.w != tw:
            wit = self._witness_neq(v.w.subs(pv, Aff.const(1)), tw.subs(pv, Aff.const(1)))
            self.issue('O3', 'VIOLATION', st, 'position-wise weights differ in a whole-array store: target %s, value %s: `%s`'
                       % (tw, v.w, norm(st)[:90]), wit or {})
            return
        self.discharged += 1
        if len(self.samples) < 40:
            self.samples.append('%s: `%s`  family store, weight(pos) = %s on both sides' % (fn, norm(st)[:70], tw))

    def _bounds(self, g, idx, node, st, write=False):
        """O1: 0 <= idx <= len-1"""
        self.obligations += 1
        rg = self._all_ranges([idx, g.length])
        lo_ok = prove_nonneg(idx, rg)
        hi_ok = prove_le(idx, g.length - 1, rg)
        if lo_ok and hi_ok:
            self.discharged += 1
            return True
        L = g.length
        w = find_witness(lambda v: idx.eval(v) < 0 or idx.eval(v) > L.eval(v) - 1, rg, ['#D']) if self._closed([idx, L], rg) else None
        if w is not None:
            val = idx.eval(w)
            self.issue('O1', 'VIOLATION', st, 'coefficient index `%s` of %s leaves [0, %s] (= %s for %s)%s: `%s`'
                       % (idx, g.name, g.length - 1, val, _fmt(w),
                          ' - negative indices silently wrap to the highest coefficients' if val < 0 else '',
                          norm(node)[:80]), w)
        else:
            self.unk(st, 'bounds of index %s of %s neither proved nor refuted' % (idx, g.name))
        return False

    def _check_slice_bounds(self, g, sl, lo, hi, step, node):
        rg = self._all_ranges([lo, hi, g.length])
        for b, isstop in ((lo, False), (hi, True)):
            if b is None:
                continue
            self.obligations += 1
            ok = prove_nonneg(b if not (isstop and step == -1) else b + 1, rg) and prove_le(b, g.length, rg)
            if ok:
                self.discharged += 1
                continue
            L = g.length
            mn = -1 if (isstop and step == -1) else 0
            w = find_witness(lambda v: b.eval(v) < mn or b.eval(v) > L.eval(v), rg, ['#D']) if self._closed([b, L], rg) else None
            if w is not None:
                self.issue('O1', 'VIOLATION', node, 'slice bound `%s` on %s leaves [%d, %s] (= %s for %s): `%s`'
                           % (b, g.name, mn, L, b.eval(w), _fmt(w), norm(node)[:80]), w)
            else:
                self.unk(node, 'slice bound %s of %s neither proved nor refuted' % (b, g.name))

    def _all_ranges(self, exprs=None):
        """ranges of the variables occurring in `exprs` (all recorded variables when None),
        closed under the variables their bounds depend on, in creation order.  Active
        (possibly guard-narrowed) ranges take precedence over the recorded ones."""
        active = {v: (lo, hi) for v, lo, hi in self.ranges.items}
        table = {}
        order = []
        for uid, lo, hi in self.var_ranges:
            if hi is None:
                continue
            if uid not in table:
                order.append(uid)
            table[uid] = (lo, hi)
        for v, (lo, hi) in active.items():
            if v not in table:
                order.append(v)
            table[v] = (lo, hi)
        if exprs is None:
            need = set(order)
        else:
            need = set()
            todo = list(active)     # enclosing loops always count (a statement runs only when they are non-empty)
            for e in exprs:
                if e is not None:
                    todo.extend(e.vars())
            while todo:
                v = todo.pop()
                if v in need or v not in table:
                    continue
                need.add(v)
                lo, hi = table[v]
                todo.extend(lo.vars())
                todo.extend(hi.vars())
        # creation order respects dependencies (bounds mention only earlier variables)
        items = [(v, table[v][0], table[v][1]) for v in order if v in need]
        # active loops first (they are the outermost), keeping relative order
        act = [it for it in items if it[0] in active]
        rest = [it for it in items if it[0] not in active]
        return Ranges(act + rest, self.ranges.symmin)

    def _closed(self, exprs, rg):
        """every variable of the expressions is a loop/position variable with a known range or
        the truncation degree (free symbols such as a shift amount make a witness meaningless)"""
        have = set(rg.vars()) | {'#D'}
        for e in exprs:
            if e is not None and not (e.vars() <= have):
                return False
        return True

    def _no_degree(self, idx, node, st):
        self.obligations += 1
        if '#D' in idx.vars():
            self.issue('C12.D', 'VIOLATION', st, 'coefficient index `%s` depends on the truncation degree: `%s`' % (idx, norm(node)[:80]), {})
        else:
            self.discharged += 1

    def _avail(self, arr, W, target_g, aug, read=None):
        """largest admissible weight of a read of array `arr` while a coefficient of weight W of target_g is defined"""
        ctx = None
        for c in reversed(self.order_ctx):
            if arr in c['stored']:
                ctx = c
                break
        if ctx is None:
            return W, 'input'
        asg = read.asg if read is not None else ctx['assigned']
        # the loop stores arr[v + c_a] and is defining target[v + c_t] = weight W: after the previous iteration arr is
        # complete up to v + c_a - 1 (up to v + c_a once assigned in this iteration); never more than W (causality)
        offs = ctx.get('offs', {}).get(arr)
        c_t = W - ctx['aff']
        ga_ = self.gvars.get(arr)
        off_a = ga_.off if ga_ is not None else Aff.const(0)
        if offs is not None and len(offs) == 1 and None not in offs and c_t.is_const and off_a.is_const \
                and (list(offs)[0] + off_a.c - c_t.c) != 0:
            delta = list(offs)[0] + off_a.c - c_t.c
            if arr in asg:
                return (W + min(delta, 0)), 'assigned earlier in this iteration up to index order%+d' % delta
            return (W + min(delta - 1, 0)), 'defined in this loop at index order%+d, not yet assigned in this iteration' % delta
        if arr in asg:
            return W, 'assigned earlier in this iteration'
        return W - 1, 'defined in this loop, not yet assigned for this order'

    def _min_store_index(self, arr):
        """smallest axis-0 index at which this function stores into `arr` (None if unknown / no store)"""
        best = None
        for name, e, rg in getattr(self, 'store_log', []):
            if name != arr:
                continue
            lb = lower_bound(e, rg)
            if not lb.is_const:
                return None
            best = lb.c if best is None else min(best, lb.c)
        for st in walk_no_nested(self.fi.node):
            pass
        return best

    def _avail_conditional(self, r, ga, wr, W, rg):
        """array assigned only under a guard `v >= b` on an enclosing loop variable: where the
        guard holds the current order is available, elsewhere only lower orders - except
        entries of a parameter array below every index this function stores (recursion base
        supplied by the caller)"""
        for c in reversed(self.order_ctx):
            cond = c.get('cond', {}).get(r.arr)
            if cond is None:
                continue
            uid, b = cond
            if rg.get(uid) is None:
                return False
            ra = _narrow(rg, uid, lo=b)
            rb = _narrow(rg, uid, hi=b - 1)
            if not prove_le(wr, W, ra):
                return False
            if prove_le(wr, W - 1, rb):
                return True
            ms = self._min_store_index(r.arr)
            if ga.role in ('in', 'out') and ms is not None and prove_le(r.idx, Aff.const(ms) - 1, rb):
                return True
            return False
        return False

    def _reads_checks(self, g, W, v, st, aug):
        rg = self._all_ranges([r.idx for r in v.reads] + [W])
        seen = set()
        for r in v.reads:
            ga = self.gvars.get(r.arr)
            if ga is None:
                continue
            key = (r.arr, repr(r.idx))
            if key in seen:
                continue
            seen.add(key)
            # family position variables without a recorded range: give them the family length
            self._bounds(ga, r.idx, r.node, st)
            self._no_degree(r.idx, r.node, st)
            # O2 availability
            top, why = self._avail(r.arr, W, g, aug, r)
            wr = ga.off + r.idx
            self.obligations += 1
            if prove_le(wr, top, rg) or self._avail_conditional(r, ga, wr, W, rg):
                self.discharged += 1
            else:
                w = find_witness(lambda val: wr.eval(val) > top.eval(val), rg, ['#D']) if self._closed([wr, top], rg) else None
                if w is not None:
                    self.issue('O2', 'VIOLATION', st, 'order-%s coefficient reads %s[%s] of weight %s > %s (%s; e.g. %s): `%s`'
                               % (W, r.arr, r.idx, wr, top, why, _fmt(w), norm(st)[:80]), w)
                else:
                    self.unk(st, 'availability of %s[%s] neither proved nor refuted' % (r.arr, r.idx))
        self._maximality(g, W, v, st, aug)

    def _maximality(self, g, W, v, st, aug):
        """O4: for every summation variable occurring in the reads, stepping one
        beyond either end of its range must leave the admissible domain of some
        read or make an explicit scalar factor vanish."""
        rg = self._all_ranges([r.idx for r in v.reads] + [W] + list(v.factors))
        vars_in_reads = set()
        for r in v.reads:
            vars_in_reads |= r.idx.vars()
        inner = []
        # the variables of the target weight are the order variables; every other loop /
        # comprehension / position variable in the reads is a summation variable
        order_vars = set(W.vars())
        for var, lo, hi in rg.items:
            if var in vars_in_reads and var not in order_vars and '#half' not in var:
                inner.append((var, lo, hi))
        # inner explicit loops that enclose this statement but are inside the order loop are summation variables too
        for var, lo, hi in inner:
            rs = [r for r in v.reads if var in r.idx.vars() and r.arr in self.gvars]
            if len(rs) < 2 and not any(var in f.vars() for f in v.factors):
                continue
            for end, point in (('low', lo - 1), ('high', hi + 1)):
                self.obligations += 1
                verdict, why = self._extension_blocked(var, point, rs, v.factors, W, g, aug, rg)
                if verdict:
                    self.discharged += 1
                    if len(self.samples) < 60 and end == 'high':
                        self.samples.append('%s: summation over %s in [%s, %s] is maximal at the %s end: %s'
                                            % (self.fi.qualname, var.strip('#'), lo, hi, end, why))
                elif verdict is False:
                    self.issue('O4', 'VIOLATION', st, 'summation over `%s` in [%s, %s] stops short at its %s end: the term at %s=%s '
                                                      'reads only available coefficients (%s) and carries no vanishing factor, yet it is '
                                                      'missing from `%s`' % (var.strip('#'), lo, hi, end, var.strip('#'), point, why, norm(st)[:90]), {})
                else:
                    self.unk(st, 'maximality of the range of %s at its %s end undecided (%s)' % (var, end, why))

    def _extension_blocked(self, var, point, rs, factors, W, g, aug, rg):
        """True: the term at var=point is inadmissible (range maximal); False: admissible
        for every order (range too short); None: undecided"""
        outer = Ranges([it for it in rg.items if it[0] != var], rg.symmin)
        # vanishing explicit factor
        for f in factors:
            if var in f.vars():
                fv = f.subs(var, point)
                if fv == Aff.const(0):
                    return True, 'factor %s vanishes' % f
        # symmetric self-product x[f(j)] * x[g(j)] (both orders counted, e.g. 2*sum_{i<j}): stepping across the
        # diagonal f > g repeats pairs; f == g is the diagonal term, which must be supplied by a separate store
        if len(rs) == 2 and rs[0].arr == rs[1].arr and not any(var in f.vars() for f in factors):
            f0, g0 = rs[0].idx, rs[1].idx
            if f0.coeff(var) * g0.coeff(var) < 0:
                fp, gp = f0.subs(var, point), g0.subs(var, point)
                up, dn = (fp, gp) if f0.coeff(var) * (1 if (point - self._range_lo(var, rg)).c >= 0 or True else 1) > 0 else (gp, fp)
                inc, dec = (fp, gp) if f0.coeff(var) > 0 else (gp, fp)
                high_end = prove_nonneg(point - self._range_hi(var, rg) - 1, outer) if self._range_hi(var, rg) is not None else False
                if high_end:
                    if prove_nonneg(inc - dec - 1, outer):
                        return True, 'pairs (%s, %s) cross the diagonal: already counted by symmetry' % (inc, dec)
                    if inc == dec:
                        if self._diag_supplied(rs[0].arr, inc, g):
                            return True, 'diagonal term %s[%s]^2 is supplied by a separate store' % (rs[0].arr, inc)
                        return False, 'diagonal term %s[%s]*%s[%s]' % (rs[0].arr, inc, rs[0].arr, dec)
        desc = []
        conds = []      # per read: (idx Aff, length Aff, weight Aff, top Aff, scaled)
        for r in rs:
            ga = self.gvars[r.arr]
            idx = r.idx.subs(var, point)
            top, why = self._avail(r.arr, W, g, aug, r)
            w = ga.off + idx
            # below the array / unavailable weight -> blocked (must hold for all outer valuations)
            if prove_le(idx, Aff.const(-1), outer):
                return True, '%s[%s] is below the array' % (r.arr, idx)
            if prove_le(ga.length, idx, outer):
                return True, '%s[%s] is beyond the array' % (r.arr, idx)
            if prove_le(top + 1, w, outer):
                return True, '%s[%s] has weight %s > available %s (%s)' % (r.arr, idx, w, top, why)
            sc = (ga.scaled or r.arr in self.scaled_later)
            if sc and prove_le(w, Aff.const(0), outer) and prove_nonneg(w, outer):
                return True, '%s[%s] is the weight-0 entry of an index-scaled array' % (r.arr, idx)
            conds.append((idx, ga.length, w, top, sc))
            desc.append('%s[%s]' % (r.arr, idx))
        # the missing term may be supplied by a separate store into the same coefficient
        # (`z[d] *= y[0]` is the c = d term of `z[d] += z[c]*y[d-c]`)
        e_t = W - g.off
        ext = [(r.arr, r.idx.subs(var, point)) for r in rs]
        for (tname, reads, e2, is_mult) in self.iter_stores:
            if tname != g.name or e2 != e_t:
                continue
            have = [(r.arr, r.idx) for r in reads] + ([(g.name, e_t)] if is_mult else [])
            if all(x in have for x in ext):
                return True, 'the term %s is supplied by a separate store into %s[%s]' % (ext, g.name, e_t)
        # not blocked for every order: is there an order for which the extra term is admissible?
        facs = [f.subs(var, point) for f in factors if var in f.vars()]
        sym = None
        if len(rs) == 2 and rs[0].arr == rs[1].arr and not facs:
            f0, g0 = rs[0].idx, rs[1].idx
            if f0.coeff(var) * g0.coeff(var) < 0:
                sym = (f0.subs(var, point), g0.subs(var, point)) if f0.coeff(var) > 0 else (g0.subs(var, point), f0.subs(var, point))

        def admissible(val):
            for f in facs:
                if f.eval(val) == 0:
                    return False
            for idx, L, w, top, sc in conds:
                i = idx.eval(val)
                if i < 0 or i > L.eval(val) - 1:
                    return False
                if w.eval(val) > top.eval(val):
                    return False
                if sc and w.eval(val) == 0:
                    return False
            if sym is not None and sym[0].eval(val) > sym[1].eval(val):
                return False
            return True
        wit = find_witness(admissible, outer, ['#D'])
        if wit is not None:
            return False, ', '.join(desc) + ' for ' + _fmt(wit)
        return True, 'no admissible extension for any truncation degree up to the enumeration bound (%s)' % ', '.join(desc)

    def _range_hi(self, var, rg):
        r = rg.get(var)
        return r[1] if r else None

    def _range_lo(self, var, rg):
        r = rg.get(var)
        return r[0] if r else Aff.const(0)

    def _diag_supplied(self, arr, idx, g):
        """another store of this function reads arr[idx] twice (square) into the same target array"""
        for (tname, reads, _e, _m) in self.iter_stores:
            if tname != g.name:
                continue
            n = sum(1 for r in reads if r.arr == arr and r.idx == idx)
            if n >= 2:
                return True
        # look ahead in the source: `+= numpy.square(arr[idx])` / `arr[idx]*arr[idx]` in the same loop body
        return self._diag_lookahead(arr, idx, g)

    def _diag_lookahead(self, arr, idx, g):
        for ctx in reversed(self.order_ctx):
            node = ctx.get('node')
            if node is None:
                continue
            for n in ast.walk(node):
                if isinstance(n, ast.Call) and (dotted_name(n.func) or '').endswith('square') and n.args:
                    v = self.ev(n.args[0])
                    if v.kind == 'w' and any(r.arr == arr and r.idx == idx for r in v.reads):
                        return True
        return False

    # ------------------------------------------------------------- statements
    def augassign(self, st):
        t = st.target
        if isinstance(t, ast.Name) and t.id in getattr(self, 'view_alias', {}):
            # `b_dp = y_data[d, p]` ... `b_dp += e`: the update goes through the view into the graded array
            v = self.ev(st.value)
            self.store(self.view_alias[t.id], v, st, aug=st.op)
            return
        if isinstance(t, ast.Name):
            if t.id in self.gvars:
                v = self.ev(st.value)
                self.store(t, v, st, aug=st.op)
                return
            if t.id in self.aff_env or self.ranges.get(t.id) is not None:
                self.aff_env.pop(t.id, None)
                return
            v = self.ev(st.value)
            if t.id in self.temps or v.reads:
                self._aug_temp(t.id, v, st.op, st)
            return
        if isinstance(t, ast.Subscript):
            v = self.ev(st.value)
            self.store(t, v, st, aug=st.op)

    def call_stmt(self, c, st):
        d = dotted_name(c.func)
        name = d.split('.')[-1] if d else None
        kw = {k.arg: k.value for k in c.keywords if k.arg}
        # x.fill(0) / y_data[1:].fill(0)
        if isinstance(c.func, ast.Attribute) and c.func.attr == 'fill':
            tgt = c.func.value
            arg = c.args[0] if c.args else None
            isz = isinstance(arg, ast.Constant) and arg.value == 0
            v = Val('w', ANY) if isz else self.ev(arg) if arg is not None else Val.scalar()
            if isinstance(tgt, (ast.Subscript, ast.Name)):
                self.store(tgt, v, st, aug=None)
            return
        out = kw.get('out')
        if d and d.split('.')[0] in ('numpy', 'np') and out is None and name in ('add', 'multiply', 'subtract', 'divide', 'true_divide', 'sign', 'absolute', 'negative') \
                and len(c.args) >= 3:
            out = c.args[2]
        if d and d.split('.')[0] in ('numpy', 'np', 'scipy') and out is not None:
            c2 = ast.Call(func=c.func, args=c.args[:2] if (name in ('add', 'multiply', 'subtract', 'divide', 'true_divide') and len(c.args) >= 3) else c.args,
                          keywords=[k for k in c.keywords if k.arg != 'out'])
            ast.copy_location(c2, c)
            v = self.ev_call(c2)
            # numpy.add(z[d], tmp, out=z[d]) is an accumulation into z[d]
            aug = None
            if name in ('add', 'subtract') and c.args and norm(c.args[0]) == norm(out):
                aug = ast.Add()
                v = self.ev(c.args[1])
            if isinstance(out, (ast.Subscript, ast.Name)):
                self.store(out, v, st, aug=aug)
            return
        if (d and d.split('.')[0] in ('cls', 'self', 'UTPM') and name in SERIES_OPS) or \
                (isinstance(c.func, ast.Name) and c.func.id in SERIES_OPS):
            self.series_call(name if name in SERIES_OPS else c.func.id, c, kw)
            return
        # other calls: evaluate for reads
        self.ev_call(c)


def _strip_minmax(it, temps):
    """range(a, min(b, X)) with X data dependent -> range(a, b)"""
    import copy
    it = copy.deepcopy(it)
    for n in ast.walk(it):
        if isinstance(n, ast.Call) and isinstance(n.func, ast.Name) and n.func.id == 'range':
            for i, a in enumerate(n.args):
                if isinstance(a, ast.Call) and isinstance(a.func, ast.Name) and a.func.id in ('min', 'max'):
                    keep = [x for x in a.args if not any(isinstance(y, ast.Name) and y.id in temps and temps[y.id].reads for y in ast.walk(x))]
                    if len(keep) == 1:
                        n.args[i] = keep[0]
    return it


def _narrow(rg, uid, lo=None, hi=None):
    """ranges with the interval of `uid` intersected with [lo, hi] (a bound is only
    replaced when it is provably tighter)"""
    items = []
    for v, l, h in rg.items:
        if v == uid:
            # the interval itself is non-empty wherever a statement executes
            outer = Ranges(items + [(v, l, h)], rg.symmin)
            if lo is not None and prove_le(l, lo, outer):
                l = lo
            if hi is not None and prove_le(hi, h, outer):
                h = hi
        items.append((v, l, h))
    return Ranges(items, rg.symmin)


def _wkey(v):
    if v is None:
        return None
    return (v.kind, repr(v.w))


def _join_w(a, b):
    if a is None:
        return b
    if b is None:
        return a
    if a.kind == 'bot':
        return a
    if b.kind == 'bot':
        return b
    reads = a.reads + [r for r in b.reads if r not in a.reads]
    if a.w == ANY:
        return Val('w', b.w, reads, b.factors)
    if b.w == ANY:
        return Val('w', a.w, reads, a.factors)
    if a.w == b.w:
        return Val('w', a.w, reads, a.factors)
    return Val.bot('work array holds values of different weights (%s, %s)' % (a.w, b.w), reads)


def _fmt(w):
    return ', '.join('%s=%s' % (k.replace('#D', 'D').strip('#'), v) for k, v in sorted(w.items()) if not k.startswith('#j'))


def coverage_gaps(ka, dmax=5, extra_cover=None):
    """O7: every coefficient index 0..len-1 of an array that the function fills inside a loop over the order must be
    stored for every truncation degree (an order loop that stops one short or starts one late leaves a coefficient
    undefined or zero).  Decided by enumerating the stored index sets for D = 1..dmax (index domain only).
    -> list of (array, statement of a loop-indexed store, D, missing indices)"""
    from .affine import enumerate_valuations
    alias = getattr(ka, 'alias_of', {})

    def root(n):
        s_ = set()
        while n in alias and n not in s_:
            s_.add(n)
            n = alias[n]
        return n
    by = {}
    for w in ka.wlog:
        by.setdefault(root(w[0]), []).append(w)
    out = []
    checked = [0]
    for arr, ws in sorted(by.items()):
        g = ka.gvars.get(arr) or ka.gvars.get(ws[0][0])
        if g is None:
            continue
        def defines(w):
            st_ = w[4]
            return not (isinstance(st_, ast.AugAssign) and isinstance(st_.op, (ast.Mult, ast.Div)))

        def index_scaling(w):
            # `y[d] /= d`, `u[j] *= j`, `t[d-1] *= d`: the factor mentions the variable of the store index
            st_ = w[4]
            if not (isinstance(st_, ast.AugAssign) and isinstance(st_.op, (ast.Mult, ast.Div)) and w[1][0] == 'idx' and w[1][1].vars()):
                return False
            tv = {n.id for n in ast.walk(st_.target) if isinstance(n, ast.Name)}
            return bool(tv & {n.id for n in ast.walk(st_.value) if isinstance(n, ast.Name)})

        looped = [w for w in ws if w[1][0] == 'idx' and w[1][1].vars() and defines(w)]
        if True:
            # index scaling (`u[j] *= j` / `y[d] /= d`): every entry of weight >= 1 must receive its factor
            sc = [w for w in ws if index_scaling(w)]
            if sc:
                gap_ = _path_gap(ka, g, sc, dmax, lambda st: False, min_weight=1)
                if gap_ != 'undecided':
                    checked[0] += 1
                    if gap_ is not None:
                        out.append((arr, sc[0][4], gap_[0], gap_[1], gap_[2]))
                        continue
        if not looped and not (extra_cover or {}).get(arr):
            continue
        if g.role == 'in' and not any(not isinstance(w[4], ast.AugAssign) for w in ws):
            continue        # an operand that is only updated in place (`self.data[0] += c`): the other coefficients stay by design
        term = getattr(ka, 'term_arms', {})

        def zero_fill(st):
            v = getattr(st, 'value', None)
            return isinstance(st, ast.Assign) and isinstance(v, ast.Constant) and v.value == 0 and v.value is not False

        # paths: the fall-through path, and one per terminating branch arm (an arm ending in return/raise)
        arms = sorted({b for w in ws for b in w[5] if b in term}, key=lambda b: term[b])
        ft = [w for w in ws if not any(b in term for b in w[5])]
        paths = [('fall-through', ft)]
        once = getattr(ka, 'once_ifs', set())
        for x in sorted({b[0] for w in ft for b in w[5] if b[0] in once}):
            if {b[1] for w in ft for b in w[5] if b[0] == x} == {0, 1}:
                paths.append(('arm 0 of an if executed once', [w for w in ft if (x, 1) not in w[5]]))
                paths.append(('arm 1 of an if executed once', [w for w in ft if (x, 0) not in w[5]]))
        for t in arms:
            paths.append(('the branch at line %d' % term[t],
                          [w for w in ws if t in w[5] or (not any(b in term for b in w[5]) and getattr(w[4], 'lineno', 0) < term[t])]))
        for pname, pws in paths:
            pws = [w for w in pws if defines(w)]
            if not any(w[1][0] == 'idx' and w[1][1].vars() for w in pws) and not (extra_cover or {}).get(arr):
                continue
            gap_ = _path_gap(ka, g, pws, dmax, zero_fill, extra=(extra_cover or {}).get(arr))
            if gap_ == 'undecided':
                continue
            if gap_ is not None and g.role == 'local':
                # a work array that does not leave the function: an entry nobody reads may stay undefined
                rd = read_sets(ka, arr, dmax)
                if rd is not None:
                    allg = {D_: [i for i in miss if i in rd.get(D_, set())] for D_, miss in gap_[2].items()}
                    allg = {D_: miss for D_, miss in allg.items() if miss}
                    gap_ = (min(allg), allg[min(allg)], allg) if allg else None
            checked[0] += 1
            if gap_ is not None:
                lw = ([w for w in pws if w[1][0] == 'idx' and w[1][1].vars()] or pws or ws)[0]
                out.append((arr, lw[4], gap_[0], gap_[1], gap_[2]))
                break
        continue
    ka.coverage_checked = checked[0]
    return out


def read_sets(ka, arr, dmax=5):
    """{D: coefficient indices of `arr` that some logged read can hit}; None if a read could not be enumerated"""
    from .affine import enumerate_valuations
    alias = getattr(ka, 'alias_of', {})

    def root(n):
        s_ = set()
        while n in alias and n not in s_:
            s_.add(n)
            n = alias[n]
        return n
    out = {D: set() for D in range(1, dmax + 1)}
    for r in ka.rlog:
        if root(r.arr) != arr and r.arr != arr:
            continue
        exprs = [r.idx] + [Aff.var(c_[0]) for c_ in r.cons]
        try:
            rg = ka._all_ranges(exprs)
            vals = list(enumerate_valuations(rg, ['#D'], dmax=dmax))
        except Exception:
            return None
        for val in vals:
            if not _cons_ok(r.cons, val, False):
                continue
            try:
                out[val.get('#D')].add(int(r.idx.eval(val)))
            except (KeyError, TypeError, ValueError):
                return None
    # whole-array uses that are not logged as reads (returned, passed on, copied): every entry counts as read
    g = ka.gvars.get(arr)
    for n in walk_no_nested(ka.fi.node):
        if isinstance(n, ast.Name) and n.id == arr and isinstance(n.ctx, ast.Load):
            par = getattr(n, '_parent', None)
    for n in ast.walk(ka.fi.node):
        for ch in ast.iter_child_nodes(n):
            if isinstance(ch, ast.Name) and ch.id == arr and isinstance(ch.ctx, ast.Load) and not isinstance(n, (ast.Subscript, ast.Attribute)):
                # bare use of the array (argument, return value, right-hand side)
                for D in out:
                    try:
                        out[D] |= set(range(int(g.length.eval({'#D': D})))) if g is not None else set()
                    except (KeyError, TypeError, ValueError):
                        return None
    return out


def cover_sets(ka, arr, dmax=5):
    """{D: indices of `arr` stored by this function} (all paths united) - used to credit a delegating kernel"""
    from .affine import enumerate_valuations
    alias = getattr(ka, 'alias_of', {})

    def root(n):
        s_ = set()
        while n in alias and n not in s_:
            s_.add(n)
            n = alias[n]
        return n
    cover = {D: set() for D in range(1, dmax + 1)}
    for (n, kind, seq, loops, st, branch, cons) in ka.wlog:
        if root(n) != arr and n != arr:
            continue
        if isinstance(st, ast.AugAssign) and isinstance(st.op, (ast.Mult, ast.Div)):
            continue
        exprs = ([kind[1]] if kind[0] == 'idx' else [kind[1], kind[3]]) + [Aff.var(c_[0]) for c_ in cons]
        try:
            rg = ka._all_ranges(exprs)
            vals = list(enumerate_valuations(rg, ['#D'], dmax=dmax))
        except Exception:
            continue
        for val in vals:
            if not _cons_ok(cons, val, False):
                continue
            D = val.get('#D')
            try:
                if kind[0] == 'idx':
                    cover[D].add(int(kind[1].eval(val)))
                else:
                    s0, L = int(kind[1].eval(val)), int(kind[3].eval(val))
                    cover[D].update(s0 + kind[2] * k for k in range(L))
            except (KeyError, TypeError, ValueError):
                pass
    return cover


def _path_gap(ka, g, ws, dmax, zero_fill, min_weight=0, extra=None):
    """-> None (covered) | (D, missing indices) | 'undecided' for the stores of one execution path"""
    from .affine import enumerate_valuations
    cover = {D: set((extra or {}).get(D, ())) for D in range(1, dmax + 1)}
    for (n, kind, seq, loops, st, branch, cons) in ws:
        if kind[0] == 'fam' and zero_fill(st):
            continue            # initialisation with zeros defines nothing
        exprs = [kind[1]] if kind[0] == 'idx' else [kind[1], kind[3]]
        exprs = exprs + [Aff.var(c_[0]) for c_ in cons]      # the variables a branch condition constrains
        try:
            rg = ka._all_ranges(exprs)
            vals = list(enumerate_valuations(rg, ['#D'], dmax=dmax))
        except Exception:
            return 'undecided'
        for val in vals:
            if not _cons_ok(cons, val, False):
                continue
            D = val.get('#D')
            try:
                if kind[0] == 'idx':
                    cover[D].add(int(kind[1].eval(val)))
                else:
                    s0, L = int(kind[1].eval(val)), int(kind[3].eval(val))
                    cover[D].update(s0 + kind[2] * k for k in range(L))
            except (KeyError, TypeError, ValueError):
                return 'undecided'
    allgaps = {}
    for D in range(1, dmax + 1):
        try:
            length = int(g.length.eval({'#D': D}))
        except (KeyError, TypeError, ValueError):
            return 'undecided'
        try:
            off = int(g.off.eval({'#D': D}))
        except (KeyError, TypeError, ValueError):
            off = 0
        gap = sorted(i for i in set(range(length)) - cover[D] if i + off >= min_weight)
        if gap:
            allgaps[D] = gap
    if allgaps:
        D0 = min(allgaps)
        return D0, allgaps[D0], allgaps
    return None


def _is_plain_store(st):
    """a statement that defines the stored entries without reading their previous contents"""
    if isinstance(st, ast.Assign):
        return True
    if isinstance(st, ast.AugAssign):
        # arr *= 0 clears
        return isinstance(st.op, ast.Mult) and isinstance(st.value, ast.Constant) and st.value.value == 0
    return not isinstance(st, ast.AugAssign)      # call with out= / .fill(...)


def init_hazards(ka):
    """O5: an accumulation (`+=`, `-=`) into a coefficient of an output array that no earlier statement of the same
    execution has defined: the result then contains whatever the buffer held before (the caller's `out` from a previous
    call, or numpy.empty garbage).  Output arrays = role `out`, or arrays this function also stores plainly into.
    An accumulation is covered by an allocation with zeros, by an earlier whole-array store/clear, or by an earlier
    plain store at the same coefficient index in the same iteration of the enclosing loops.
    -> list of (statement, array, reason)"""
    alias = getattr(ka, 'alias_of', {})

    def root(n):
        seen = set()
        while n in alias and n not in seen:
            seen.add(n)
            n = alias[n]
        return n
    plain_targets = {root(w[0]) for w in ka.wlog if _is_plain_store(w[4])}
    outs = {root(g.name) for g in ka.gvars.values() if g.role == 'out'}
    cand = plain_targets | outs
    zero = {root(g.name) for g in ka.gvars.values() if g.zero_init}
    issues = []
    seen = set()
    for (name, kind, seq, loops, st, branch, cons) in ka.wlog:
        if not (isinstance(st, ast.AugAssign) and isinstance(st.op, (ast.Add, ast.Sub))):
            continue
        a = root(name)
        if a not in cand or a in zero or id(st) in seen:
            continue
        g = ka.gvars.get(name)
        covered = False
        for (bn, bkind, bseq, bloops, bst, bbranch, bcons) in ka.wlog:
            if root(bn) != a or bst is st or not _is_plain_store(bst):
                continue
            # B must execute before A whenever A executes: not nested in a loop A is not in, on A's branch path
            if len(bloops) > len(loops) or tuple(u for u, _ in bloops) != tuple(u for u, _ in loops[:len(bloops)]):
                continue
            bb = dict(bbranch)
            ab = dict(branch)
            if any(k not in ab or ab[k] != arm for k, arm in bb.items()):
                continue
            if getattr(bst, 'lineno', 0) > getattr(st, 'lineno', 0):
                continue
            if bkind[0] == 'fam':
                _, start, step, length = bkind
                if start == Aff.const(0) and step == 1 and g is not None and length == g.length:
                    covered = True
                    break
                if kind[0] == 'fam' and bkind[1:] == kind[1:]:
                    covered = True
                    break
            elif kind[0] == 'idx' and bkind[1] == kind[1] and len(bloops) >= 0:
                # same symbolic index; the loops that the index depends on must be shared
                dep = kind[1].vars()
                shared = {u for u, _ in bloops}
                if all((v not in {u for u, _ in loops}) or v in shared for v in dep):
                    covered = True
                    break
        if not covered:
            seen.add(id(st))
            issues.append((st, name, 'no earlier statement of this function defines %s at this coefficient index' % name))
    return issues


def alias_hazards(ka, W, R, dmax=5):
    """read-after-write hazards if array R shares storage with array W: a read of R[i] that executes after a
    write of W[i] (later statement of the same iteration, or a later iteration in the loop's actual order)
    sees the new value although the algorithm needs the operand's original one.
    -> list of (write stmt, read node, witness)"""
    import itertools
    from .affine import _Default
    out = []
    range_of = {}
    for uid, lo, hi in ka.var_ranges:
        if hi is not None:
            range_of[uid] = (lo, hi)
    writes = [w for w in ka.wlog if w[0] == W]
    reads = [r for r in ka.rlog if r.arr == R]
    seen = set()
    for (wa, wkind, wseq, wloops, wst, wbranch, wcons) in writes:
        for r in reads:
            key = (id(wst), id(r.node))
            if key in seen:
                continue
            # events in different arms of one if/elif never execute together
            wb = dict(wbranch)
            if any(k in wb and wb[k] != arm for k, arm in r.branch):
                continue
            # a write in an arm that ends in return / raise is followed only by what that arm still executes
            term = getattr(ka, 'term_arms', {})
            if any(b in term and b not in r.branch for b in wbranch):
                continue
            # variables: write side uses the original uids, read side primed copies for loop variables
            rl = r.loops
            common = 0
            while common < len(wloops) and common < len(rl) and wloops[common][0] == rl[common][0]:
                common += 1

            def prime(a):
                for (uid, _d) in rl:
                    a = a.subs(uid, Aff.var(uid + "'"))
                return a
            ridx = prime(r.idx)
            w_vars = [u for u, _ in wloops]
            r_vars = [u for u, _ in rl]
            extra = sorted(v for v in r.idx.vars() if v not in r_vars and v in range_of)
            wit = _search_hazard(wkind, wseq, wloops, ridx, r.seq, rl, common, range_of, extra, dmax, wcons, r.cons)
            if wit is not None:
                seen.add(key)
                out.append((wst, r.node, wit))
    return out


def _cons_ok(cons, val, primed):
    for uid, op, a in cons:
        k = uid + ("'" if primed else '')
        if k not in val:
            continue
        try:
            c = _ev(a, val, primed=primed)
        except KeyError:
            continue
        v = val[k]
        if (op == 'eq' and v != c) or (op == 'ge' and v < c) or (op == 'le' and v > c):
            return False
    return True


def _search_hazard(wkind, wseq, wloops, ridx, rseq, rloops, common, range_of, extra, dmax, wcons=(), rcons=()):
    import math
    for D in range(1, dmax + 1):
        base = {'#D': D}

        def enum(vars_, primed, val, k=0):
            if k == len(vars_):
                yield dict(val)
                return
            uid = vars_[k]
            if uid not in range_of:
                return
            lo, hi = range_of[uid]
            try:
                src = dict(val)
                if primed:
                    # bounds of primed variables refer to primed outer variables
                    l = _ev(lo, src, primed=True)
                    h = _ev(hi, src, primed=True)
                else:
                    l = _ev(lo, src)
                    h = _ev(hi, src)
            except KeyError:
                return
            for x in range(int(math.ceil(l)), int(math.floor(h)) + 1):
                val[uid + ("'" if primed else '')] = x
                for v in enum(vars_, primed, val, k + 1):
                    yield v
            val.pop(uid + ("'" if primed else ''), None)
        wv = [u for u, _ in wloops]
        rv = [u for u, _ in rloops]
        for val_w in enum(wv, False, dict(base)):
            if not _cons_ok(wcons, val_w, False):
                continue
            for val in enum(rv, True, dict(val_w)):
                if not _cons_ok(rcons, val, True):
                    continue
                # execution order: read after write?
                after = None
                for k in range(common):
                    uid, desc = wloops[k]
                    a, b = val[uid], val[uid + "'"]
                    if a == b:
                        continue
                    later = (b < a) if desc else (b > a)
                    after = later
                    break
                if after is None:
                    after = rseq > wseq
                if not after:
                    continue
                # position variables of the read
                for val2 in _enum_extra(extra, range_of, dict(val)):
                    try:
                        i = ridx.eval(_DefaultP(val2))
                    except KeyError:
                        continue
                    if wkind[0] == 'idx':
                        try:
                            e = wkind[1].eval(_DefaultP(val2))
                        except KeyError:
                            continue
                        if i == e:
                            return {k.replace('#D', 'D'): v for k, v in val2.items() if not k.startswith('#j')}
                    else:
                        return None
    return None


class _DefaultP(dict):
    def __missing__(self, k):
        if k.endswith("'") and k[:-1] in self:
            return self[k[:-1]]
        return 3


def _ev(aff, val, primed=False):
    s = aff.c
    for k, v in aff.t.items():
        kk = (k + "'") if (primed and (k + "'") in val) else k
        if kk not in val:
            if k.startswith('#') or '@' in k:
                raise KeyError(k)
            s += v * 3
        else:
            s += v * val[kk]
    return s


def _enum_extra(extra, range_of, val, k=0):
    import math
    if k == len(extra):
        yield val
        return
    uid = extra[k]
    lo, hi = range_of[uid]
    try:
        l = _ev(lo, val, primed=True)
        h = _ev(hi, val, primed=True)
    except KeyError:
        return
    for x in range(int(math.ceil(l)), int(math.floor(h)) + 1):
        val[uid] = x
        for v in _enum_extra(extra, range_of, val, k + 1):
            yield v
    val.pop(uid, None)
