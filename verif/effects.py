"""
E1 - alias / effect analysis ("who may write whose storage").

Abstract value (AV): either a frozenset of roots or a tuple of AVs (tuple /
list structure is kept so that `x2, y2 = cls._broadcast_arrays(a, b)` does not
conflate a and b).  Roots:

    ('p', name)        storage reachable from parameter `name` of the function
    ('fresh', line)    storage allocated inside the function

The walk over a function body is flow sensitive (strong update of local names,
union at joins, loop bodies iterated to a fixed point).  Calls to analysed
functions use summaries computed to a global fixed point:

    writes : {param name: {(mode, witness)}}    mode in 'acc' | 'ovw'
    ret    : AV over ('p', ..) / ('fresh', 0)

Library calls are classified by the frozen tables below.
"""
import ast
from .model import FuncInfo, dotted_name, norm, walk_no_nested

FRESH0 = ('fresh', 0)
EMPTY = frozenset()

# attributes whose value carries no array storage of the object
SCALAR_ATTRS = {'shape', 'dtype', 'ndim', 'size', 'strides', 'flags', 'itemsize', 'nbytes',
                '__name__', '__class__', '__doc__', 'ID', 'descr', 'vectorized', 'kwargs',
                'functionCount', 'owndata', 'domain', 'extras'}

# numpy-namespace functions that return a view of (or the same object as) their first argument
NP_VIEW_FUNCS = {'reshape', 'transpose', 'asarray', 'asanyarray', 'ravel', 'squeeze', 'swapaxes',
                 'real', 'imag', 'atleast_1d', 'atleast_2d', 'atleast_3d', 'broadcast_to',
                 'as_strided', 'diagonal', 'moveaxis', 'rollaxis', 'expand_dims', 'ascontiguousarray',
                 'diag', 'nan_to_num_inplace'}
NP_VIEW_TUPLE_FUNCS = {'broadcast_arrays'}
# numpy functions that write their first argument
NP_MUTATORS = {'fill_diagonal', 'put', 'place', 'copyto', 'putmask', 'put_along_axis'}
# ufunc-like numpy functions that take `out` as 2nd / 3rd positional argument
NP_OUT_POS = {'add': 2, 'subtract': 2, 'multiply': 2, 'divide': 2, 'true_divide': 2, 'power': 2,
              'maximum': 2, 'minimum': 2, 'less_equal': 2, 'greater_equal': 2, 'logical_and': 2,
              'reciprocal': 1, 'absolute': 1, 'sign': 1, 'negative': 1, 'square': 1, 'sqrt': 1,
              'exp': 1, 'log': 1, 'sin': 1, 'cos': 1, 'tan': 1, 'fix': 1, 'rint': 1, 'floor': 1,
              'ceil': 1, 'trunc': 1, 'clip': 3, 'dot': 2, 'conjugate': 1, 'expm1': 1, 'log1p': 1,
              'exp2': 1, 'log2': 1, 'log10': 1, 'sinh': 1, 'cosh': 1, 'tanh': 1, 'arcsin': 1,
              'arccos': 1, 'arctan': 1, 'arcsinh': 1, 'arccosh': 1, 'arctanh': 1}

# ndarray / list / dict methods (receiver not statically typed)
M_FRESH = {'copy', 'astype', 'flatten', 'tolist', 'item', 'sum', 'dot', 'max', 'min', 'any', 'all',
           'mean', 'conj', 'conjugate', 'prod', 'argmax', 'argmin', 'nonzero', 'cumsum', 'round',
           'trace', 'std', 'var', 'clip', 'repeat', 'take', 'tobytes', 'index', 'count', 'keys',
           'values', 'items', 'get', 'join', 'split', 'format', 'startswith', 'endswith',
           'substitute', 'lower', 'upper', 'strip', 'zeros_like', 'clone'}
M_VIEW = {'reshape', 'transpose', 'ravel', 'view', 'squeeze', 'swapaxes', '__getitem__', 'diagonal'}
M_WRITE = {'fill', 'sort', 'resize', 'itemset', 'put', 'partition', 'setflags', '__setitem__',
           'setfield', 'byteswap_inplace'}
M_CONTAINER_ADD = {'append', 'extend', 'insert', 'add', 'update', 'setdefault'}
M_CONTAINER_OTHER = {'pop', 'remove', 'clear', 'reverse'}

BUILTIN_ALIAS = {'list', 'tuple', 'enumerate', 'zip', 'reversed', 'sorted', 'iter', 'next',
                 'getattr', 'max', 'min', 'dict', 'set', 'frozenset', 'filter', 'map'}
BUILTIN_PURE = {'len', 'range', 'isinstance', 'issubclass', 'int', 'float', 'complex', 'str', 'repr',
                'abs', 'sum', 'type', 'hasattr', 'print', 'all', 'any', 'bool', 'round', 'pow',
                'id', 'hash', 'callable', 'ord', 'chr', 'divmod', 'slice', 'super', 'open',
                'ValueError', 'NotImplementedError', 'Exception', 'TypeError', 'AssertionError',
                'ImportError', 'KeyError', 'IndexError', 'RuntimeError', 'eval', 'exec', 'vars',
                'setattr', 'format', 'object', 'PlotError', 'NotSet'}

OPERATOR_INPLACE = {'iadd', 'isub', 'imul', 'itruediv', 'idiv', 'ifloordiv', 'ipow'}

# callable parameters / locals whose call effect is declared (reason per line)
DECLARED_CALLABLES = {
    # (function name, callee name): (writes arg index or None, result)
    ('workaround_strides_function', 'fun'): ('by-operator', 'none'),   # fun is operator.iadd/isub/... applied to scalars views of x
    ('_eval_slow_generic', 'f'): (None, 'fresh'),        # f is an nthderiv function: pure
    ('_black_f_white_fprime', 'f'): (None, 'fresh'),     # f is a numpy/scipy/nthderiv scalar function: pure
    ('pushforward', 'func'): ('replay', 'fresh'),        # the traced operation itself; E4 reasons about it
    ('expm_pade', 'pade'): (None, 'fresh'),              # one of _expm_pade<q>; public Taylor ops only
    ('wrapped_f', 'f'): (None, 'fresh'),                 # nthderiv closed forms
    ('wrapped_f', 'fn_zeroth_deriv'): ('out-kw', 'fresh'),
    ('xbar_from_x', 'func'): (None, 'alias-args'),       # self.func(*argbars): the view op applied to the parents' adjoints
    ('pullback', 'f'): ('dispatch', 'none'),             # UTPM.pb_<name>(*bars+args+outs, out=argsbar): E4 (tracer protocol) reasons about it
}


DECLARED_CALLABLE_POSITIONS = {('_eval_slow_generic', 0): (None, 'fresh'), ('_black_f_white_fprime', 0): (None, 'fresh')}


def _canon(av):
    if isinstance(av, tuple):
        return tuple(_canon(a) for a in av)
    return tuple(sorted(av))


def flat(av):
    if isinstance(av, tuple):
        out = set()
        for a in av:
            out |= flat(a)
        return frozenset(out)
    return av


def join(a, b):
    if a is None:
        return b
    if b is None:
        return a
    if isinstance(a, tuple) and isinstance(b, tuple) and len(a) == len(b):
        return tuple(join(x, y) for x, y in zip(a, b))
    if isinstance(a, tuple) and a and not isinstance(b, tuple):
        # an opaque container value joined with a tuple: any element may come from it
        return tuple(join(x, b) for x in a)
    if isinstance(b, tuple) and b and not isinstance(a, tuple):
        return tuple(join(a, y) for y in b)
    return flat(a) | flat(b)


def subst(av, mapping):
    """instantiate a summary AV: ('p', name) -> mapping[name] (flattened)"""
    if isinstance(av, tuple):
        return tuple(subst(a, mapping) for a in av)
    out = set()
    for r in av:
        if r[0] == 'p':
            out |= flat(mapping.get(r[1], EMPTY))
        else:
            out.add(r)
    return frozenset(out)


class Event:
    __slots__ = ('roots', 'mode', 'kind', 'node', 'chain')

    def __init__(self, roots, mode, kind, node, chain=''):
        self.roots, self.mode, self.kind, self.node, self.chain = roots, mode, kind, node, chain


class Summary:
    def __init__(self):
        self.writes = {}        # param -> {mode: shortest witness}
        self.ret = EMPTY
        self.events = []        # Event list (last pass)
        self.unknown = []       # (node, text) unresolved calls touching parameter storage
        self.field_writes = {}  # param -> set of attr names rebound
        self.callees = set()    # resolved FuncInfo callees
        self.callargs = {}      # id(call node) -> (call node, [arg AVs], {kw: AV})
        self.dangling = []      # (call node, 'cls.X' text): attribute of a known class that does not exist
        self.assign_avs = {}    # id(Assign node) -> AV of the assigned value
        self.rebinds = {}       # id(stmt) -> (stmt, name, parameter roots the name held, roots of the new value)

    def key(self):
        return (tuple(sorted((p, tuple(sorted(ws))) for p, ws in self.writes.items())),
                _canon(self.ret))


class Effects:
    def __init__(self, model):
        self.m = model
        self.sums = {}
        self.funcs = [f for f in model.all_functions()]
        for f in self.funcs:
            self.sums[f] = Summary()
        self.cha = {}
        for f in self.funcs:
            if f.cls and f.parent is None:
                ci = model.cls(f.cls)
                if ci is not None and ci.methods.get(f.name) is f:
                    self.cha.setdefault(f.name, []).append(f)
        self.n_calls = 0
        self.n_resolved = 0
        self.n_lib = 0
        self.unresolved = {}
        self._pbind = None
        self._fix()

    def param_bindings(self, f, param):
        """callables bound to parameter `param` of the *private* function f at its call sites inside the analysed
        modules: [(caller FuncInfo, argument expression)], or None when a site passes something other than a dotted
        name (closed world: a leading underscore marks f as not callable by users)."""
        if self._pbind is None:
            self._pbind = {}
            for g in self.funcs:
                for c in walk_no_nested(g.node):
                    if not isinstance(c, ast.Call):
                        continue
                    tgt = self.resolve_call(g, c)
                    if tgt is None or tgt[0] != 'funcs':
                        continue
                    for callee in tgt[1]:
                        params = list(callee.params)
                        if tgt[2] in ('cls', 'self') and params:
                            params = params[1:]
                        if any(isinstance(a, ast.Starred) for a in c.args) or any(k.arg is None for k in c.keywords):
                            for p_ in params:
                                self._pbind.setdefault((callee, p_), []).append((g, None))
                            continue
                        for i, a in enumerate(c.args):
                            if i < len(params):
                                self._pbind.setdefault((callee, params[i]), []).append((g, a))
                        for k in c.keywords:
                            self._pbind.setdefault((callee, k.arg), []).append((g, k.value))
        if not f.name.startswith('_') or f.name.startswith('__'):
            return None
        sites = self._pbind.get((f, param))
        if not sites or any(a is None or dotted_name(a) is None for _, a in sites):
            return None
        return sites

    # ------------------------------------------------------------ fixpoint
    def _fix(self):
        for it in range(12):
            changed = False
            self.n_calls = self.n_resolved = self.n_lib = 0
            self.unresolved = {}
            for f in self.funcs:
                old = self.sums[f].key()
                self.sums[f] = self._analyse(f)
                if self.sums[f].key() != old:
                    changed = True
            if not changed:
                self.iterations = it + 1
                return
        self.iterations = 12

    # ------------------------------------------------------------- analyse
    def _analyse(self, f):
        w = _Walker(self, f)
        return w.run()

    def reachable(self, roots):
        """transitive closure of resolved callees from the given FuncInfos"""
        seen = []
        todo = list(roots)
        while todo:
            f = todo.pop()
            if f in seen:
                continue
            seen.append(f)
            sm = self.sums.get(f)
            if sm is not None:
                todo.extend(sm.callees)
        return seen

    # -------------------------------------------------------- call targets
    def resolve_call(self, f, call):
        """-> ('funcs', [FuncInfo], bound) | ('lib', dotted) | ('class', name) |
              ('builtin', name) | ('local', name) | ('method', name) | None
        bound: 'cls' (drop first param), 'self' (receiver binds first param), None"""
        fn = call.func
        m = self.m
        if isinstance(fn, ast.Name):
            n = fn.id
            # nested function of this (or the enclosing) function
            p = f
            while p is not None:
                if n in getattr(p, 'nested', {}):
                    return ('funcs', [p.nested[n]], None)
                p = p.parent
            if n in f.params or n in f.kwonly or self._is_local(f, n):
                if n == 'cls' and f.kind == 'classmethod':
                    return ('class', f.cls)
                li = self._local_import(f, n)
                if li is not None:
                    return li
                if self._local_is_class(f, n):
                    return ('class', f.cls or '?')
                return ('local', n)
            ns = m.module_namespace(f.module)
            if n in ns:
                tag, val = ns[n]
                if tag == 'func':
                    return ('funcs', [val], None)
                if tag == 'class':
                    return ('class', val.name)
                if tag == 'ext':
                    return ('lib', val)
                if tag == 'value':
                    return ('local', n)
            return ('builtin', n)
        if isinstance(fn, ast.Attribute):
            d = dotted_name(fn)
            attr = fn.attr
            if attr == '__class__':
                return ('class', '?')       # x.__class__(...) : constructor call
            if d is not None:
                head = d.split('.')[0]
                if self._is_local(f, head) and head not in f.params:
                    li = self._local_import(f, head)
                    if li is not None and li[0] == 'lib':
                        r = m.resolve_dotted('algopy', d) if d.startswith('algopy.') else None
                        if r is None and li[1] in m.modules:
                            r = m.module_namespace(li[1]).get(d.split('.', 1)[1]) if d.count('.') == 1 else None
                        if r is not None and r[0] == 'func':
                            return ('funcs', [r[1]], 'cls' if (r[1].cls and r[1].kind == 'classmethod') else None)
                        return ('lib', li[1] + '.' + d.split('.', 1)[1] if d.count('.') else li[1])
                    if self._local_is_class(f, head) and d.count('.') == 1:
                        tgt = self._lookup_in_family(f.cls, attr) if f.cls else None
                        if tgt is not None:
                            return ('funcs', [tgt], 'cls' if tgt.kind == 'classmethod' else None)
                # cls.X / self.X
                if head in ('cls', 'self') and f.params and f.params[0] == head and d.count('.') == 1:
                    tgt = self._lookup_in_family(f.cls, attr)
                    if tgt is not None:
                        if tgt.kind == 'classmethod':
                            return ('funcs', [tgt], 'cls')
                        if tgt.kind == 'staticmethod':
                            return ('funcs', [tgt], None)
                        if head == 'self':
                            return ('funcs', [tgt], 'self')
                        return ('funcs', [tgt], None)   # cls.method(x, ...) explicit self
                    return ('method', attr)
                if head == 'self' and d == 'self.__class__.' + attr or (
                        d.endswith('.__class__.' + attr)):
                    cands = self.cha.get(attr, [])
                    if head == 'self' and f.cls:
                        tgt = self._lookup_in_family(f.cls, attr)
                        cands = [tgt] if tgt is not None else cands
                    if cands:
                        b = 'cls' if all(c.kind == 'classmethod' for c in cands) else None
                        return ('funcs', cands, b)
                    return ('method', attr)
                if not self._is_local(f, head) and head not in f.params:
                    r = m.resolve_dotted(f.module, d)
                    if r is not None:
                        tag, val = r
                        if tag == 'func':
                            b = None
                            if val.cls and val.kind == 'classmethod':
                                b = 'cls'
                            return ('funcs', [val], b)
                        if tag == 'class':
                            return ('class', val.name)
                        if tag == 'ext':
                            return ('lib', val)
                        if tag == 'module':
                            return ('lib', val)
                        return ('local', d)
                    ns = m.module_namespace(f.module)
                    if head in ns and ns[head][0] in ('ext', 'module'):
                        return ('lib', d)
            return ('method', attr)
        return None

    def _lookup_in_family(self, clsname, attr):
        """cls.X inside RawAlgorithmsMixIn / Ring resolves in UTPM's MRO (the
        only concrete class that mixes them in)."""
        for start in ([clsname] if clsname not in ('RawAlgorithmsMixIn', 'Ring') else ['UTPM']) + ['UTPM']:
            t = self.m.lookup_method(start, attr)
            if t is not None:
                return t
        return None

    def _local_import(self, f, name):
        """function-level `import a.b as n` / `from .m import n` -> call target"""
        self._is_local(f, '')
        tgt = f._local_imports.get(name)
        if tgt is None:
            return None
        if ':' in tgt:
            r = self.m._import_target(tgt)
            if r[0] == 'func':
                return ('funcs', [r[1]], None)
            if r[0] == 'class':
                return ('class', r[1].name)
            if r[0] == 'module':
                return ('lib', r[1])
            return ('lib', r[1] if isinstance(r[1], str) else tgt.replace(':', '.'))
        return ('lib', tgt)

    def _local_is_class(self, f, name):
        """local variable whose every assignment is `<expr>.__class__`"""
        vals = [st.value for st in walk_no_nested(f.node) if isinstance(st, ast.Assign)
                and any(isinstance(t, ast.Name) and t.id == name for t in st.targets)]
        return bool(vals) and all(isinstance(v, ast.Attribute) and v.attr == '__class__' for v in vals)

    def _is_local(self, f, name):
        loc = getattr(f, '_locals', None)
        if loc is None:
            loc = set()
            for n in walk_no_nested(f.node):
                if isinstance(n, ast.Name) and isinstance(n.ctx, (ast.Store, ast.Del)):
                    loc.add(n.id)
                elif isinstance(n, (ast.Import, ast.ImportFrom)):
                    for al in n.names:
                        loc.add((al.asname or al.name).split('.')[0])
            f._locals = loc
            f._local_imports = {}
            mi = self.m.modules[f.module]
            for n in walk_no_nested(f.node):
                if isinstance(n, ast.Import):
                    for al in n.names:
                        f._local_imports[(al.asname or al.name.split('.')[0])] = al.name if al.asname else al.name.split('.')[0]
                elif isinstance(n, ast.ImportFrom):
                    base = self.m._resolve_relative(mi, n.level, n.module)
                    for al in n.names:
                        f._local_imports[al.asname or al.name] = base + ':' + al.name
        return name in loc


class _Walker:
    def __init__(self, eff, f):
        self.e = eff
        self.f = f
        self.s = Summary()
        self.ret = None
        self.param_roots = {}
        for p in f.params + f.kwonly:
            self.param_roots[p] = frozenset([('p', p)])
        self.types = {}     # name -> set of class names established by isinstance guards

    # ---------------------------------------------------------------- run
    def run(self):
        env = dict(self.param_roots)
        if self.f.vararg:
            env[self.f.vararg] = frozenset([('p', self.f.vararg)])
        if self.f.kwarg:
            env[self.f.kwarg] = frozenset([('fresh', self.f.node.lineno)])
        self.e._is_local(self.f, '')  # populate caches
        env = self.block(self.f.node.body, env)
        self.s.ret = self.ret if self.ret is not None else EMPTY
        if any((dotted_name(d_.func if isinstance(d_, ast.Call) else d_) or '').split('.')[-1] in ('lru_cache', 'cache', 'memoize', 'memoized')
               for d_ in self.f.node.decorator_list):
            # a memoising decorator hands the same object to every caller
            self.s.ret = join(self.s.ret, frozenset([('g', 'module-state')])) if not isinstance(self.s.ret, tuple) else self.s.ret
        for ev in self.s.events:
            for r in ev.roots:
                if r[0] == 'p':
                    d = self.s.writes.setdefault(r[1], {})
                    wit = ev.chain or self._w(ev.node)
                    if ev.mode not in d or len(wit) < len(d[ev.mode]):
                        d[ev.mode] = wit
        return self.s

    def _w(self, node):
        return '%s:%d `%s`' % (self.f.qualname, getattr(node, 'lineno', 0), norm(node)[:100])

    # -------------------------------------------------------------- blocks
    def block(self, body, env):
        for st in body:
            if env is None:
                break
            env = self.stmt(st, env)
        return env

    def join_env(self, a, b):
        if a is None:
            return b
        if b is None:
            return a
        out = {}
        for k in set(a) | set(b):
            out[k] = join(a.get(k), b.get(k))
        return out

    def stmt(self, st, env):
        if isinstance(st, ast.Assign):
            av = self.ev(st.value, env)
            self.s.assign_avs[id(st)] = av
            for t in st.targets:
                self.bind(t, av, env, st, st.value)
            return env
        if isinstance(st, ast.AnnAssign):
            if st.value is not None:
                self.bind(st.target, self.ev(st.value, env), env, st, st.value)
            return env
        if isinstance(st, ast.AugAssign):
            self.ev(st.value, env)
            t = st.target
            if isinstance(t, ast.Name):
                roots = flat(env.get(t.id, EMPTY))
                if roots and self._scalar_counter(t.id):
                    # `n //= 2` on a name that the function uses as an integer counter (`while n:`, `n % 2`, `range(n)`): integers are
                    # immutable, the update re-binds the local name and leaves the caller's object alone
                    env = dict(env)
                    env[t.id] = EMPTY
                    roots = EMPTY
            else:
                roots = flat(self.ev_target_base(t, env))
            if roots:
                mode = 'acc' if isinstance(st.op, (ast.Add, ast.Sub)) else 'ovw'
                self.s.events.append(Event(roots, mode, 'aug', st))
            return env
        if isinstance(st, ast.Expr):
            self.ev(st.value, env)
            return env
        if isinstance(st, ast.Return):
            if st.value is not None:
                self.ret = join(self.ret, self.ev(st.value, env))
            else:
                self.ret = join(self.ret, EMPTY)
            return None
        if isinstance(st, ast.Raise):
            if st.exc is not None:
                self.ev(st.exc, env)
            return None
        if isinstance(st, ast.If):
            self.ev(st.test, env)
            facts = self._isinstance_facts(st.test)
            saved = dict(self.types)
            self.types.update(facts)
            a = self.block(st.body, dict(env))
            self.types = saved
            b = self.block(st.orelse, dict(env))
            return self.join_env(a, b)
        if isinstance(st, (ast.For, ast.While)):
            if isinstance(st, ast.For):
                it = self.ev(st.iter, env)
            cur = dict(env)
            n_ev = len(self.s.events)
            for _ in range(5):
                del self.s.events[n_ev:]    # keep the events of the last pass only
                if isinstance(st, ast.For):
                    self.bind_iter(st.target, st.iter, it, cur)
                else:
                    self.ev(st.test, cur)
                after = self.block(st.body, dict(cur))
                nxt = self.join_env(cur, after)
                if nxt == cur:
                    break
                cur = nxt
            if st.orelse:
                self.block(st.orelse, dict(cur))
            return cur
        if isinstance(st, ast.Try):
            a = self.block(st.body, dict(env))
            res = a
            for h in st.handlers:
                henv = dict(self.join_env(env, a) or env)
                if h.name:
                    henv[h.name] = EMPTY
                res = self.join_env(res, self.block(h.body, henv))
            if st.orelse and a is not None:
                res = self.join_env(res, self.block(st.orelse, dict(a)))
            if st.finalbody:
                res = self.block(st.finalbody, res if res is not None else dict(env))
            return res
        if isinstance(st, ast.With):
            for it in st.items:
                av = self.ev(it.context_expr, env)
                if it.optional_vars is not None:
                    self.bind(it.optional_vars, av, env, st, it.context_expr)
            return self.block(st.body, env)
        if isinstance(st, (ast.FunctionDef, ast.ClassDef)):
            env[st.name] = EMPTY
            return env
        if isinstance(st, (ast.Import, ast.ImportFrom)):
            for al in st.names:
                env[(al.asname or al.name).split('.')[0]] = EMPTY
            return env
        if isinstance(st, ast.Assert):
            self.ev(st.test, env)
            return env
        if isinstance(st, ast.Delete):
            return env
        if isinstance(st, (ast.Pass, ast.Break, ast.Continue, ast.Global, ast.Nonlocal)):
            return env
        return env

    # ------------------------------------------------------------- binding
    def bind_iter(self, target, iter_node, it, env):
        # enumerate(xs) -> (index, element)
        if isinstance(iter_node, ast.Call) and isinstance(iter_node.func, ast.Name) and iter_node.func.id == 'enumerate' \
                and isinstance(target, ast.Tuple) and len(target.elts) == 2:
            self.bind(target.elts[0], EMPTY, env, None, None)
            self.bind(target.elts[1], flat(it), env, None, None)
            return
        if isinstance(target, ast.Tuple):
            for t in target.elts:
                self.bind(t, flat(it), env, None, None)
        else:
            self.bind(target, flat(it), env, None, None)

    def bind(self, t, av, env, st, value_node):
        if isinstance(t, ast.Name):
            old = env.get(t.id)
            if old is not None and st is not None and isinstance(st, ast.Assign):
                oldp = frozenset(r for r in flat(old) if r[0] == 'p')
                newr = flat(av)
                if oldp and not (oldp & newr):
                    self.s.rebinds[id(st)] = (st, t.id, oldp, frozenset(newr))
            env[t.id] = av
        elif isinstance(t, (ast.Tuple, ast.List)):
            if isinstance(av, tuple) and len(av) == len(t.elts) and not any(isinstance(x, ast.Starred) for x in t.elts):
                from_out = isinstance(value_node, ast.Name) and value_node.id == 'out' and 'out' in self.param_roots \
                    and self.param_roots['out'] <= flat(av)
                for i, (x, a) in enumerate(zip(t.elts, av)):
                    self.bind(x, (flat(a) | frozenset([('p', 'out#%d' % i)])) if from_out else a, env, st, None)
            elif isinstance(value_node, ast.Name) and value_node.id == 'out' and 'out' in self.param_roots \
                    and self.param_roots['out'] <= flat(av) and not any(isinstance(x, ast.Starred) for x in t.elts):
                # `xbar, ybar = out`: the components of the output tuple are told apart (pseudo roots out#0, out#1)
                for i, x in enumerate(t.elts):
                    self.bind(x, flat(av) | frozenset([('p', 'out#%d' % i)]), env, st, None)
            else:
                for x in t.elts:
                    self.bind(x.value if isinstance(x, ast.Starred) else x, flat(av), env, st, None)
        elif isinstance(t, ast.Subscript):
            base = self.ev_target_base(t, env)
            roots = flat(base)
            if roots:
                mode = 'ovw'
                # o[..] = o[..] + v  / o[..] = o + v   counts as accumulation
                if value_node is not None and self._reads_same(t, value_node):
                    mode = 'acc'
                self.s.events.append(Event(roots, mode, 'store', st))
            # a container now also holds the stored value
            if isinstance(t.value, ast.Name) and isinstance(env.get(t.value.id), frozenset) and flat(av):
                name = t.value.id
                if all(r[0] == 'fresh' for r in env[name]) and env[name]:
                    pass
        elif isinstance(t, ast.Attribute):
            base = self.ev(t.value, env)
            roots = flat(base)
            if roots:
                self.s.events.append(Event(roots, 'ovw', 'attr:' + t.attr, st))
                for r in roots:
                    if r[0] == 'p':
                        self.s.field_writes.setdefault(r[1], set()).add(t.attr)
        elif isinstance(t, ast.Starred):
            self.bind(t.value, av, env, st, None)

    def _scalar_counter(self, name):
        """the function uses `name` the way only a Python / NumPy scalar can be used: as the test of a while loop, as an operand of % or of a
        comparison with an integer literal inside a test, as an argument of range()"""
        for n in ast.walk(self.f.node):
            if isinstance(n, ast.While) and any(isinstance(x, ast.Name) and x.id == name for x in ast.walk(n.test)):
                return True
            if isinstance(n, ast.Call) and isinstance(n.func, ast.Name) and n.func.id == 'range' and any(isinstance(a, ast.Name) and a.id == name for a in n.args):
                return True
            if isinstance(n, (ast.If, ast.IfExp)):
                for x in ast.walk(n.test):
                    if isinstance(x, ast.BinOp) and isinstance(x.op, ast.Mod) and isinstance(x.left, ast.Name) and x.left.id == name:
                        return True
        return False

    def _reads_same(self, target, value):
        tt = norm(target)
        base = norm(target.value)
        if not isinstance(value, ast.BinOp) or not isinstance(value.op, (ast.Add, ast.Sub)):
            return False
        left = value.left
        while isinstance(left, ast.BinOp) and isinstance(left.op, (ast.Add, ast.Sub)):
            left = left.left
        return norm(left) in (tt, base)

    def ev_target_base(self, t, env):
        """storage written by a store through target t (Subscript / Attribute)"""
        if isinstance(t, ast.Subscript):
            self.ev(t.slice, env)
            return self.ev(t.value, env)
        if isinstance(t, ast.Attribute):
            return self.ev(t.value, env)
        return self.ev(t, env)

    # ---------------------------------------------------------- expressions
    def ev(self, n, env):
        if n is None:
            return EMPTY
        if isinstance(n, ast.Name):
            if n.id in env:
                return env[n.id]
            # a module-level container / array: state shared by all calls
            if not self.e._is_local(self.f, n.id):
                v = self.e.m.modules[self.f.module].assigns.get(n.id)
                if isinstance(v, (ast.Dict, ast.List, ast.Set, ast.ListComp, ast.DictComp)) or (
                        isinstance(v, ast.Call) and (dotted_name(v.func) or '').split('.')[0] in ('numpy', 'dict', 'list', 'set', 'collections')):
                    return frozenset([('g', 'module-state')])
            return EMPTY
        if isinstance(n, ast.Constant):
            return EMPTY
        if isinstance(n, ast.Attribute):
            d = dotted_name(n)
            base = self.ev(n.value, env)
            if n.attr in SCALAR_ATTRS:
                return EMPTY
            return flat(base)
        if isinstance(n, ast.Subscript):
            base = self.ev(n.value, env)
            self.ev(n.slice, env)
            if isinstance(n.value, ast.Name) and n.value.id == 'out' and 'out' in self.param_roots and not isinstance(base, tuple) and self.param_roots['out'] <= base \
                    and isinstance(n.slice, ast.Constant) and isinstance(n.slice.value, int) and n.slice.value >= 0:
                return base | frozenset([('p', 'out#%d' % n.slice.value)])      # out[i]: component i of the output tuple
            if isinstance(base, tuple):
                k = n.slice
                if isinstance(k, ast.UnaryOp) and isinstance(k.op, ast.USub) and isinstance(k.operand, ast.Constant) and isinstance(k.operand.value, int):
                    k = ast.Constant(value=-k.operand.value)
                if isinstance(k, ast.Constant) and isinstance(k.value, int) and not isinstance(k.value, bool) \
                        and -len(base) <= k.value < len(base):
                    return base[k.value]
                # any element of a list of records of one arity is such a record
                if base and all(isinstance(e_, tuple) and len(e_) == len(base[0]) for e_ in base) and not isinstance(n.slice, ast.Slice):
                    el = base[0]
                    for e_ in base[1:]:
                        el = join(el, e_)
                    return el
                return flat(base)
            return base
        if isinstance(n, ast.Slice):
            for x in (n.lower, n.upper, n.step):
                self.ev(x, env)
            return EMPTY
        if isinstance(n, (ast.Tuple, ast.List)):
            return tuple(self.ev(x, env) for x in n.elts)
        if isinstance(n, ast.Set):
            out = EMPTY
            for x in n.elts:
                out = out | flat(self.ev(x, env))
            return out
        if isinstance(n, ast.Dict):
            out = EMPTY
            for x in n.values:
                out = out | flat(self.ev(x, env))
            return out
        if isinstance(n, ast.Starred):
            return flat(self.ev(n.value, env))
        if isinstance(n, ast.BinOp):
            a = self.ev(n.left, env)
            b = self.ev(n.right, env)
            if isinstance(n.op, ast.Add) and (isinstance(a, tuple) or isinstance(b, tuple)
                                                or isinstance(n.left, (ast.List, ast.Tuple, ast.ListComp))
                                                or isinstance(n.right, (ast.List, ast.Tuple, ast.ListComp))):
                return flat(a) | flat(b)
            if isinstance(n.op, ast.Mult) and (isinstance(n.left, (ast.List, ast.Tuple)) or isinstance(n.right, (ast.List, ast.Tuple))):
                return flat(a) | flat(b)
            if not flat(a) and not flat(b):
                return EMPTY
            return frozenset([('fresh', n.lineno)])
        if isinstance(n, ast.UnaryOp):
            a = self.ev(n.operand, env)
            if not flat(a):
                return EMPTY
            return frozenset([('fresh', n.lineno)])
        if isinstance(n, ast.BoolOp):
            out = EMPTY
            for x in n.values:
                out = out | flat(self.ev(x, env))
            return out
        if isinstance(n, ast.Compare):
            self.ev(n.left, env)
            for x in n.comparators:
                self.ev(x, env)
            return EMPTY
        if isinstance(n, ast.IfExp):
            self.ev(n.test, env)
            return join(self.ev(n.body, env), self.ev(n.orelse, env))
        if isinstance(n, (ast.ListComp, ast.SetComp, ast.GeneratorExp)):
            cenv = dict(env)
            for g in n.generators:
                it = self.ev(g.iter, cenv)
                self.bind_iter(g.target, g.iter, it, cenv)
                for c in g.ifs:
                    self.ev(c, cenv)
            return flat(self.ev(n.elt, cenv))
        if isinstance(n, ast.DictComp):
            cenv = dict(env)
            for g in n.generators:
                it = self.ev(g.iter, cenv)
                self.bind_iter(g.target, g.iter, it, cenv)
            return flat(self.ev(n.value, cenv))
        if isinstance(n, ast.Call):
            return self.call(n, env)
        if isinstance(n, ast.Lambda):
            return EMPTY
        if isinstance(n, (ast.JoinedStr, ast.FormattedValue)):
            return EMPTY
        if isinstance(n, ast.NamedExpr):
            av = self.ev(n.value, env)
            self.bind(n.target, av, env, None, None)
            return av
        return EMPTY

    # ---------------------------------------------------------------- calls
    def call(self, c, env):
        e = self.e
        e.n_calls += 1
        args = [self.ev(a, env) for a in c.args]
        has_star = any(isinstance(a, ast.Starred) for a in c.args)
        kws = {}
        star_kw = EMPTY
        for k in c.keywords:
            av = self.ev(k.value, env)
            if k.arg is None:
                star_kw = star_kw | flat(av)
            else:
                kws[k.arg] = av
        recv = None
        if isinstance(c.func, ast.Attribute):
            recv = self.ev(c.func.value, env)
        tgt = e.resolve_call(self.f, c)
        fresh = frozenset([('fresh', c.lineno)])
        self.s.callargs[id(c)] = (c, args, kws)
        if tgt is not None and tgt[0] == 'funcs':
            self.s.callees.update(tgt[1])
        allargs = EMPTY
        for a in args:
            allargs = allargs | flat(a)
        for a in kws.values():
            allargs = allargs | flat(a)
        allargs = allargs | star_kw
        if tgt is None:
            return fresh
        kind = tgt[0]
        if kind == 'funcs':
            e.n_resolved += 1
            out = None
            for callee in tgt[1]:
                out = join(out, self.apply(callee, tgt[2], c, args, kws, recv, has_star, star_kw))
            return out if out is not None else fresh
        if kind == 'class':
            # constructor: the object wraps (aliases) its arguments
            e.n_resolved += 1
            return allargs if allargs else EMPTY
        if kind == 'lib':
            e.n_lib += 1
            return self.lib(tgt[1], c, args, kws, fresh)
        if kind == 'builtin':
            e.n_lib += 1
            n = tgt[1]
            if n in BUILTIN_ALIAS:
                return allargs
            return EMPTY if n in BUILTIN_PURE else (fresh if allargs else EMPTY)
        if kind == 'local':
            return self.local_callable(tgt[1], c, args, kws, allargs, fresh)
        if kind == 'method':
            return self.method(tgt[1], c, args, kws, recv, allargs, fresh, env, has_star, star_kw)
        return fresh

    def apply(self, callee, bound, c, args, kws, recv, has_star, star_kw):
        sm = self.e.sums.get(callee)
        params = list(callee.params)
        mapping = {}
        if bound == 'cls' and params:
            # class-level state reached through the callee's `cls` is the caller's class object (or, called on a class by name, global state)
            own = isinstance(c.func, ast.Attribute) and isinstance(c.func.value, ast.Name) and self.f.kind == 'classmethod' \
                and self.f.params and c.func.value.id == self.f.params[0]
            mapping[params[0]] = recv if (recv and own) else frozenset([('g', 'class-state')])
            params = params[1:]
        elif bound == 'self' and params:
            mapping[params[0]] = recv if recv is not None else EMPTY
            params = params[1:]
        if has_star or star_kw:
            tot = star_kw
            for a in args:
                tot = tot | flat(a)
            for a in kws.values():
                tot = tot | flat(a)
            for p in params + callee.kwonly:
                mapping[p] = tot
            if callee.vararg:
                mapping[callee.vararg] = tot
        else:
            for i, a in enumerate(args):
                if i < len(params):
                    mapping[params[i]] = a
                elif callee.vararg:
                    mapping[callee.vararg] = join(mapping.get(callee.vararg), flat(a))
            for k, a in kws.items():
                mapping[k] = a
        if sm is None:
            return frozenset([('fresh', c.lineno)])
        comp_keys = [p for p in sm.writes if p.startswith('out#')]
        out_av = mapping.get('out')
        for p, ws in sm.writes.items():
            if p.startswith('out#'):
                # a component of the callee's output tuple: the matching element of a tuple passed as `out`
                i = int(p[4:])
                if isinstance(out_av, tuple):
                    roots = flat(out_av[i]) if i < len(out_av) else EMPTY
                elif out_av is not None and 'out' in self.param_roots and out_av == self.param_roots['out']:
                    roots = out_av | frozenset([('p', p)])      # the caller's own output tuple handed on as a whole
                else:
                    roots = EMPTY
            elif p == 'out' and comp_keys and isinstance(out_av, tuple):
                roots = frozenset(r for r in flat(out_av) if not (r[0] == 'p' and '#' in r[1]))
            else:
                roots = flat(mapping.get(p, EMPTY))
            if roots:
                for mode, wit in ws.items():
                    chain = '%s -> %s' % (self._w(c), wit)
                    if len(chain) > 600:
                        chain = chain[:600] + '...'
                    self.s.events.append(Event(roots, mode, 'call:' + callee.qualname, c, chain))
        ret = subst(sm.ret, mapping)
        # fresh roots of the callee become fresh at this call site
        def refresh(av):
            if isinstance(av, tuple):
                return tuple(refresh(a) for a in av)
            return frozenset((('fresh', c.lineno) if r[0] == 'fresh' else r) for r in av)
        return refresh(ret)

    def lib(self, dotted, c, args, kws, fresh):
        name = dotted.split('.')[-1]
        mod = dotted.split('.')[0]
        first = args[0] if args else EMPTY
        if mod == 'operator':
            if name == 'getitem':
                return flat(first)
            if name == 'setitem':
                if flat(first):
                    self.s.events.append(Event(flat(first), 'ovw', 'lib:operator.setitem', c))
                return EMPTY
            if name in OPERATOR_INPLACE:
                if flat(first):
                    self.s.events.append(Event(flat(first), 'acc' if name in ('iadd', 'isub') else 'ovw', 'lib:operator.' + name, c))
                return flat(first)
            return fresh
        if mod == 'functools' or mod == 'copy':
            if mod == 'copy' and name == 'copy':
                # a shallow copy: a new object whose attributes (the coefficient array of a polynomial) are shared
                return join(fresh, flat(first))
            return fresh if mod == 'copy' else EMPTY
        if mod in ('traceback', 'time', 'os', 'math', 'warnings', 'string', 'mpmath', 'yapgvb'):
            return EMPTY
        if mod == 'pytpcore':
            # C extension (absent here): tp_* write their last argument
            if args and flat(args[-1]):
                self.s.events.append(Event(flat(args[-1]), 'ovw', 'lib:' + dotted, c))
            return EMPTY
        # numpy / scipy / nthderiv-external
        out_av = kws.get('out')
        if out_av is None and name in NP_OUT_POS and len(args) > NP_OUT_POS[name]:
            out_av = args[NP_OUT_POS[name]]
        if out_av is not None and flat(out_av):
            mode = 'ovw'
            # numpy.add(o, v, out=o): accumulation into o
            if name in ('add', 'subtract') and c.args:
                out_node = None
                for k in c.keywords:
                    if k.arg == 'out':
                        out_node = k.value
                if out_node is None and len(c.args) > 2:
                    out_node = c.args[2]
                if out_node is not None and norm(out_node) == norm(c.args[0]):
                    mode = 'acc'
            self.s.events.append(Event(flat(out_av), mode, 'lib:%s(out=)' % dotted, c))
            return flat(out_av)
        for k in c.keywords:
            if k.arg and k.arg.startswith('overwrite') and not (isinstance(k.value, ast.Constant) and not k.value.value):
                # scipy.linalg.*(a, overwrite_a=True) / overwrite_b / overwrite_ab: LAPACK works in the caller's array
                tgt = args[1] if (k.arg == 'overwrite_b' and len(args) > 1) else first
                if flat(tgt):
                    self.s.events.append(Event(flat(tgt), 'ovw', 'lib:%s(%s=)' % (dotted, k.arg), c))
        if name in NP_MUTATORS:
            if flat(first):
                self.s.events.append(Event(flat(first), 'ovw', 'lib:' + dotted, c))
            return EMPTY
        if name in NP_VIEW_TUPLE_FUNCS:
            return tuple(flat(a) for a in args)
        if name in NP_VIEW_FUNCS:
            return flat(first)
        if name == 'array':
            cp = kws.get('copy')
            for k in c.keywords:
                if k.arg == 'copy' and isinstance(k.value, ast.Constant) and k.value.value is False:
                    return flat(first)
            return fresh
        return fresh

    def local_callable(self, name, c, args, kws, allargs, fresh):
        key = (self.f.name, name)
        decl = DECLARED_CALLABLES.get(key)
        if decl is None and self.f.name.startswith('_') and name in self.f.value_params():
            # private functions may rename their parameters: the declared callable is also known by position
            decl = DECLARED_CALLABLE_POSITIONS.get((self.f.name, self.f.value_params().index(name)))
        if decl is None:
            sites = None
            if name in self.f.params + self.f.kwonly:
                # a callable parameter of a private helper: every callable its call sites pass is applied
                sites = self.e.param_bindings(self.f, name)
            else:
                # a local bound to functions named in the function itself (`f = numpy.sin`, `for bound, f in TABLE:`)
                cands = self._local_fn_candidates(name)
                if cands:
                    sites = [(self.f, e) for e in cands]
            if sites:
                out = None
                for caller, expr in sites:
                    fake = ast.copy_location(ast.Call(func=expr, args=c.args, keywords=c.keywords), c)
                    tgt = self.e.resolve_call(caller, fake)
                    if tgt is None or tgt[0] not in ('lib', 'funcs', 'builtin'):
                        out = None
                        break
                    if tgt[0] == 'lib':
                        out = join(out, self.lib(tgt[1], c, args, kws, fresh))
                    elif tgt[0] == 'builtin':
                        out = join(out, EMPTY if tgt[1] in BUILTIN_PURE else fresh)
                    else:
                        for callee in tgt[1]:
                            out = join(out, self.apply(callee, tgt[2], c, args, kws, None, False, EMPTY))
                if out is not None:
                    return out
        if decl is None:
            if any(r[0] == 'p' for r in allargs):
                self.s.unknown.append((c, 'call of local/parameter callable `%s`' % name))
                self.e.unresolved[(self.f.fq, norm(c))] = 'local callable'
            return fresh
        w, res = decl
        if w == 'by-operator':
            roots = flat(args[0]) if args else EMPTY
            if roots:
                self.s.events.append(Event(roots, 'acc', 'callable:' + name, c))
        elif w == 'out-kw':
            o = kws.get('out')
            if o is not None and flat(o):
                self.s.events.append(Event(flat(o), 'ovw', 'callable:%s(out=)' % name, c))
        elif w == 'replay':
            pass
        if res == 'alias-args':
            return allargs
        return fresh if res == 'fresh' else EMPTY

    def _local_fn_candidates(self, name):
        """expressions (dotted names) a local callable may be bound to, or None if some binding is not of a
        recognised form: `name = a.b`, `for .., name, .. in SEQ` with SEQ a literal (or a local bound once to a
        literal) of tuples holding dotted names at that position"""
        out = []
        fn = self.f.node
        literals = {}
        counts = {}
        for st in walk_no_nested(fn):
            if isinstance(st, ast.Assign) and len(st.targets) == 1 and isinstance(st.targets[0], ast.Name):
                counts[st.targets[0].id] = counts.get(st.targets[0].id, 0) + 1
                if isinstance(st.value, (ast.Tuple, ast.List)):
                    literals[st.targets[0].id] = st.value

        def position(t):
            if isinstance(t, ast.Name):
                return () if t.id == name else None
            if isinstance(t, (ast.Tuple, ast.List)):
                for i, e in enumerate(t.elts):
                    p = position(e)
                    if p is not None:
                        return (i,) + p
            return None

        for st in walk_no_nested(fn):
            if isinstance(st, ast.Assign):
                for t in st.targets:
                    pos = position(t)
                    if pos is None:
                        continue
                    if pos == () and dotted_name(st.value) is not None:
                        out.append(st.value)
                    else:
                        return None
            elif isinstance(st, (ast.AugAssign, ast.AnnAssign)) and position(st.target) is not None:
                return None
            elif isinstance(st, ast.For):
                pos = position(st.target)
                if pos is None:
                    continue
                it = st.iter
                if isinstance(it, ast.Call) and isinstance(it.func, ast.Name) and it.func.id == 'enumerate' and len(it.args) == 1 and pos and pos[0] == 1:
                    it, pos = it.args[0], pos[1:]
                if isinstance(it, ast.Name) and counts.get(it.id) == 1 and it.id in literals:
                    it = literals[it.id]
                if not isinstance(it, (ast.Tuple, ast.List)):
                    return None
                for el in it.elts:
                    cur = el
                    for i in pos:
                        if not (isinstance(cur, (ast.Tuple, ast.List)) and i < len(cur.elts)):
                            return None
                        cur = cur.elts[i]
                    if dotted_name(cur) is None:
                        return None
                    out.append(cur)
            elif isinstance(st, (ast.With, ast.comprehension)) and False:
                pass
        return out or None

    def _isinstance_facts(self, test):
        """`isinstance(x, C)` / `a or b` of those -> {x: {C, ...}} (positive branch only)"""
        facts = {}

        def one(t):
            if isinstance(t, ast.Call) and isinstance(t.func, ast.Name) and t.func.id == 'isinstance' \
                    and len(t.args) == 2 and isinstance(t.args[0], ast.Name):
                cl = t.args[1]
                names = []
                for x in (cl.elts if isinstance(cl, ast.Tuple) else [cl]):
                    d = dotted_name(x)
                    if d is None:
                        return None
                    if d in ('self.__class__', 'cls'):
                        d = self.f.cls or d
                    names.append(d.split('.')[-1])
                return t.args[0].id, set(names)
            return None
        if isinstance(test, ast.BoolOp) and isinstance(test.op, ast.Or):
            parts = [one(v) for v in test.values]
            if all(p is not None for p in parts) and len(set(p[0] for p in parts)) == 1:
                facts[parts[0][0]] = set().union(*[p[1] for p in parts])
        elif isinstance(test, ast.BoolOp) and isinstance(test.op, ast.And):
            for v in test.values:
                p = one(v)
                if p is not None:
                    facts[p[0]] = p[1]
        else:
            p = one(test)
            if p is not None:
                facts[p[0]] = p[1]
        return facts

    def _is_py_container(self, node):
        """receiver is a local name bound only to list/dict/set literals,
        comprehensions or list()/dict() calls"""
        if not isinstance(node, ast.Name) or node.id in self.param_roots:
            return False
        vals = [st.value for st in walk_no_nested(self.f.node) if isinstance(st, ast.Assign)
                and any(isinstance(t, ast.Name) and t.id == node.id for t in st.targets)]
        if not vals:
            return False
        for v in vals:
            if isinstance(v, (ast.List, ast.Dict, ast.Set, ast.ListComp, ast.DictComp, ast.SetComp)):
                continue
            if isinstance(v, ast.Call) and isinstance(v.func, ast.Name) and v.func.id in ('list', 'dict', 'set'):
                continue
            if isinstance(v, ast.BinOp) and isinstance(v.op, ast.Add) and (
                    isinstance(v.left, (ast.List, ast.ListComp)) or isinstance(v.right, (ast.List, ast.ListComp))
                    or (isinstance(v.left, ast.Call) and isinstance(v.left.func, ast.Name) and v.left.func.id == 'list')):
                continue
            return False
        return True

    def method(self, name, c, args, kws, recv, allargs, fresh, env, has_star, star_kw):
        r = flat(recv) if recv is not None else EMPTY
        cands = [x for x in self.e.cha.get(name, [])]
        in_lib = name in M_FRESH or name in M_VIEW or name in M_WRITE or name in M_CONTAINER_ADD or name in M_CONTAINER_OTHER
        out = None
        if name in M_WRITE:
            if r:
                self.s.events.append(Event(r, 'ovw', 'method:' + name, c))
            out = join(out, EMPTY)
        if name in M_VIEW:
            out = join(out, r)
        if name in M_FRESH:
            out = join(out, fresh)
        if name in M_CONTAINER_ADD or name in M_CONTAINER_OTHER:
            # a container write counts only when the receiver *is* (an attribute
            # chain of) a parameter, not a local list that merely holds elements
            # taken from one
            base = c.func.value
            while isinstance(base, (ast.Attribute, ast.Subscript)):
                base = base.value
            is_param_container = (isinstance(base, ast.Name) and base.id in self.param_roots
                                  and (not isinstance(c.func.value, ast.Name) or not self.e._is_local(self.f, base.id)))
            if is_param_container and any(x[0] == 'p' for x in r):
                self.s.events.append(Event(frozenset(x for x in r if x[0] == 'p'), 'acc', 'container:' + name, c))
            if name in M_CONTAINER_ADD and isinstance(c.func.value, ast.Name):
                v = c.func.value.id
                cur = env.get(v, EMPTY)
                new_el = args[0] if (name == "append" and len(args) == 1 and not kws and not has_star) else None
                if isinstance(cur, tuple) and cur and isinstance(new_el, tuple) and new_el \
                        and all(isinstance(e_, tuple) and len(e_) == len(new_el) for e_ in cur):
                    # a list of records (tuples of one arity) stays a list of records: every element may now be the new record
                    env[v] = tuple(join(e_, new_el) for e_ in cur)
                else:
                    env[v] = flat(cur) | allargs
            out = join(out, r)
        if cands and isinstance(c.func.value, ast.Name) and c.func.value.id in self.types:
            allowed = set()
            for cn in self.types[c.func.value.id]:
                allowed |= {ci.name for ci in self.e.m.mro(cn)}
            if allowed:
                cands = [x for x in cands if x.cls in allowed]
        if cands and (name in M_CONTAINER_ADD or name in M_CONTAINER_OTHER) and self._is_py_container(c.func.value):
            cands = []
        if len(cands) > 1 and not has_star:
            # methods of one name in several classes: the ones that cannot take this call (too many positional arguments,
            # an unknown keyword) are not the target
            def takes(callee):
                ps = list(callee.params)
                if callee.kind in ('method', 'classmethod') and ps:
                    ps = ps[1:]
                if len(c.args) > len(ps) and not callee.vararg:
                    return False
                if any(k.arg is not None and k.arg not in ps and k.arg not in callee.kwonly for k in c.keywords) and not callee.kwarg:
                    return False
                return True
            fit = [x for x in cands if takes(x)]
            if fit:
                cands = fit
        if cands:
            self.e.n_resolved += 1
            self.s.callees.update(cands)
            for callee in cands:
                if callee.kind == 'classmethod':
                    b = 'cls'
                elif callee.kind == 'staticmethod':
                    b = None
                else:
                    b = 'self'
                out = join(out, self.apply(callee, b, c, args, kws, recv, has_star, star_kw))
            return out if out is not None else fresh
        if in_lib:
            self.e.n_lib += 1
            return out if out is not None else fresh
        if (self.f.name, name) in DECLARED_CALLABLES:
            return self.local_callable(name, c, args, kws, allargs, fresh)
        # cls.X / self.X / self.__class__.X that does not exist anywhere in the family:
        # a certain AttributeError, not an unknown effect
        d = dotted_name(c.func)
        if d is not None and self.f.params and d.split('.')[0] == self.f.params[0] \
                and self.f.params[0] in ('cls', 'self') and (d.count('.') == 1 or '.__class__.' in d):
            self.s.dangling.append((c, d))
            return fresh
        # `<expr>.__class__.NAME(...)` / `type(<expr>).NAME(...)` with a NAME that no class of the package defines (the generated dispatcher for
        # `pow`, guarded by hasattr): the classes of the package cannot be the receiver, so no array of the package is written
        rv = c.func.value
        if (isinstance(rv, ast.Attribute) and rv.attr == '__class__') or (isinstance(rv, ast.Call) and isinstance(rv.func, ast.Name) and rv.func.id == 'type'
                                                                             and len(rv.args) == 1):
            self.s.dangling.append((c, norm(c.func)))
            return fresh
        # unknown method
        if any(x[0] == 'p' for x in (r | allargs)):
            self.s.unknown.append((c, 'unresolved method `.%s`' % name))
            self.e.unresolved[(self.f.fq, norm(c))] = 'method'
        return fresh
