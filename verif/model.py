"""
E0 - program model and callee resolver for b45ch1/algopy.

Pure `ast`: nothing under /repo is imported or executed.  The model is rebuilt
from /repo's working tree on every run.
"""
import ast
import copy
import os
import string
import warnings

REPO = os.environ.get('ALGOPY_REPO', '/repo')

# modules in scope (relative to the repo root) -> dotted module name
SCOPE = [
    ('algopy/__init__.py', 'algopy'),
    ('algopy/base_type.py', 'algopy.base_type'),
    ('algopy/compound.py', 'algopy.compound'),
    ('algopy/exact_interpolation.py', 'algopy.exact_interpolation'),
    ('algopy/globalfuncs.py', 'algopy.globalfuncs'),
    ('algopy/utils.py', 'algopy.utils'),
    ('algopy/fft/__init__.py', 'algopy.fft'),
    ('algopy/fft/fft.py', 'algopy.fft.fft'),
    ('algopy/linalg/__init__.py', 'algopy.linalg'),
    ('algopy/linalg/linalg.py', 'algopy.linalg.linalg'),
    ('algopy/linalg/compound.py', 'algopy.linalg.compound'),
    ('algopy/nthderiv/__init__.py', 'algopy.nthderiv'),
    ('algopy/nthderiv/nthderiv.py', 'algopy.nthderiv.nthderiv'),
    ('algopy/special/__init__.py', 'algopy.special'),
    ('algopy/special/special.py', 'algopy.special.special'),
    ('algopy/special/compound.py', 'algopy.special.compound'),
    ('algopy/tracer/__init__.py', 'algopy.tracer'),
    ('algopy/tracer/tracer.py', 'algopy.tracer.tracer'),
    ('algopy/utpm/__init__.py', 'algopy.utpm'),
    ('algopy/utpm/algorithms.py', 'algopy.utpm.algorithms'),
    ('algopy/utpm/utpm.py', 'algopy.utpm.utpm'),
]

DOC_EXAMPLE = 'documentation/examples/comparison_forward_reverse_mode.py'


class AnalysisError(Exception):
    """An anchor vanished or a construct is outside what a rule understands.
    Maps to exit 2 (never to a VIOLATION)."""

    def __init__(self, rule, site, reason):
        Exception.__init__(self, '%s @ %s: %s' % (rule, site, reason))
        self.rule, self.site, self.reason = rule, site, reason


class FuncInfo:
    def __init__(self, module, cls, node, kind, file, generated=False,
                 parent=None, conditional=None):
        self.module = module            # dotted module name
        self.cls = cls                  # class name or None
        self.node = node
        self.name = node.name
        self.kind = kind                # function|method|classmethod|staticmethod|property
        self.file = file
        self.generated = generated
        self.parent = parent            # enclosing FuncInfo for nested defs
        self.conditional = conditional  # 'if'/'else' for conditionally defined module functions
        self.recording_helper = False   # private helper whose calls were expanded into the recorder methods
        a = node.args
        self.params = [x.arg for x in a.posonlyargs + a.args]
        self.kwonly = [x.arg for x in a.kwonlyargs]
        self.vararg = a.vararg.arg if a.vararg else None
        self.kwarg = a.kwarg.arg if a.kwarg else None
        nd = len(a.defaults)
        self.defaults = {}
        for p, d in zip(self.params[len(self.params) - nd:], a.defaults):
            self.defaults[p] = d
        for p, d in zip(self.kwonly, a.kw_defaults):
            if d is not None:
                self.defaults[p] = d

    @property
    def qualname(self):
        q = self.name
        if self.parent is not None:
            q = self.parent.qualname + '.<locals>.' + q
        elif self.cls:
            q = self.cls + '.' + q
        return q

    @property
    def fq(self):
        return self.module + ':' + self.qualname

    @property
    def lineno(self):
        return true_line(self.node.lineno)

    def site(self, node=None):
        ln = true_line(getattr(node, 'lineno', self.node.lineno))
        return '%s:%d:%s' % (self.file, ln, self.qualname)

    def value_params(self):
        """parameters without the implicit self/cls"""
        if self.kind in ('method', 'classmethod', 'property') and self.params:
            return self.params[1:]
        return list(self.params)

    def __repr__(self):
        return '<Func %s>' % self.fq


class ClassInfo:
    def __init__(self, module, node, file):
        self.module = module
        self.node = node
        self.name = node.name
        self.file = file
        self.bases = [ast.unparse(b) for b in node.bases]
        self.methods = {}       # name -> FuncInfo (last definition wins, like Python)
        self.all_defs = []      # every def, including shadowed duplicates
        self.attrs = {}         # class-level simple assignments name -> ast value


class ModuleInfo:
    def __init__(self, name, file, tree, src):
        self.name = name
        self.file = file
        self.tree = tree
        self.src = src
        self.functions = {}     # name -> FuncInfo (effective)
        self.classes = {}
        self.imports = {}       # local name -> dotted target ('numpy', 'algopy.nthderiv', 'algopy.utpm.algorithms:RawAlgorithmsMixIn')
        self.star_imports = []  # dotted module names
        self.assigns = {}       # module-level name -> ast value
        self.all_names = None   # __all__ if literal


def _decorator_kind(node):
    for d in node.decorator_list:
        s = ast.unparse(d)
        if s == 'classmethod':
            return 'classmethod'
        if s == 'staticmethod':
            return 'staticmethod'
        if s == 'property':
            return 'property'
    return None


class Model:
    def __init__(self, repo=None, overrides=None):
        self.repo = repo or REPO
        self.overrides = overrides or {}
        self.modules = {}
        self.files_parsed = []
        self.generated = []     # FuncInfo of template-generated dispatchers
        self._load()

    def _canonicalise_out_params(self):
        """Private kernels name their designated output parameter `out`, and the rules know it by that name.  When a private
        function of the reference tree has renamed the parameter at the frozen position of `out` (verif/known_out_positions.json),
        the new name is mapped back to `out` - in the function and at keyword call sites - so that the analyses read the same
        program as before the renaming."""
        import json
        pth = os.path.join(os.path.dirname(os.path.abspath(__file__)), 'known_out_positions.json')
        try:
            known = json.load(open(pth))
        except Exception:
            return
        renamed = {}        # function name -> new parameter name
        for fi in self.all_functions():
            idx = known.get(fi.qualname)
            vp = fi.value_params()
            if idx is None or 'out' in fi.params or idx >= len(vp):
                continue
            new = vp[idx]
            uses_out = any(isinstance(n, ast.Name) and n.id == 'out' for n in ast.walk(fi.node))
            if uses_out:
                continue
            for n in ast.walk(fi.node):
                if isinstance(n, ast.Name) and n.id == new:
                    n.id = 'out'
                elif isinstance(n, ast.arg) and n.arg == new:
                    n.arg = 'out'
            fi.params = ['out' if p_ == new else p_ for p_ in fi.params]
            fi.kwonly = ['out' if p_ == new else p_ for p_ in fi.kwonly]
            if new in fi.defaults:
                fi.defaults['out'] = fi.defaults.pop(new)
            renamed[fi.name] = new
        if not renamed:
            return
        for fi in self.all_functions():
            for c in ast.walk(fi.node):
                if isinstance(c, ast.Call):
                    nm = c.func.attr if isinstance(c.func, ast.Attribute) else (c.func.id if isinstance(c.func, ast.Name) else None)
                    if nm in renamed:
                        for k in c.keywords:
                            if k.arg == renamed[nm]:
                                k.arg = 'out'

    def _canonicalise_dispatch_tables(self):
        """A method that selects its worker from a class-level table keyed by operand kinds,
            name = cls._table.get((isinstance(A, UTPM), isinstance(x, UTPM)));  if name is None: raise ...;  return getattr(cls, name)(A, x, out)
        reads like the if/elif chain over the same tests that calls the workers directly (the workers, being new private
        helpers, are then expanded in place like any other helper)."""
        for mi in self.modules.values():
            for ci in mi.classes.values():
                tables = {k: v for k, v in ci.attrs.items() if isinstance(v, ast.Dict) and v.keys and all(
                    isinstance(kk, ast.Tuple) and all(isinstance(e, ast.Constant) and isinstance(e.value, bool) for e in kk.elts)
                    and isinstance(vv, ast.Constant) and isinstance(vv.value, str) for kk, vv in zip(v.keys, v.values))}
                if not tables:
                    continue
                for fi in ci.all_defs:
                    body = fi.node.body
                    for i, st in enumerate(body):
                        if not (isinstance(st, ast.Assign) and len(st.targets) == 1 and isinstance(st.targets[0], ast.Name)):
                            continue
                        v = st.value
                        key = tab = None
                        if isinstance(v, ast.Call) and isinstance(v.func, ast.Attribute) and v.func.attr == 'get' and len(v.args) == 1 \
                                and isinstance(v.func.value, ast.Attribute) and v.func.value.attr in tables and isinstance(v.args[0], ast.Tuple):
                            tab, key = tables[v.func.value.attr], v.args[0]
                        elif isinstance(v, ast.Subscript) and isinstance(v.value, ast.Attribute) and v.value.attr in tables and isinstance(v.slice, ast.Tuple):
                            tab, key = tables[v.value.attr], v.slice
                        if tab is None or any(len(k.elts) != len(key.elts) for k in tab.keys):
                            continue
                        nm = st.targets[0].id
                        rest = body[i + 1:]
                        # optional guard `if name is None: raise`, then `return getattr(cls, name)(...)`
                        guard = None
                        if rest and isinstance(rest[0], ast.If) and norm(rest[0].test) == '%s is None' % nm and not rest[0].orelse:
                            guard, rest = rest[0], rest[1:]
                        if not (len(rest) == 1 and isinstance(rest[0], ast.Return) and isinstance(rest[0].value, ast.Call)
                                and isinstance(rest[0].value.func, ast.Call) and norm(rest[0].value.func.func) == 'getattr'
                                and len(rest[0].value.func.args) == 2 and norm(rest[0].value.func.args[1]) == nm):
                            continue
                        call = rest[0].value
                        recv = call.func.args[0]
                        chain = None
                        tail = list(guard.body) if guard is not None else [ast.copy_location(ast.Raise(exc=ast.Call(func=ast.Name(id='KeyError', ctx=ast.Load()), args=[], keywords=[]), cause=None), st)]
                        for k, w in reversed(list(zip(tab.keys, tab.values))):
                            tests = [t if e.value else ast.UnaryOp(op=ast.Not(), operand=t) for t, e in zip(key.elts, k.elts)]
                            test = tests[0] if len(tests) == 1 else ast.BoolOp(op=ast.And(), values=[copy.deepcopy(t) for t in tests])
                            ret = ast.Return(value=ast.Call(func=ast.Attribute(value=copy.deepcopy(recv), attr=w.value, ctx=ast.Load()),
                                                            args=copy.deepcopy(call.args), keywords=copy.deepcopy(call.keywords)))
                            node = ast.If(test=test, body=[ret], orelse=chain if chain is not None else tail)
                            chain = [node]
                        for n_ in ast.walk(chain[0]):
                            if not hasattr(n_, 'lineno'):
                                n_.lineno = st.lineno
                                n_.end_lineno = getattr(st, 'end_lineno', st.lineno)
                                n_.col_offset = st.col_offset
                                n_.end_col_offset = getattr(st, 'end_col_offset', st.col_offset)
                        fi.node.body = body[:i] + chain
                        break

    # --------------------------------------------------------------- inlining
    def _inline_recording_helpers(self, mi, known=None):
        """Methods of the tracer classes may delegate part of their work to a private helper of the same class
        (`return self._binary_op(operator.add, rhs)`, `return self._jacobian_utpm(x)`, `self._seed_and_sweep(w)`).
        The rules on recorders and drivers read one method at a time, so such calls are expanded in place (parameters
        substituted, clashing locals renamed):
          * a helper with a straight-line body, wherever its call is a whole statement (`return h()`, `v = h()`, `h()`);
          * any helper in tail position (`return self._h(...)`) - its own returns then return from the caller.
        A helper that records is marked `recording_helper` and is not a recorder site of its own."""
        for ci in mi.classes.values():
            helpers = {}
            frozen = set((known or {}).get(mi.name + ':' + ci.name, ()))
            # new private methods of a base class in another module of the package (`RawAlgorithmsMixIn._imul` called as `self._imul(..)` from
            # UTPM) are helpers of this class too, as long as their free names mean the same thing in both modules
            inherited = {}
            for bname in ci.bases:
                for omi in self.modules.values():
                    bci = omi.classes.get(bname.split('.')[-1])
                    if bci is None or bci is ci or omi is mi:
                        continue
                    bfrozen = set((known or {}).get(omi.name + ':' + bci.name, ()))
                    import builtins as _b
                    for bn, bh in bci.methods.items():
                        if bn in ci.methods or bn in bfrozen or not bn.startswith('_') or bn.startswith('__'):
                            continue
                        free = {n.id for n in ast.walk(bh.node) if isinstance(n, ast.Name) and isinstance(n.ctx, ast.Load)} - set(bh.params) \
                            - {n.id for n in ast.walk(bh.node) if isinstance(n, ast.Name) and isinstance(n.ctx, ast.Store)}
                        if all(hasattr(_b, f_) or (mi.imports.get(f_) is not None and mi.imports.get(f_) == omi.imports.get(f_)) for f_ in free):
                            inherited[bn] = bh
            for name, h in list(ci.methods.items()) + list(inherited.items()):
                if not name.startswith('_') or name.startswith('__') or h.kind == 'property':
                    continue
                if any(dotted_name(d_) not in ('classmethod', 'staticmethod') for d_ in h.node.decorator_list):
                    continue        # a decorator (cache, wrapper) changes what a call means
                if name in frozen:
                    continue
                body = list(h.node.body)
                if body and isinstance(body[0], ast.Expr) and isinstance(body[0].value, ast.Constant) and isinstance(body[0].value.value, str):
                    body = body[1:]
                if not body:
                    continue
                body = _normal_body(body)
                if any(isinstance(n, (ast.Yield, ast.YieldFrom, ast.FunctionDef, ast.Global, ast.Nonlocal, ast.While)) for b in body for n in ast.walk(b)):
                    continue
                # no (mutual) recursion
                if any(isinstance(c, ast.Call) and isinstance(c.func, ast.Attribute) and c.func.attr == name for b in body for c in ast.walk(b)):
                    continue
                head = body[:-1] if isinstance(body[-1], ast.Return) else body
                straight = all(isinstance(b, (ast.Assign, ast.AugAssign, ast.Expr)) for b in head)
                records = any(isinstance(c, ast.Call) and isinstance(c.func, ast.Attribute) and c.func.attr == 'pushforward' for b in body for c in ast.walk(b))
                helpers[name] = (h, body, straight, records)
            if not helpers:
                continue
            used = set()
            for _ in range(3):          # helpers calling helpers
                changed = False
                for fi in ci.all_defs:
                    new = _inline_calls(fi, ci.name, helpers, used)
                    if new is not None:
                        fi.node = new
                        fi.expanded = True
                        changed = True
                        if fi.name in helpers:
                            h, _, straight, records = helpers[fi.name]
                            body = list(fi.node.body)
                            if body and isinstance(body[0], ast.Expr) and isinstance(body[0].value, ast.Constant) and isinstance(body[0].value.value, str):
                                body = body[1:]
                            helpers[fi.name] = (h, body, straight, records)
                if not changed:
                    break
            for name in used:
                if helpers[name][3]:
                    helpers[name][0].recording_helper = True
                self.inlined.append(name)
                # a helper whose every call has been expanded is no longer a unit of its own
                still = any(isinstance(c, ast.Call) and isinstance(c.func, ast.Attribute) and c.func.attr == name
                            for fi in ci.all_defs if fi.name != name for c in ast.walk(fi.node))
                if not still and not helpers[name][3]:
                    h_ = helpers[name][0]
                    ci.methods.pop(name, None)
                    ci.all_defs = [f_ for f_ in ci.all_defs if f_ is not h_]

    def _inline_module_helpers(self, mi, known=None):
        """the same expansion for the dispatcher modules: a public dispatcher that hands its work to a private
        module-level helper (`return _dispatch('erf', x, (x,), scipy.special)`) is read with the helper expanded;
        the helper may be imported from another module in scope (`from algopy.globalfuncs import _dispatch`)"""
        helpers = {}

        def qualify(local, h, frozen):
            name = h.name
            if not name.startswith('_') or name.startswith('__') or h.generated:
                return
            if h.node.decorator_list:
                return          # a decorator (cache, wrapper) changes what a call means
            if name in frozen:
                return
            body = list(h.node.body)
            if body and isinstance(body[0], ast.Expr) and isinstance(body[0].value, ast.Constant) and isinstance(body[0].value.value, str):
                body = body[1:]
            if not body:
                return
            body = _normal_body(body)
            if any(isinstance(n, (ast.Yield, ast.YieldFrom, ast.FunctionDef, ast.Global, ast.Nonlocal, ast.While)) for b in body for n in ast.walk(b)):
                return
            if any(isinstance(c, ast.Call) and isinstance(c.func, ast.Name) and c.func.id == name for b in body for c in ast.walk(b)):
                return
            head = body[:-1] if isinstance(body[-1], ast.Return) else body
            straight = all(isinstance(b, (ast.Assign, ast.AugAssign, ast.Expr)) for b in head)
            helpers[local] = (h, body, straight, False)

        for name, h in mi.functions.items():
            qualify(name, h, set((known or {}).get(mi.name, ())))
        for local, tgt in mi.imports.items():
            if ':' in tgt and local not in mi.functions:
                mod, nm = tgt.split(':', 1)
                other = self.modules.get(mod)
                if other is not None and other is not mi and nm.startswith('_') and (nm in other.functions or nm in getattr(other, 'expanded_helpers', {})):
                    # the helper's own free names must mean the same here: only helpers that use nothing but their parameters,
                    # builtins and attribute access on them
                    h = other.functions.get(nm) or other.expanded_helpers[nm]
                    free = {n.id for n in ast.walk(h.node) if isinstance(n, ast.Name) and isinstance(n.ctx, ast.Load)} \
                        - set(h.params) - {n.id for n in ast.walk(h.node) if isinstance(n, ast.Name) and isinstance(n.ctx, ast.Store)}
                    import builtins
                    if all(hasattr(builtins, f_) or mi.imports.get(f_) == other.imports.get(f_) is not None for f_ in free):
                        qualify(local, h, set((known or {}).get(mod, ())))
        if not helpers:
            return
        used = set()
        callers = list(mi.functions.values())
        for ci in mi.classes.values():
            callers.extend(ci.all_defs)
        for _ in range(4):          # a helper handed to a helper as a callable shows up as a call only after the first expansion
            changed = False
            for fi in callers:
                if fi.cls is None and fi.name in helpers and helpers[fi.name][0] is fi:
                    continue
                new = _inline_calls(fi, None, helpers, used)
                if new is not None:
                    fi.node = new
                    fi.expanded = True
                    changed = True
            if not changed:
                break
        self.inlined.extend(sorted(used))
        gone = set()
        for _ in range(4):          # a helper only called by expanded helpers goes with them
            before = len(gone)
            for name in sorted(used - gone):
                still = any(isinstance(c, ast.Call) and isinstance(c.func, ast.Name) and c.func.id == name
                            for fi in callers if not (fi.cls is None and (fi.name == name or (fi.name in gone and helpers.get(fi.name, (None,))[0] is fi)))
                            for c in ast.walk(fi.node))
                if not still and name in mi.functions and helpers[name][0] is mi.functions[name]:
                    if not hasattr(mi, 'expanded_helpers'):
                        mi.expanded_helpers = {}
                    mi.expanded_helpers[name] = mi.functions.pop(name)
                    gone.add(name)
            if len(gone) == before:
                break

    # ------------------------------------------------------------------ load
    def _load(self):
        for rel, modname in SCOPE:
            path = os.path.join(self.repo, rel)
            if rel in self.overrides:
                src = self.overrides[rel]
            else:
                if not os.path.exists(path):
                    raise AnalysisError('E0.scope', rel, 'in-scope module vanished')
                src = open(path, encoding='utf-8').read()
            try:
                with warnings.catch_warnings():
                    warnings.simplefilter('ignore')
                    tree = ast.parse(src, filename=path)
            except SyntaxError as e:
                raise AnalysisError('E0.parse', rel, 'syntax error: %s' % e)
            _canonicalise_imports(tree)
            _canonicalise_copyto(tree)
            _canonicalise_ndindex(tree)
            _canonicalise_index_constants(tree)
            _canonicalise_kwargs_dicts(tree)
            _canonicalise_call_spellings(tree)
            if rel.endswith('tracer/tracer.py'):
                _canonicalise_recorder_keywords(tree)
                # the tracer rules read access paths (`F.setitem`, `cls.cgraph`, `F.args[0].x`); the kernels keep their locals (E1/E2 follow them)
                _canonicalise_paths(tree)
            for _ in range(3):          # flags defined from flags (`both = x_is_utpm and y_is_utpm`)
                _canonicalise_flags(tree)
            _canonicalise_selected_callee(tree)
            mi = ModuleInfo(modname, rel, tree, src)
            self.modules[modname] = mi
            self.files_parsed.append(rel)
            self._scan_module(mi)
        for mi in list(self.modules.values()):
            self._expand_templates(mi)
        self.inlined = []       # (caller FuncInfo, helper FuncInfo) pairs, see _inline_recording_helpers
        self._canonicalise_out_params()
        self._canonicalise_dispatch_tables()
        known = _known_private()
        for mn, mi in self.modules.items():
            # private helpers that exist on the reference tree are part of its architecture (kernels, pullbacks: analysed as
            # units); a private helper that is *new* is read as part of its callers
            self._inline_recording_helpers(mi, known)
            self._inline_module_helpers(mi, known)
        for mi in self.modules.values():
            fis = list(mi.functions.values())
            for ci in mi.classes.values():
                fis.extend(ci.all_defs)
            for fi in fis:
                if fi.cls is not None:
                    _propagate_snapshots(fi.node)
                if getattr(fi, 'expanded', False):
                    _simplify_tuple_roundtrips(fi.node)
                    _renumber(fi.node)

    def _resolve_relative(self, mi, level, module):
        if level == 0:
            return module
        pkg = mi.name.split('.')
        is_pkg = mi.file.endswith('__init__.py')
        if not is_pkg:
            pkg = pkg[:-1]
        if level > 1:
            pkg = pkg[:len(pkg) - (level - 1)]
        return '.'.join(pkg + ([module] if module else []))

    def _scan_body(self, mi, body, conditional=None):
        for st in body:
            if isinstance(st, ast.Import):
                for al in st.names:
                    if al.asname:
                        mi.imports[al.asname] = al.name
                    else:
                        mi.imports[al.name.split('.')[0]] = al.name.split('.')[0]
            elif isinstance(st, ast.ImportFrom):
                base = self._resolve_relative(mi, st.level, st.module)
                for al in st.names:
                    if al.name == '*':
                        mi.star_imports.append(base)
                    else:
                        mi.imports[al.asname or al.name] = base + ':' + al.name
            elif isinstance(st, ast.FunctionDef):
                fi = FuncInfo(mi.name, None, st, 'function', mi.file, conditional=conditional)
                if st.name not in mi.functions or conditional != 'else':
                    mi.functions[st.name] = fi
                self._scan_nested(fi)
            elif isinstance(st, ast.ClassDef):
                ci = ClassInfo(mi.name, st, mi.file)
                mi.classes[st.name] = ci
                for cst in st.body:
                    if isinstance(cst, ast.FunctionDef):
                        kind = _decorator_kind(cst) or 'method'
                        fi = FuncInfo(mi.name, st.name, cst, kind, mi.file)
                        ci.methods[cst.name] = fi
                        ci.all_defs.append(fi)
                        self._scan_nested(fi)
                    elif isinstance(cst, ast.Assign):
                        for t in cst.targets:
                            if isinstance(t, ast.Name):
                                ci.attrs[t.id] = cst.value
            elif isinstance(st, ast.Assign):
                for t in st.targets:
                    if isinstance(t, ast.Name):
                        mi.assigns[t.id] = st.value
                        if t.id == '__all__':
                            try:
                                mi.all_names = list(ast.literal_eval(st.value))
                            except Exception:
                                mi.all_names = None
            elif isinstance(st, ast.If):
                self._scan_body(mi, st.body, conditional or 'if')
                self._scan_body(mi, st.orelse, 'else')
            elif isinstance(st, ast.Try):
                self._scan_body(mi, st.body, conditional)
                for h in st.handlers:
                    self._scan_body(mi, h.body, 'else')

    def _scan_module(self, mi):
        self._scan_body(mi, mi.tree.body)

    def _scan_nested(self, fi):
        """register nested function definitions (recursively) with their parent"""
        fi.nested = {}
        for st in walk_no_nested(fi.node):
            if isinstance(st, ast.FunctionDef):
                nf = FuncInfo(fi.module, fi.cls, st, 'function', fi.file, parent=fi)
                fi.nested[st.name] = nf
                self._scan_nested(nf)

    def _expand_templates(self, mi):
        """function_template.substitute(function_name=<n>, namespace=<ns>) under
        `for function_name in <list name>: exec(...)` -> parsed FunctionDefs."""
        tmpl = mi.assigns.get('function_template')
        if tmpl is None:
            return
        if not (isinstance(tmpl, ast.Call) and ast.unparse(tmpl.func) == 'string.Template'
                and len(tmpl.args) == 1 and isinstance(tmpl.args[0], ast.Constant)):
            raise AnalysisError('E0.template', mi.file, 'function_template is not string.Template(<literal>)')
        text = tmpl.args[0].value
        n_loops = 0
        for st in mi.tree.body:
            if not isinstance(st, ast.For):
                continue
            calls = [c for c in ast.walk(st) if isinstance(c, ast.Call) and ast.unparse(c.func) == 'exec']
            if not calls:
                continue
            n_loops += 1
            if not (isinstance(st.iter, ast.Name) and st.iter.id in mi.assigns):
                raise AnalysisError('E0.template', '%s:%d' % (mi.file, st.lineno), 'exec loop does not iterate a literal list name')
            try:
                names = list(ast.literal_eval(mi.assigns[st.iter.id]))
            except Exception:
                raise AnalysisError('E0.template', '%s:%d' % (mi.file, st.lineno), 'name list is not a literal')
            sub = calls[0].args[0]
            if not (isinstance(sub, ast.Call) and ast.unparse(sub.func) == 'function_template.substitute'):
                raise AnalysisError('E0.template', '%s:%d' % (mi.file, st.lineno), 'exec argument is not function_template.substitute(...)')
            kw = {k.arg: k.value for k in sub.keywords}
            loopvar = st.target.id if isinstance(st.target, ast.Name) else None
            if not (isinstance(kw.get('function_name'), ast.Name) and kw['function_name'].id == loopvar):
                raise AnalysisError('E0.template', '%s:%d' % (mi.file, st.lineno), 'function_name is not the loop variable')
            if not isinstance(kw.get('namespace'), ast.Constant):
                raise AnalysisError('E0.template', '%s:%d' % (mi.file, st.lineno), 'namespace is not a literal')
            ns = kw['namespace'].value
            for n in names:
                code = string.Template(text).substitute(function_name=n, namespace=ns)
                try:
                    t = ast.parse(code)
                except SyntaxError as e:
                    raise AnalysisError('E0.template', mi.file, 'generated source for %s does not parse: %s' % (n, e))
                fd = [x for x in t.body if isinstance(x, ast.FunctionDef)]
                if len(fd) != 1 or fd[0].name != n:
                    raise AnalysisError('E0.template', mi.file, 'generated source for %s does not define exactly that function' % n)
                for x in ast.walk(fd[0]):
                    if hasattr(x, 'lineno'):
                        x.lineno = st.lineno
                fi = FuncInfo(mi.name, None, fd[0], 'function', mi.file, generated=True)
                fi.nested = {}
                fi.gen_namespace = ns
                fi.gen_list = st.iter.id
                mi.functions[n] = fi
                self.generated.append(fi)
        if n_loops == 0:
            raise AnalysisError('E0.template', mi.file, 'function_template defined but never expanded')

    # --------------------------------------------------------------- queries
    def module(self, name):
        if name not in self.modules:
            raise AnalysisError('E0.anchor', name, 'module not in model')
        return self.modules[name]

    def cls(self, name):
        for mi in self.modules.values():
            if name in mi.classes:
                return mi.classes[name]
        return None

    def mro(self, clsname):
        """C3 is overkill here: depth-first left-to-right without duplicates
        matches Python's MRO for this hierarchy (single diamond-free chains)."""
        out = []

        def rec(n):
            ci = self.cls(n)
            if ci is None or ci in out:
                return
            out.append(ci)
            for b in ci.bases:
                rec(b.split('.')[-1])
        rec(clsname)
        return out

    def lookup_method(self, clsname, name):
        for ci in self.mro(clsname):
            if name in ci.methods:
                return ci.methods[name]
        return None

    def lookup_class_attr(self, clsname, name):
        for ci in self.mro(clsname):
            if name in ci.methods:
                return ci.methods[name]
            if name in ci.attrs:
                return ci.attrs[name]
        return None

    def func(self, module, qual):
        """anchor lookup: 'algopy.utpm.algorithms', 'RawAlgorithmsMixIn._mul' or 'vdot'"""
        mi = self.module(module)
        if '.' in qual:
            c, m = qual.split('.', 1)
            if c in mi.classes and m in mi.classes[c].methods:
                return mi.classes[c].methods[m]
        elif qual in mi.functions:
            return mi.functions[qual]
        raise AnalysisError('E0.anchor', module + ':' + qual, 'function vanished')

    def all_functions(self, include_nested=True):
        def rec(fi):
            yield fi
            if include_nested:
                for nf in getattr(fi, 'nested', {}).values():
                    for x in rec(nf):
                        yield x
        for mi in self.modules.values():
            for fi in mi.functions.values():
                for x in rec(fi):
                    yield x
            for ci in mi.classes.values():
                for fi in ci.all_defs:
                    for x in rec(fi):
                        yield x

    # -------------------------------------------------- namespace resolution
    def _own_namespace(self, mi):
        ns = {}
        for k, v in mi.assigns.items():
            ns[k] = ('value', v)
        for k, ci in mi.classes.items():
            ns[k] = ('class', ci)
        for k, fi in mi.functions.items():
            ns[k] = ('func', fi)
        return ns

    def module_namespace(self, modname):
        """names visible as attributes of a module -> ('func', FuncInfo) |
        ('class', ClassInfo) | ('module', dotted) | ('ext', dotted) | ('value', ast).
        Import cycles (algopy <-> algopy.globalfuncs) are cut by returning the
        module's own definitions while it is being resolved."""
        if modname not in self.modules:
            return {}
        cache = self.__dict__.setdefault('_ns_cache', {})
        prog = self.__dict__.setdefault('_ns_prog', set())
        if modname in cache:
            return cache[modname]
        mi = self.modules[modname]
        if modname in prog:
            return self._own_namespace(mi)
        prog.add(modname)
        ns = {}
        for sm in mi.star_imports:
            sub = self.module_namespace(sm)
            allow = self.modules[sm].all_names if sm in self.modules else None
            for k, v in sub.items():
                if allow is not None and k not in allow:
                    continue
                if k.startswith('_') and allow is None:
                    continue
                ns[k] = v
        own = self._own_namespace(mi)
        for k, v in own.items():
            if v[0] == 'value':
                ns[k] = v
        # imports win over plain assignments of the same name (`pytpcore = None`
        # in an except branch of a try-import)
        for local, tgt in mi.imports.items():
            ns[local] = self._import_target(tgt)
        for k, v in own.items():
            if v[0] != 'value':
                ns[k] = v
        prog.discard(modname)
        if not prog:
            cache[modname] = ns
        return ns

    def _import_target(self, tgt):
        if ':' in tgt:
            base, name = tgt.split(':')
            if base in self.modules:
                if base + '.' + name in self.modules:
                    return ('module', base + '.' + name)
                sub = self.module_namespace(base)
                if name in sub:
                    return sub[name]
                # cut cycle (package half initialised): global search by name
                for mi in self.modules.values():
                    if name in mi.classes:
                        return ('class', mi.classes[name])
                for mi in self.modules.values():
                    if name in mi.functions and not mi.name.endswith('nthderiv'):
                        return ('func', mi.functions[name])
                return ('ext', base + '.' + name)
            return ('ext', base + '.' + name)
        if tgt in self.modules:
            return ('module', tgt)
        return ('ext', tgt)

    def resolve_dotted(self, modname, dotted):
        """resolve `a.b.c` as seen from module `modname`; returns a tagged tuple
        like module_namespace values, or None."""
        parts = dotted.split('.')
        ns = self.module_namespace(modname)
        cur = ns.get(parts[0])
        if cur is None:
            return None
        for p in parts[1:]:
            if cur is None:
                return None
            tag, val = cur
            if tag == 'module':
                # a package's `from .x import *` rebinds the name x when the
                # submodule defines a function of its own name (algopy.fft.fft)
                cur = self.module_namespace(val).get(p)
                if (cur is None or cur[0] == 'module') and val + '.' + p in self.modules:
                    cur = ('module', val + '.' + p)
            elif tag == 'ext':
                cur = ('ext', val + '.' + p)
            elif tag == 'class':
                a = self.lookup_class_attr(val.name, p)
                if a is None:
                    return None
                cur = ('func', a) if isinstance(a, FuncInfo) else ('value', a)
            else:
                return None
        return cur


# --------------------------------------------------------------------- helpers
def norm(node):
    """normalised statement text used in finding keys"""
    return ' '.join(ast.unparse(node).split())


def dotted_name(node):
    """a.b.c -> 'a.b.c' for pure Name/Attribute chains, else None"""
    parts = []
    while isinstance(node, ast.Attribute):
        parts.append(node.attr)
        node = node.value
    if isinstance(node, ast.Name):
        parts.append(node.id)
        return '.'.join(reversed(parts))
    return None


def walk_no_nested(node):
    """ast.walk that does not descend into nested function/class definitions"""
    todo = list(ast.iter_child_nodes(node))
    while todo:
        n = todo.pop()
        yield n
        if isinstance(n, (ast.FunctionDef, ast.ClassDef, ast.Lambda)):
            continue
        todo.extend(ast.iter_child_nodes(n))


def must_raise(model, modname, body, depth=0):
    """True when every path through the statement list ends in `raise` - directly or by calling a function
    (resolved from module `modname`) all of whose paths raise."""
    for st in body:
        if isinstance(st, ast.Raise):
            return True
        if isinstance(st, ast.Return):
            return False
        if isinstance(st, ast.If):
            if st.orelse and must_raise(model, modname, st.body, depth) and must_raise(model, modname, st.orelse, depth):
                return True
        if isinstance(st, ast.Expr) and isinstance(st.value, ast.Call) and depth < 3:
            d = dotted_name(st.value.func)
            tgt = model.resolve_dotted(modname, d) if d else None
            if tgt is not None and tgt[0] == 'func' and must_raise(model, tgt[1].module, tgt[1].node.body, depth + 1):
                return True
    return False


def _is_full_reverse_slice(sl):
    return isinstance(sl, ast.Slice) and sl.lower is None and sl.upper is None and isinstance(sl.step, ast.UnaryOp) \
        and isinstance(sl.step.op, ast.USub) and isinstance(sl.step.operand, ast.Constant) and sl.step.operand.value == 1


def _call_of(node, name, nargs=None):
    return isinstance(node, ast.Call) and isinstance(node.func, ast.Name) and node.func.id == name and not node.keywords \
        and (nargs is None or len(node.args) == nargs)


def seq_iteration(for_stmt):
    """Recognise the idioms that visit *every* element of a sequence S once:
        for e in S | enumerate(S) | S[::-1] | reversed(S) | enumerate(S[::-1]) ...
        for i in range(len(S)) | reversed(range(len(S))) | range(len(S))[::-1] | range(len(S)-1, -1, -1)
    -> (norm(S), 'fwd'|'rev', element) with element = the Name bound to the element (`e`, or `f` from a leading
    `f = S[i]` in the body) or the text 'S[i]';  None when the loop is not one of these forms."""
    it, tgt = for_stmt.iter, for_stmt.target
    enum = False
    if _call_of(it, 'enumerate', 1) or _call_of(it, 'enumerate', 2):
        enum, it = True, it.args[0]
    direction = 'fwd'
    while True:
        if _call_of(it, 'reversed', 1):
            it = it.args[0]
        elif isinstance(it, ast.Subscript) and _is_full_reverse_slice(it.slice):
            it = it.value
        elif _call_of(it, 'list', 1) or _call_of(it, 'tuple', 1):
            it = it.args[0]
            continue
        elif not enum and (_call_of(it, 'enumerate', 1) or _call_of(it, 'enumerate', 2)):
            enum, it = True, it.args[0]          # reversed(list(enumerate(S)))
            continue
        else:
            break
        direction = 'rev' if direction == 'fwd' else 'fwd'
    index_based = False
    if _call_of(it, 'range'):
        a = it.args
        if len(a) == 1 and _call_of(a[0], 'len', 1):
            seq = a[0].args[0]
        elif len(a) == 3 and norm(a[1]) == '-1' and norm(a[2]) == '-1' and isinstance(a[0], ast.BinOp) \
                and isinstance(a[0].op, ast.Sub) and norm(a[0].right) == '1' and _call_of(a[0].left, 'len', 1):
            seq = a[0].left.args[0]
            direction = 'rev' if direction == 'fwd' else 'fwd'
        elif len(a) == 2 and norm(a[0]) == '0' and _call_of(a[1], 'len', 1):
            seq = a[1].args[0]
        else:
            return None
        index_based = True
    else:
        seq = it
    if enum:
        if not (isinstance(tgt, ast.Tuple) and len(tgt.elts) == 2):
            return None
        tgt = tgt.elts[1]
    if not index_based:
        return norm(seq), direction, (tgt.id if isinstance(tgt, ast.Name) else norm(tgt))
    if not isinstance(tgt, ast.Name):
        return None
    want = '%s[%s]' % (norm(seq), tgt.id)
    for st in for_stmt.body:
        if isinstance(st, ast.Assign) and len(st.targets) == 1 and isinstance(st.targets[0], ast.Name) and norm(st.value) == want:
            return norm(seq), direction, st.targets[0].id
        if isinstance(st, (ast.Expr, ast.Pass)) and not any(isinstance(n, ast.Call) for n in ast.walk(st)):
            continue
        break
    return norm(seq), direction, want


EXTERNAL_ROOTS = ('numpy', 'scipy', 'math', 'operator', 'functools', 'itertools', 'copy', 'string', 'warnings')


def _canonicalise_imports(tree):
    """The rules name library functions by their canonical dotted names (`numpy.zeros`, `scipy.linalg.qr`).  Import aliases
    of external libraries are therefore undone on the AST: `import numpy as np` / `from numpy import zeros as z` make
    `np.zeros` / `z` read as `numpy.zeros`.  Names that a function binds itself (parameters, assignments) are left alone."""
    alias = {}
    for st in tree.body:
        if isinstance(st, ast.Import):
            for al in st.names:
                if al.asname and al.name.split('.')[0] in EXTERNAL_ROOTS and al.asname != al.name:
                    alias[al.asname] = al.name
        elif isinstance(st, ast.ImportFrom) and st.level == 0 and st.module and st.module.split('.')[0] in EXTERNAL_ROOTS:
            for al in st.names:
                if al.name != '*':
                    alias[al.asname or al.name] = st.module + '.' + al.name
    # `from numpy import linalg` style keeps working through the same table; plain `import numpy` needs nothing
    alias = {k: v for k, v in alias.items() if k != v}
    if not alias:
        return

    def dotted(v, like):
        parts = v.split('.')
        node = ast.Name(id=parts[0], ctx=ast.Load())
        for p_ in parts[1:]:
            node = ast.Attribute(value=node, attr=p_, ctx=ast.Load())
        for n in ast.walk(node):
            ast.copy_location(n, like)
        return node

    class T(ast.NodeTransformer):
        def __init__(self):
            self.shadow = [set()]

        def visit_FunctionDef(self, f):
            a = f.args
            local = {x.arg for x in a.posonlyargs + a.args + a.kwonlyargs}
            if a.vararg:
                local.add(a.vararg.arg)
            if a.kwarg:
                local.add(a.kwarg.arg)
            for n in ast.walk(f):
                if isinstance(n, ast.Name) and isinstance(n.ctx, ast.Store):
                    local.add(n.id)
            self.shadow.append(local)
            self.generic_visit(f)
            self.shadow.pop()
            return f

        def visit_Name(self, n):
            if isinstance(n.ctx, ast.Load) and n.id in alias and not any(n.id in sh for sh in self.shadow):
                return dotted(alias[n.id], n)
            return n

    T().visit(tree)
    # the import statements themselves: make the canonical root available (`import numpy`)
    roots = sorted({v.split('.')[0] for v in alias.values()})
    have = {al.name for st in tree.body if isinstance(st, ast.Import) for al in st.names if not al.asname}
    extra = [ast.Import(names=[ast.alias(name=r_, asname=None)]) for r_ in roots if r_ not in have]
    for e in extra:
        e.lineno = e.end_lineno = 1
        e.col_offset = e.end_col_offset = 0
    tree.body[0:0] = extra


def _is_kind_test(e, stable):
    """a side-effect free test of the kind of a never-reassigned name: isinstance(x, T) / numpy.isscalar(x) / hasattr(x, 'a') /
    x is None, and their and/or/not combinations"""
    if isinstance(e, ast.BoolOp):
        return all(_is_kind_test(v, stable) for v in e.values)
    if isinstance(e, ast.UnaryOp) and isinstance(e.op, ast.Not):
        return _is_kind_test(e.operand, stable)
    if isinstance(e, ast.Call) and not e.keywords and e.args and isinstance(e.args[0], ast.Name) and e.args[0].id in stable:
        d = dotted_name(e.func)
        if d in ('isinstance', 'hasattr') and len(e.args) == 2:
            return all(isinstance(n, (ast.Name, ast.Attribute, ast.Tuple, ast.Constant, ast.Load)) for n in ast.walk(e.args[1]))
        if d in ('numpy.isscalar',) and len(e.args) == 1:
            return True
    if isinstance(e, ast.Compare) and len(e.ops) == 1 and isinstance(e.comparators[0], ast.Constant) and isinstance(e.comparators[0].value, int):
        # a test of the rank of a never-reassigned name: numpy.ndim(x) == 3, x.ndim > 1, len(x.shape) == 2
        l = e.left
        base = None
        if isinstance(l, ast.Call) and dotted_name(l.func) == 'numpy.ndim' and len(l.args) == 1 and isinstance(l.args[0], ast.Name):
            base = l.args[0].id
        elif isinstance(l, ast.Attribute) and l.attr == 'ndim' and isinstance(l.value, ast.Name):
            base = l.value.id
        elif isinstance(l, ast.Call) and dotted_name(l.func) == 'len' and len(l.args) == 1 and isinstance(l.args[0], ast.Attribute) \
                and l.args[0].attr == 'shape' and isinstance(l.args[0].value, ast.Name):
            base = l.args[0].value.id
        if base is not None and base in stable:
            return True
    if isinstance(e, ast.Compare) and len(e.ops) == 1 and isinstance(e.ops[0], (ast.Is, ast.IsNot)) and isinstance(e.left, ast.Name) \
            and e.left.id in stable and isinstance(e.comparators[0], ast.Constant) and e.comparators[0].value is None:
        return True
    # a test of a never-reassigned scalar option: type(r) == int, r >= 0, r == 0
    if isinstance(e, ast.Compare) and len(e.ops) == 1:
        l, c = e.left, e.comparators[0]
        if isinstance(l, ast.Call) and dotted_name(l.func) == 'type' and len(l.args) == 1 and not l.keywords and isinstance(l.args[0], ast.Name) \
                and l.args[0].id in stable and isinstance(e.ops[0], (ast.Eq, ast.Is, ast.NotEq, ast.IsNot)) and isinstance(c, (ast.Name, ast.Attribute)):
            return True
        if isinstance(l, ast.Name) and l.id in stable and isinstance(c, ast.Constant) and isinstance(c.value, int) and not isinstance(c.value, bool) \
                and isinstance(e.ops[0], (ast.Eq, ast.NotEq, ast.Lt, ast.LtE, ast.Gt, ast.GtE)):
            return True
    return False


def _canonicalise_copyto(tree):
    """`numpy.copyto(T, V)` (any casting=) stores V into the storage of T like `T[...] = V` does: one spelling for the rules"""
    class T(ast.NodeTransformer):
        def visit_Expr(self, st):
            c = st.value
            if isinstance(c, ast.Call) and dotted_name(c.func) == 'numpy.copyto' and len(c.args) == 2 \
                    and all(k.arg in ('casting',) for k in c.keywords) and isinstance(c.args[0], (ast.Name, ast.Attribute, ast.Subscript)):
                tgt = copy.deepcopy(c.args[0])
                for n in ast.walk(tgt):
                    if hasattr(n, 'ctx'):
                        n.ctx = ast.Load()
                new = ast.Assign(targets=[ast.Subscript(value=tgt, slice=ast.Constant(value=Ellipsis), ctx=ast.Store())], value=c.args[1])
                ast.copy_location(new, st)
                for n in ast.walk(new):
                    if not hasattr(n, 'lineno'):
                        ast.copy_location(n, st)
                return new
            return st
    T().visit(tree)


def _index_literal(e):
    """an element of a literal index: slice(...) of constants, numpy.newaxis, None, Ellipsis, an integer"""
    if isinstance(e, ast.Constant) and (e.value is None or e.value is Ellipsis or (isinstance(e.value, int) and not isinstance(e.value, bool))):
        return True
    if isinstance(e, ast.Name) and e.id == 'Ellipsis':
        return True
    if dotted_name(e) == 'numpy.newaxis':
        return True
    if isinstance(e, ast.UnaryOp) and isinstance(e.op, ast.USub) and isinstance(e.operand, ast.Constant) and isinstance(e.operand.value, int):
        return True
    if isinstance(e, ast.Call) and isinstance(e.func, ast.Name) and e.func.id == 'slice' and not e.keywords and 1 <= len(e.args) <= 3:
        return all(_index_literal(a) and not (isinstance(a, ast.Call)) for a in e.args)
    return False


def _canonicalise_index_constants(tree):
    """a module-level name bound once to a literal index tuple (`_ALL = (slice(None), slice(None))`, `_AS_ROW = (slice(None), slice(None),
    numpy.newaxis, slice(None))`) reads like the tuple written out where it is used; and `X[(slice(None), numpy.newaxis, ...)]` /
    `X[slice(a, b)]` is the subscript `X[:, numpy.newaxis, ...]` / `X[a:b]` (same index object)"""
    stores = {}
    for n in ast.walk(tree):
        if isinstance(n, ast.Name) and isinstance(n.ctx, (ast.Store, ast.Del)):
            stores[n.id] = stores.get(n.id, 0) + 1
        elif isinstance(n, ast.arg):
            stores[n.arg] = stores.get(n.arg, 0) + 2
        elif isinstance(n, (ast.FunctionDef, ast.ClassDef)):
            stores[n.name] = stores.get(n.name, 0) + 2
        elif isinstance(n, ast.alias):
            stores[(n.asname or n.name).split('.')[0]] = stores.get((n.asname or n.name).split('.')[0], 0) + 2
        elif isinstance(n, (ast.Global, ast.Nonlocal)):
            for x in n.names:
                stores[x] = stores.get(x, 0) + 2
    consts = {}
    for st in tree.body:
        if isinstance(st, ast.Assign) and len(st.targets) == 1 and isinstance(st.targets[0], ast.Name) and stores.get(st.targets[0].id) == 1 \
                and isinstance(st.value, ast.Tuple) and st.value.elts and all(_index_literal(e) for e in st.value.elts):
            consts[st.targets[0].id] = st.value

    def to_slice(e):
        if isinstance(e, ast.Call) and isinstance(e.func, ast.Name) and e.func.id == 'slice' and _index_literal(e):
            a = [None if (isinstance(x, ast.Constant) and x.value is None) else x for x in e.args]
            if len(a) == 1:
                a = [None, a[0], None]
            a += [None] * (3 - len(a))
            return ast.copy_location(ast.Slice(lower=a[0], upper=a[1], step=a[2]), e)
        return e

    class T(ast.NodeTransformer):
        def visit_Name(self, n):
            if isinstance(n.ctx, ast.Load) and n.id in consts:
                new = copy.deepcopy(consts[n.id])
                for x in ast.walk(new):
                    ast.copy_location(x, n)
                return self.visit(new)
            if isinstance(n.ctx, ast.Load) and n.id == 'Ellipsis' and 'Ellipsis' not in stores:
                return ast.copy_location(ast.Constant(value=Ellipsis), n)
            return n

        def visit_Subscript(self, n):
            self.generic_visit(n)
            sl = n.slice
            if isinstance(sl, ast.Tuple) and any(isinstance(e, ast.Call) for e in sl.elts) and all(_index_literal(e) for e in sl.elts):
                sl.elts = [to_slice(e) for e in sl.elts]
            elif isinstance(sl, ast.Call):
                n.slice = to_slice(sl)
            return n
    if consts or True:
        T().visit(tree)


def _canonicalise_recorder_keywords(tree):
    """`X.pushforward(func, args, kw, node)` is `X.pushforward(func, args, Fkwargs=kw, Fout=node)`: positional arguments of the recording
    classmethod beyond (func, Fargs) are written as the keywords its signature gives them (the rules read `Fout=` / `Fkwargs=`)"""
    sig = None
    for c in tree.body:
        if isinstance(c, ast.ClassDef) and c.name == 'Function':
            for f in c.body:
                if isinstance(f, ast.FunctionDef) and f.name == 'pushforward':
                    sig = [a.arg for a in f.args.args][1:]      # without cls
    if not sig or len(sig) < 3:
        return
    for n in ast.walk(tree):
        if isinstance(n, ast.Call) and isinstance(n.func, ast.Attribute) and n.func.attr == 'pushforward' and len(n.args) > 2 \
                and len(n.args) <= len(sig) and not any(isinstance(a, ast.Starred) for a in n.args):
            have = {k.arg for k in n.keywords}
            extra = list(zip(sig[2:], n.args[2:]))
            if any(name in have for name, _ in extra):
                continue
            n.keywords = [ast.keyword(arg=name, value=v) for name, v in extra] + n.keywords
            n.args = n.args[:2]


def _dict_items(e):
    """[(key, value expr)] of a dict display / dict(k=v) call with constant string keys that are identifiers; None otherwise"""
    if isinstance(e, ast.Dict) and e.keys and all(isinstance(k, ast.Constant) and isinstance(k.value, str) and k.value.isidentifier() for k in e.keys):
        return [(k.value, v) for k, v in zip(e.keys, e.values)]
    if isinstance(e, ast.Call) and isinstance(e.func, ast.Name) and e.func.id == 'dict' and not e.args and e.keywords and all(k.arg for k in e.keywords):
        return [(k.arg, k.value) for k in e.keywords]
    return None


def _canonicalise_kwargs_dicts(tree):
    """`f(a, **{'out': o, 'k': k})`, `f(a, **dict(out=o))` and `opts = {'out': o}; f(a, **opts)` read like `f(a, out=o, k=k)`: a dict
    display with constant keys that only exists to be unpacked at a call is the keyword list written out.  The local form is
    rewritten only when the dict is bound once, used for nothing but `**` unpacking, and nothing between the binding and the
    call (same block) can change what its values read"""
    class Inline(ast.NodeTransformer):
        def visit_Call(self, c):
            self.generic_visit(c)
            new = []
            for k in c.keywords:
                items = _dict_items(k.value) if k.arg is None else None
                if items is not None and not ({n for n, _ in items} & {q.arg for q in c.keywords if q.arg}):
                    new.extend(ast.keyword(arg=n, value=v) for n, v in items)
                else:
                    new.append(k)
            c.keywords = new
            return c
    Inline().visit(tree)
    for f in ast.walk(tree):
        if not isinstance(f, ast.FunctionDef):
            continue
        stores, loads = {}, {}
        for n in ast.walk(f):
            if isinstance(n, ast.Name):
                (stores if isinstance(n.ctx, (ast.Store, ast.Del)) else loads).setdefault(n.id, []).append(n)
        star = {}
        for c in ast.walk(f):
            if isinstance(c, ast.Call):
                for k in c.keywords:
                    if k.arg is None and isinstance(k.value, ast.Name):
                        star.setdefault(k.value.id, []).append((c, k))

        def blocks(node):
            for attr in ('body', 'orelse', 'finalbody'):
                b = getattr(node, attr, None)
                if isinstance(b, list) and b and isinstance(b[0], ast.stmt):
                    yield b
                    for st in b:
                        if not isinstance(st, (ast.FunctionDef, ast.ClassDef)):
                            yield from blocks(st)
            if isinstance(node, ast.Try):
                for h in node.handlers:
                    yield h.body
                    for st in h.body:
                        yield from blocks(st)
        for body in list(blocks(f)):
            for i, st in enumerate(list(body)):
                if not (isinstance(st, ast.Assign) and len(st.targets) == 1 and isinstance(st.targets[0], ast.Name)):
                    continue
                name = st.targets[0].id
                items = _dict_items(st.value)
                if items is None or len(stores.get(name, ())) != 1 or name not in star or len(loads.get(name, ())) != len(star[name]):
                    continue
                reads = {x.id for _, v in items for x in ast.walk(v) if isinstance(x, ast.Name)}
                # every unpacking call sits in a later statement of the same block, with nothing in between that stores what the values read
                ok = True
                sites = []
                for c, k in star[name]:
                    j = next((j for j in range(i + 1, len(body)) if any(x is c for x in ast.walk(body[j]))), None)
                    if j is None:
                        ok = False
                        break
                    between = body[i + 1:j]
                    if any(isinstance(x, ast.Name) and isinstance(x.ctx, (ast.Store, ast.Del)) and x.id in reads for b in between for x in ast.walk(b)) \
                            or any(isinstance(b, ast.Expr) for b in between):
                        ok = False
                        break
                    if {n_ for n_, _ in items} & {q.arg for q in c.keywords if q.arg}:
                        ok = False
                        break
                    sites.append((c, k))
                if not ok:
                    continue
                for c, k in sites:
                    pos = c.keywords.index(k)
                    c.keywords[pos:pos + 1] = [ast.keyword(arg=n_, value=copy.deepcopy(v)) for n_, v in items]
                body.remove(st)


def _canonicalise_ndindex(tree):
    """`for d, p in numpy.ndindex(D, P): body` visits the same (d, p) in the same order as `for d in range(D): for p in range(P): body`
    (also itertools.product(range(D), range(P))); loops with break/else at that level are left alone"""
    class T(ast.NodeTransformer):
        def visit_For(self, lp):
            self.generic_visit(lp)
            it = lp.iter
            if lp.orelse or not isinstance(lp.target, ast.Tuple) or not isinstance(it, ast.Call) or it.keywords:
                return lp
            d = dotted_name(it.func)
            bounds = None
            if d == 'numpy.ndindex' and len(it.args) == len(lp.target.elts) >= 2:
                bounds = [ast.Call(func=ast.Name(id='range', ctx=ast.Load()), args=[a], keywords=[]) for a in it.args]
            elif d in ('itertools.product',) and len(it.args) == len(lp.target.elts) >= 2 and all(
                    isinstance(a, ast.Call) and isinstance(a.func, ast.Name) and a.func.id == 'range' for a in it.args):
                bounds = list(it.args)
            if bounds is None or not all(isinstance(e, ast.Name) for e in lp.target.elts):
                return lp

            def has_break(body):
                for b in body:
                    for n in ast.walk(b):
                        if isinstance(n, ast.Break):
                            return True
                return False
            if has_break(lp.body):
                return lp
            inner = lp.body
            for tgt, rng in reversed(list(zip(lp.target.elts, bounds))):
                new = ast.For(target=tgt, iter=rng, body=inner, orelse=[])
                ast.copy_location(new, lp)
                for n in ast.walk(rng):
                    if not hasattr(n, 'lineno'):
                        ast.copy_location(n, lp)
                inner = [new]
            return inner[0]
    T().visit(tree)


def _is_path(e):
    """a pure access path: name, attribute chain, subscripts with constant / name indices"""
    if isinstance(e, ast.Name):
        return True
    if isinstance(e, ast.Attribute):
        return _is_path(e.value)
    if isinstance(e, ast.Subscript):
        sl = e.slice
        ok = isinstance(sl, ast.Constant) or isinstance(sl, ast.Name)
        return ok and _is_path(e.value)
    return False


def _canonicalise_paths(tree):
    """`saved = F.setitem` ... `if is_set(saved): buffer = F.args[0].x; buffer[saved[0]] = saved[1]` reads like the code with the
    access paths written out.  A local is replaced by its path when it is bound once to a pure access path (attributes /
    constant or name subscripts), every use follows the binding inside the same block, the names the path starts from are
    not rebound in between, and nothing in the function stores to that path, a prefix or an extension of it."""
    for f in ast.walk(tree):
        if not isinstance(f, ast.FunctionDef):
            continue
        for _ in range(4):
            if not _paths_once(f):
                break


def _paths_once(f):
    stores = {}
    for n in ast.walk(f):
        if isinstance(n, ast.Name) and isinstance(n.ctx, (ast.Store, ast.Del)):
            stores[n.id] = stores.get(n.id, 0) + 1
    a = f.args
    params = {x.arg for x in a.posonlyargs + a.args + a.kwonlyargs}
    nested = {n.id for g in ast.walk(f) if isinstance(g, (ast.FunctionDef, ast.Lambda)) and g is not f for n in ast.walk(g) if isinstance(n, ast.Name)}
    stored_paths = [norm(n) for n in ast.walk(f) if isinstance(n, (ast.Attribute, ast.Subscript)) and isinstance(n.ctx, (ast.Store, ast.Del))]
    stored_paths += [norm(n.target) for n in ast.walk(f) if isinstance(n, ast.AugAssign) and not isinstance(n.target, ast.Name)]
    blocks = []
    for n in ast.walk(f):
        for attr in ('body', 'orelse', 'finalbody'):
            blk = getattr(n, attr, None)
            if isinstance(blk, list) and blk and isinstance(blk[0], ast.stmt):
                blocks.append((n, attr, blk))
    for owner, attr, blk in blocks:
        for i, st in enumerate(blk):
            if not (isinstance(st, ast.Assign) and len(st.targets) == 1 and isinstance(st.targets[0], ast.Name)):
                continue
            nm, v = st.targets[0].id, st.value
            if stores.get(nm) != 1 or nm in params or nm in nested or not isinstance(v, (ast.Attribute, ast.Subscript)) or not _is_path(v):
                continue
            if isinstance(v, ast.Attribute) and v.attr in ('size', 'shape', 'ndim', 'dtype', 'T', 'real', 'imag', '__name__', '__class__'):
                continue        # a value (extent, dtype), not a reference to an object of the graph
            txt = norm(v)
            # stores to the path itself / a prefix are rebinding; stores to an extension through the local are what we rewrite
            if any(p_ == txt or txt.startswith(p_ + '.') or txt.startswith(p_ + '[') for p_ in stored_paths):
                continue
            rest = blk[i + 1:]
            inside = {id(x) for r_ in rest for x in ast.walk(r_)}
            uses = [x for x in ast.walk(f) if isinstance(x, ast.Name) and x.id == nm and isinstance(x.ctx, ast.Load)]
            if not uses or any(id(u) not in inside for u in uses):
                continue
            base_names = {x.id for x in ast.walk(v) if isinstance(x, ast.Name)}
            rebound = any(isinstance(x, ast.Name) and isinstance(x.ctx, (ast.Store, ast.Del)) and x.id in base_names for r_ in rest for x in ast.walk(r_))
            aug_on_local = any(isinstance(x, ast.AugAssign) and isinstance(x.target, ast.Name) and x.target.id == nm for r_ in rest for x in ast.walk(r_))
            if rebound or aug_on_local:
                continue

            class T(ast.NodeTransformer):
                def visit_Name(self, n):
                    if n.id == nm and isinstance(n.ctx, ast.Load):
                        return ast.copy_location(copy.deepcopy(v), n)
                    return n
            new_rest = [T().visit(r_) for r_ in rest]
            setattr(owner, attr, blk[:i] + new_rest if (blk[:i] + new_rest) else [ast.copy_location(ast.Pass(), st)])
            return True
    return False


def _canonicalise_flags(tree):
    """`x_is_utpm = isinstance(x, UTPM)` ... `if x_is_utpm and y_is_utpm:` reads like the test written out: a local that
    is assigned once, at the top level of the function, from a kind test of names that are never reassigned is replaced
    by that test"""
    for f in ast.walk(tree):
        if not isinstance(f, ast.FunctionDef):
            continue
        stores = {}
        for n in ast.walk(f):
            if isinstance(n, ast.Name) and isinstance(n.ctx, (ast.Store, ast.Del)):
                stores[n.id] = stores.get(n.id, 0) + 1
        a = f.args
        params = {x.arg for x in a.posonlyargs + a.args + a.kwonlyargs}
        stable = {p_ for p_ in params if p_ not in stores}
        flags = {}
        for i_, st in enumerate(f.body):
            if isinstance(st, ast.Assign) and len(st.targets) == 1 and isinstance(st.targets[0], ast.Name) \
                    and stores.get(st.targets[0].id) == 1 and st.targets[0].id not in params:
                if _is_kind_test(st.value, stable):
                    flags[st.targets[0].id] = st
                elif _is_kind_test(st.value, params) and _flag_reads_before_stores(f, i_, st.targets[0].id, st.value):
                    # the tested parameter is re-bound later, but only after (or under) the last test of the flag:
                    # `reevaluated = Fout is not None ... if reevaluated: Fout.x = out  else: Fout = cls.create(..)`
                    flags[st.targets[0].id] = st
        if not flags:
            continue
        nested = {n.id for g in ast.walk(f) if isinstance(g, (ast.FunctionDef, ast.Lambda)) and g is not f
                  for n in ast.walk(g) if isinstance(n, ast.Name)}
        flags = {k: v for k, v in flags.items() if k not in nested}

        class T(ast.NodeTransformer):
            def visit_Name(self, n):
                if isinstance(n.ctx, ast.Load) and n.id in flags:
                    return ast.copy_location(copy.deepcopy(flags[n.id].value), n)
                return n
        keep = set(id(v) for v in flags.values())
        new_body = []
        for st in f.body:
            if id(st) in keep:
                continue
            new_body.append(T().visit(st))
        if new_body:
            f.body = new_body


def _flag_reads_before_stores(f, i, flag, test):
    """every use of `flag` (bound at top-level statement i of f) sees the names its test reads unchanged: each store to such a name sits in a
    top-level statement after the last use of the flag, or in the same statement inside an if whose test is where the flag is read"""
    names = {n.id for n in ast.walk(test) if isinstance(n, ast.Name)}
    use_idx = [j for j, st in enumerate(f.body) if j != i and any(isinstance(n, ast.Name) and n.id == flag and isinstance(n.ctx, ast.Load) for n in ast.walk(st))]
    if not use_idx or min(use_idx) < i:
        return False
    last = max(use_idx)
    for j, st in enumerate(f.body):
        stores_here = [n for n in ast.walk(st) if isinstance(n, ast.Name) and n.id in names and isinstance(n.ctx, (ast.Store, ast.Del))]
        if not stores_here or j <= i and j != i:
            if stores_here and j < i:
                continue        # before the flag is computed
            if not stores_here:
                continue
        if j == i:
            return False
        if j > last:
            continue
        # j in (i, last]: allowed only when j == last and the stores sit in the arms of an `if` statement whose test reads the flag and
        # nothing else in that statement reads the flag
        if j != last or not isinstance(st, ast.If):
            return False
        in_test = [n for n in ast.walk(st.test) if isinstance(n, ast.Name) and n.id == flag]
        all_uses = [n for n in ast.walk(st) if isinstance(n, ast.Name) and n.id == flag]
        if len(in_test) != len(all_uses):
            return False
        if any(isinstance(n, ast.Name) and n.id in names and isinstance(n.ctx, (ast.Store, ast.Del)) for n in ast.walk(st.test)):
            return False
    return True


def _canonicalise_selected_callee(tree):
    """`if A: kernel, operands = cls._k1, (a, b) ... elif B: kernel, operands = cls._k2, (c, d) ... else: raise`
    followed by one shared tail `out = alloc(...); kernel(*operands, out=out.data); return out` reads like the chain with
    the tail repeated in every arm and the selected callee / operand tuple written out (the inverse of merging identical
    tails of an if/elif chain)."""
    for f in ast.walk(tree):
        if not isinstance(f, ast.FunctionDef):
            continue
        body = f.body
        for i, st in enumerate(body):
            if not (isinstance(st, ast.If) and st.orelse and i + 1 < len(body)):
                continue
            tail = body[i + 1:]
            calls = [c for t in tail for c in ast.walk(t) if isinstance(c, ast.Call) and isinstance(c.func, ast.Name)]
            if not calls:
                continue
            # arms of the chain
            arms = []
            cur = st
            while True:
                arms.append(cur.body)
                if len(cur.orelse) == 1 and isinstance(cur.orelse[0], ast.If):
                    cur = cur.orelse[0]
                    continue
                arms.append(cur.orelse)
                break
            if not arms[-1]:
                continue
            live = [a for a in arms if not _terminates(a)]

            def bindings(arm):
                env = {}
                for b in arm:
                    if isinstance(b, ast.Assign) and len(b.targets) == 1:
                        t, v = b.targets[0], b.value
                        if isinstance(t, ast.Name):
                            env[t.id] = v
                        elif isinstance(t, ast.Tuple) and isinstance(v, ast.Tuple) and len(t.elts) == len(v.elts):
                            for x, y in zip(t.elts, v.elts):
                                if isinstance(x, ast.Name):
                                    env[x.id] = y
                return env
            envs = [bindings(a) for a in live]
            sel = [c for c in calls if all(c.func.id in e and isinstance(e[c.func.id], (ast.Attribute, ast.Name)) for e in envs)]
            if not sel or not live:
                continue
            # the selected names must not be bound anywhere else
            names = {c.func.id for c in sel} | {a.value.id for c in sel for a in c.args if isinstance(a, ast.Starred) and isinstance(a.value, ast.Name)}
            outside = [n for t in body[:i] + tail for n in ast.walk(t) if isinstance(n, ast.Name) and isinstance(n.ctx, ast.Store) and n.id in names]
            if outside:
                continue
            for arm, env in zip(live, envs):
                new_tail = copy.deepcopy(tail)

                class T(ast.NodeTransformer):
                    def visit_Call(self, c):
                        self.generic_visit(c)
                        if isinstance(c.func, ast.Name) and c.func.id in names and c.func.id in env:
                            c.func = copy.deepcopy(env[c.func.id])
                            new_args = []
                            for a in c.args:
                                if isinstance(a, ast.Starred) and isinstance(a.value, ast.Name) and isinstance(env.get(a.value.id), ast.Tuple):
                                    new_args.extend(copy.deepcopy(env[a.value.id].elts))
                                else:
                                    new_args.append(a)
                            c.args = new_args
                        return c
                arm.extend(T().visit(t) for t in new_tail)
            f.body = body[:i + 1]
            break


LINE_SCALE = 100000


def true_line(ln):
    """line number for reports: lines of functions with expanded helper calls are scaled by LINE_SCALE (see _renumber)"""
    return ln // LINE_SCALE if isinstance(ln, int) and ln >= LINE_SCALE else ln


def _simplify_tuple_roundtrips(fnode):
    """`work = (dF, S, X)` ... `dF, S, X = work` (what expanding a helper that receives a bundle of work arrays leaves behind):
    the unpacking is replaced by the element-wise bindings, identities `x = x` are dropped.  Only for a bundle that is
    assigned once from plain names each of which has a single other binding."""
    stores = {}
    aug = {id(n.target) for n in ast.walk(fnode) if isinstance(n, ast.AugAssign)}      # `S *= 0.5` updates the array in place
    for n in ast.walk(fnode):
        if isinstance(n, ast.Name) and isinstance(n.ctx, ast.Store) and id(n) not in aug:
            stores[n.id] = stores.get(n.id, 0) + 1
    packs = {}
    unpacks = []
    for n in ast.walk(fnode):
        if isinstance(n, ast.Assign) and len(n.targets) == 1:
            t, v = n.targets[0], n.value
            if isinstance(t, ast.Name) and isinstance(v, ast.Tuple) and v.elts and all(isinstance(e, ast.Name) for e in v.elts) and stores.get(t.id) == 1:
                packs[t.id] = v
            if isinstance(t, ast.Tuple) and isinstance(v, ast.Name) and all(isinstance(e, ast.Name) for e in t.elts):
                unpacks.append(n)
    todo = {}
    for u in unpacks:
        pk = packs.get(u.value.id)
        if pk is None or len(pk.elts) != len(u.targets[0].elts):
            continue
        n_un = sum(1 for x in unpacks if x.value.id == u.value.id)
        ok = True
        for src, dst in zip(pk.elts, u.targets[0].elts):
            extra = n_un if src.id == dst.id else 0
            if stores.get(src.id, 0) - extra > 1:
                ok = False
        if not ok:
            # the bundle is packed and unpacked in the same block with nothing in between that stores one of its members
            ok = _adjacent_pack_unpack(fnode, u.value.id, u, {e.id for e in pk.elts})
        if ok:
            todo[id(u)] = [ast.copy_location(ast.Assign(targets=[ast.copy_location(ast.Name(id=dst.id, ctx=ast.Store()), u)],
                                                        value=ast.copy_location(ast.Name(id=src.id, ctx=ast.Load()), u)), u)
                           for src, dst in zip(pk.elts, u.targets[0].elts) if src.id != dst.id]
    if not todo:
        return

    def rec(body):
        out = []
        for st in body:
            if id(st) in todo:
                out.extend(todo[id(st)])
                continue
            for attr in ('body', 'orelse', 'finalbody'):
                sub = getattr(st, attr, None)
                if isinstance(sub, list) and sub and isinstance(sub[0], ast.stmt):
                    new = rec(sub)
                    setattr(st, attr, new if new or attr != 'body' else [ast.copy_location(ast.Pass(), st)])
            if isinstance(st, ast.Try):
                for h in st.handlers:
                    h.body = rec(h.body) or [ast.copy_location(ast.Pass(), st)]
            out.append(st)
        return out
    fnode.body = rec(fnode.body)


def _adjacent_pack_unpack(fnode, bundle, unpack_stmt, members):
    def bodies(node):
        for attr in ('body', 'orelse', 'finalbody'):
            b = getattr(node, attr, None)
            if isinstance(b, list) and b and isinstance(b[0], ast.stmt):
                yield b
                for st in b:
                    if not isinstance(st, (ast.FunctionDef, ast.ClassDef)):
                        yield from bodies(st)
    for body in bodies(fnode):
        if not any(st is unpack_stmt for st in body):
            continue
        j = next(i for i, st in enumerate(body) if st is unpack_stmt)
        i = next((i for i in range(j - 1, -1, -1) if isinstance(body[i], ast.Assign) and len(body[i].targets) == 1
                  and isinstance(body[i].targets[0], ast.Name) and body[i].targets[0].id == bundle), None)
        if i is None:
            return False
        between = body[i + 1:j]
        return not any(isinstance(x, ast.Name) and isinstance(x.ctx, (ast.Store, ast.Del)) and x.id in members for b in between for x in ast.walk(b))
    return False


def _propagate_snapshots(fnode):
    """`nodes = list(self.functionList)` ... `for i in range(len(nodes)-1, -1, -1): f = nodes[i]`: a local that is bound once to a
    snapshot (list(S), tuple(S), S[:], S) of an attribute sequence which the function never rebinds or mutates, and that is
    only measured, indexed and iterated, reads like the sequence itself."""
    stores = {}
    for n in ast.walk(fnode):
        if isinstance(n, ast.Name) and isinstance(n.ctx, ast.Store):
            stores[n.id] = stores.get(n.id, 0) + 1
    cands = {}
    for st in ast.walk(fnode):
        if isinstance(st, ast.Assign) and len(st.targets) == 1 and isinstance(st.targets[0], ast.Name) and stores.get(st.targets[0].id) == 1:
            v = st.value
            src = None
            if isinstance(v, ast.Call) and isinstance(v.func, ast.Name) and v.func.id in ('list', 'tuple') and len(v.args) == 1 and not v.keywords:
                src = v.args[0]
            elif isinstance(v, ast.Subscript) and isinstance(v.slice, ast.Slice) and v.slice.lower is None and v.slice.upper is None and v.slice.step is None:
                src = v.value
            if src is not None and isinstance(src, ast.Attribute) and isinstance(src.value, ast.Name) and src.value.id in ('self', 'cls'):
                cands[st.targets[0].id] = (st, src)
    if not cands:
        return
    mutators = ('append', 'insert', 'extend', 'pop', 'remove', 'clear', 'sort', 'reverse')
    for name, (st, src) in list(cands.items()):
        txt = norm(src)
        bad = False
        parents = {}
        for n in ast.walk(fnode):
            for ch in ast.iter_child_nodes(n):
                parents[id(ch)] = n
        for n in ast.walk(fnode):
            if isinstance(n, ast.Attribute) and norm(n) == txt and isinstance(n.ctx, (ast.Store, ast.Del)):
                bad = True
            if isinstance(n, ast.Call) and isinstance(n.func, ast.Attribute) and n.func.attr in mutators and norm(n.func.value) in (txt, name):
                bad = True
            if isinstance(n, ast.Name) and n.id == name and isinstance(n.ctx, ast.Load):
                par = parents.get(id(n))
                ok = (isinstance(par, ast.Subscript) and par.value is n and isinstance(par.ctx, ast.Load)) \
                    or (isinstance(par, ast.Call) and isinstance(par.func, ast.Name) and par.func.id in ('len', 'reversed', 'enumerate', 'zip', 'iter')) \
                    or (isinstance(par, (ast.For, ast.comprehension)) and par.iter is n)
                if not ok:
                    bad = True
        if bad:
            cands.pop(name)
    if not cands:
        return

    class T(ast.NodeTransformer):
        def visit_Name(self, n):
            if isinstance(n.ctx, ast.Load) and n.id in cands:
                return ast.copy_location(copy.deepcopy(cands[n.id][1]), n)
            return n
    drop = {id(v[0]) for v in cands.values()}

    def rec(body):
        out = []
        for st in body:
            if id(st) in drop:
                continue
            for attr in ('body', 'orelse', 'finalbody'):
                sub = getattr(st, attr, None)
                if isinstance(sub, list) and sub and isinstance(sub[0], ast.stmt):
                    new = rec(sub)
                    setattr(st, attr, new if new or attr != 'body' else [ast.copy_location(ast.Pass(), st)])
            if isinstance(st, ast.Try):
                for h in st.handlers:
                    h.body = rec(h.body) or [ast.copy_location(ast.Pass(), st)]
            out.append(st)
        return out
    fnode.body = rec(fnode.body)
    T().visit(fnode)


def _renumber(fnode):
    """After helper calls have been expanded in place, several statements share the line of the call site.  Rules that
    order statements by position (`a.lineno < b.lineno`) need a strictly monotone numbering: every line is scaled by
    LINE_SCALE and statements are pushed behind their predecessor where necessary.  true_line() undoes it for reports."""
    S = LINE_SCALE
    last = [0]

    def own_nodes(st):
        out, stack = [], [st]
        while stack:
            n = stack.pop()
            out.append(n)
            for ch in ast.iter_child_nodes(n):
                if isinstance(ch, (ast.stmt, ast.ExceptHandler)) or type(ch).__name__ == 'match_case':
                    continue
                stack.append(ch)
        return out

    def do(st):
        if getattr(st, '_rn', False):
            return
        want = getattr(st, 'lineno', 0) * S
        new = max(want, last[0] + 1)
        shift = new - want
        mx = new
        for n in own_nodes(st):
            if hasattr(n, 'lineno') and n.lineno is not None and not getattr(n, '_rn', False):
                n._rn = True
                n.lineno = n.lineno * S + shift
                mx = max(mx, n.lineno)
                if getattr(n, 'end_lineno', None) is not None:
                    n.end_lineno = max(n.lineno, n.end_lineno * S + shift)
        last[0] = mx
        for _, val in ast.iter_fields(st):
            if isinstance(val, list):
                for ch in val:
                    if isinstance(ch, (ast.stmt, ast.ExceptHandler)) or type(ch).__name__ == 'match_case':
                        do(ch)
        if hasattr(st, 'lineno'):
            st.end_lineno = max(last[0], st.lineno)

    do(fnode)


def _as_expression(body):
    """a body made of guards and returns only (`if c: return a` / `return b`) is the conditional expression `a if c else b`"""
    if not body:
        return None
    st = body[0]
    if isinstance(st, ast.Return):
        return st.value if st.value is not None else ast.Constant(value=None)
    if isinstance(st, ast.If):
        rest = body[1:]
        e1 = _as_expression(list(st.body) + ([] if _terminates(st.body) else rest))
        e2 = _as_expression(list(st.orelse) + ([] if _terminates(st.orelse) else rest))
        if e1 is None or e2 is None:
            return None
        return ast.copy_location(ast.IfExp(test=st.test, body=e1, orelse=e2), st)
    return None


class _NotTailStructured(Exception):
    pass


def _has_return(node):
    return any(isinstance(n, ast.Return) for n in ast.walk(node))


def _assignify(body, make):
    """rewrite a helper body whose returns all sit at the end of if/else arms into one where every `return v` is the
    statement make(v) (an assignment to the call's target): `if c: ...; return a` / `...; return b` becomes
    `if c: ...; T = a  else: ...; T = b`.  Returns inside loops / try / with are not handled."""
    out = []
    for i, st in enumerate(body):
        if isinstance(st, ast.Return):
            out.append(make(st.value if st.value is not None else ast.Constant(value=None)))
            return out
        if isinstance(st, ast.If) and _has_return(st):
            rest = body[i + 1:]
            b = _assignify(list(st.body) + ([] if _terminates(st.body) else copy.deepcopy(rest)), make)
            o = _assignify(list(st.orelse) + ([] if _terminates(st.orelse) else copy.deepcopy(rest)), make)
            out.append(ast.copy_location(ast.If(test=st.test, body=b or [ast.Pass()], orelse=o), st))
            return out
        if _has_return(st):
            raise _NotTailStructured()
        out.append(st)
    out.append(make(ast.Constant(value=None)))
    return out


def _normal_body(body):
    if len(body) > 1:
        e = _as_expression(body)
        if e is not None:
            return [ast.copy_location(ast.Return(value=e), body[0])]
    return body


def _terminates(body):
    """every path through the statement list ends in return/raise"""
    if not body:
        return False
    last = body[-1]
    if isinstance(last, (ast.Return, ast.Raise)):
        return True
    if isinstance(last, ast.If):
        return bool(last.orelse) and _terminates(last.body) and _terminates(last.orelse)
    return False


def _known_private():
    import json
    pth = os.path.join(os.path.dirname(os.path.abspath(__file__)), 'known_private.json')
    try:
        return json.load(open(pth))
    except Exception:
        return {}


class _Subst(ast.NodeTransformer):
    def __init__(self, mapping):
        self.mapping = mapping      # name -> ast expr (substitute) | str (rename)

    def visit_Name(self, n):
        m = self.mapping.get(n.id)
        if m is None:
            return n
        if isinstance(m, str):
            return ast.copy_location(ast.Name(id=m, ctx=n.ctx), n)
        if isinstance(n.ctx, ast.Load):
            return ast.copy_location(copy.deepcopy(m), n)
        return n


def _inline_calls(fi, clsname, helpers, used):
    """-> new FunctionDef with helper calls expanded, or None if fi calls no (expandable) helper"""
    node = copy.deepcopy(fi.node)
    caller_names = set(fi.params) | set(fi.kwonly) | {n.id for n in ast.walk(node) if isinstance(n, ast.Name) and isinstance(n.ctx, ast.Store)}
    changed = [False]

    def expand(st):
        val = st.value if isinstance(st, (ast.Return, ast.Assign, ast.Expr)) else None
        if not isinstance(val, ast.Call):
            return None
        if clsname is None:
            # module-level helper called by name
            if not (isinstance(val.func, ast.Name) and val.func.id in helpers and val.func.id != fi.name):
                return None
            hname, recv_expr = val.func.id, None
        else:
            if not (isinstance(val.func, ast.Attribute) and isinstance(val.func.value, ast.Name)
                    and val.func.value.id in ('self', 'cls', clsname) and val.func.attr in helpers and val.func.attr != fi.name):
                return None
            hname, recv_expr = val.func.attr, val.func.value.id
        if isinstance(st, ast.Assign) and len(st.targets) != 1:
            return None
        h, body, straight, _ = helpers[hname]
        tail = isinstance(st, ast.Return)
        no_value = not any(isinstance(n, ast.Return) and n.value is not None for b in body for n in ast.walk(b))
        early_ret = any(isinstance(n, ast.Return) for b in body[:-1] for n in ast.walk(b))
        splice = isinstance(st, ast.Expr) and no_value and not early_ret       # procedure call: splice the whole body in
        # a body whose only return is its last statement can stand in for the call wherever the call is a whole statement
        single_exit = not early_ret and isinstance(body[-1], ast.Return) and not any(
            isinstance(n, ast.Return) for b in body[:-1] for n in ast.walk(b))
        tailed = None
        if not straight and not tail and not splice and not single_exit:
            # returns at the end of if/else arms: every `return v` becomes the assignment the call stood for
            if not isinstance(st, (ast.Assign, ast.Expr)) or sum(len(ast.dump(b)) for b in body) > 6000:
                return None
            tailed = True
        params = list(h.params)
        recv = None
        if h.kind in ('method', 'classmethod') and params:
            recv, params = params[0], params[1:]
        if any(isinstance(a, ast.Starred) for a in val.args) or any(k.arg is None for k in val.keywords) or (len(val.args) > len(params) and not h.vararg):
            return None
        bound = dict(zip(params, val.args))
        if h.vararg:
            # `*shapes` receives the surplus positional arguments as a tuple
            bound[h.vararg] = ast.Tuple(elts=list(val.args[len(params):]), ctx=ast.Load())
        extra_kw = []
        for k in val.keywords:
            if k.arg not in params:
                if not h.kwarg:
                    return None
                extra_kw.append(k)
                continue
            bound[k.arg] = k.value
        if h.kwarg:
            # `**options` receives the surplus keywords as a dict (in call order)
            bound[h.kwarg] = ast.Dict(keys=[ast.Constant(value=k.arg) for k in extra_kw], values=[k.value for k in extra_kw])
        for p_ in params:
            if p_ not in bound:
                if p_ not in h.defaults:
                    return None
                bound[p_] = h.defaults[p_]
        if _lambda_capture(body, bound, caller_names):
            return None
        assigned = {n.id for b in body for n in ast.walk(b) if isinstance(n, ast.Name) and isinstance(n.ctx, ast.Store)}
        mapping, pre = {}, []
        if recv is not None and recv_expr is not None:
            mapping[recv] = ast.Name(id=recv_expr, ctx=ast.Load())
        suffix = '__' + h.name.strip('_')
        for p_, e in bound.items():
            if isinstance(e, ast.Name) and e.id == p_:
                continue
            simple = isinstance(e, ast.Constant) or dotted_name(e) is not None or _pure_display(e)
            # a substituted argument must not be re-evaluated after something it mentions was reassigned in the helper
            if simple and p_ not in assigned and not ({n.id for n in ast.walk(e) if isinstance(n, ast.Name)} & assigned):
                mapping[p_] = e
            else:
                tgt = p_ if p_ not in caller_names else p_ + suffix
                if tgt != p_:
                    mapping[p_] = tgt
                pre.append(ast.Assign(targets=[ast.Name(id=tgt, ctx=ast.Store())], value=copy.deepcopy(e)))
        for loc in assigned - set(bound):
            if loc in caller_names:
                mapping[loc] = loc + suffix
        sub = _Subst(mapping)
        out = list(pre)
        if tailed:
            def make(v):
                v = sub.visit(copy.deepcopy(v))
                if isinstance(st, ast.Assign):
                    return ast.Assign(targets=copy.deepcopy(st.targets), value=v)
                return ast.Expr(value=v)
            try:
                new_body = _assignify([copy.deepcopy(b) for b in body], lambda v: ('RET', v))
            except _NotTailStructured:
                return None

            def finish(stmts):
                res = []
                for b in stmts:
                    if isinstance(b, tuple) and b[0] == 'RET':
                        res.append(make(b[1]))
                    elif isinstance(b, ast.If):
                        b.body = finish(b.body)
                        b.orelse = finish(b.orelse)
                        b.test = sub.visit(b.test)
                        res.append(b)
                    else:
                        res.append(sub.visit(b))
                return res
            out.extend(finish(new_body))
        elif straight or (single_exit and not tail) or (single_exit and tail):
            has_ret = isinstance(body[-1], ast.Return)
            for b in (body[:-1] if has_ret else body):
                out.append(sub.visit(copy.deepcopy(b)))
            ret = sub.visit(copy.deepcopy(body[-1].value)) if has_ret and body[-1].value is not None else ast.Constant(value=None)
            if isinstance(st, ast.Return):
                out.append(ast.Return(value=ret))
            elif isinstance(st, ast.Assign):
                out.append(ast.Assign(targets=st.targets, value=ret))
            elif has_ret and body[-1].value is not None:
                out.append(ast.Expr(value=ret))
        elif splice and not tail:
            for b in body:
                if isinstance(b, ast.Return):
                    continue
                out.append(sub.visit(copy.deepcopy(b)))
        else:
            for b in body:
                out.append(sub.visit(copy.deepcopy(b)))
            if not _terminates(body):
                out.append(ast.Return(value=ast.Constant(value=None)))
        for o in out:
            for n in ast.walk(o):
                n.lineno = st.lineno
                n.end_lineno = getattr(st, 'end_lineno', st.lineno)
                if not hasattr(n, 'col_offset'):
                    n.col_offset = st.col_offset
                    n.end_col_offset = getattr(st, 'end_col_offset', st.col_offset)
        used.add(h.name)
        changed[0] = True
        return out

    hoist_n = [0]

    def hoist(st):
        """`f(.., cls._h(a), ..)`: the helper call is evaluated into a fresh local right before the statement"""
        if not isinstance(st, (ast.Assign, ast.AugAssign, ast.Expr, ast.Return)):
            return None
        top = None if isinstance(st, ast.AugAssign) else st.value
        pre = []
        for c in [n for n in ast.walk(st) if isinstance(n, ast.Call) and n is not top]:
            if clsname is None:
                ok = isinstance(c.func, ast.Name) and c.func.id in helpers and c.func.id != fi.name
                hname = c.func.id if ok else None
            else:
                ok = isinstance(c.func, ast.Attribute) and isinstance(c.func.value, ast.Name) and c.func.value.id in ('self', 'cls', clsname) \
                    and c.func.attr in helpers and c.func.attr != fi.name
                hname = c.func.attr if ok else None
            if not ok:
                continue
            h, body_, straight_, _ = helpers[hname]
            if len(body_) == 1 and isinstance(body_[0], ast.Return):
                continue            # expression-level expansion takes care of it
            if not isinstance(body_[-1], ast.Return) or any(isinstance(n, ast.Return) for b in body_[:-1] for n in ast.walk(b)):
                continue
            hoist_n[0] += 1
            tmp = '_inl%d_%s' % (hoist_n[0], h.name.strip('_'))
            fake = ast.copy_location(ast.Assign(targets=[ast.Name(id=tmp, ctx=ast.Store())], value=c), st)
            ex = expand(fake)
            if ex is None:
                continue
            # the helper returns one of its own locals: that local stands for the call (no second name for the same object)
            if ex and isinstance(ex[-1], ast.Assign) and len(ex[-1].targets) == 1 and isinstance(ex[-1].targets[0], ast.Name) and ex[-1].targets[0].id == tmp \
                    and isinstance(ex[-1].value, ast.Name) and ex[-1].value.id not in caller_names | set(fi.params) \
                    and any(isinstance(x, ast.Name) and x.id == ex[-1].value.id and isinstance(x.ctx, ast.Store) for b_ in ex[:-1] for x in ast.walk(b_)):
                tmp = ex[-1].value.id
                caller_names.add(tmp)
                ex = ex[:-1]
            pre.extend(ex)
            # replace the call node in place by the temporary
            for parent in ast.walk(st):
                for field, val in ast.iter_fields(parent):
                    if val is c:
                        setattr(parent, field, ast.copy_location(ast.Name(id=tmp, ctx=ast.Load()), c))
                    elif isinstance(val, list):
                        for i_, v_ in enumerate(val):
                            if v_ is c:
                                val[i_] = ast.copy_location(ast.Name(id=tmp, ctx=ast.Load()), c)
        return pre or None

    def rec(body):
        new = []
        for st in body:
            ex = expand(st)
            if ex is not None:
                new.extend(ex)
                continue
            pre = hoist(st)
            if pre:
                new.extend(pre)
            for attr in ('body', 'orelse', 'finalbody'):
                sub = getattr(st, attr, None)
                if isinstance(sub, list) and sub and isinstance(sub[0], ast.stmt) and not isinstance(st, (ast.FunctionDef, ast.ClassDef)):
                    setattr(st, attr, rec(sub))
            if isinstance(st, ast.Try):
                for hd in st.handlers:
                    hd.body = rec(hd.body)
            new.append(st)
        return new

    node.body = rec(node.body)

    # expression level: a helper whose body is a single `return <expr>` is expanded wherever it is called
    class _Expr(ast.NodeTransformer):
        def visit_Call(self, c):
            self.generic_visit(c)
            if clsname is None:
                if not (isinstance(c.func, ast.Name) and c.func.id in helpers and c.func.id != fi.name):
                    return c
                hname, recv_expr = c.func.id, None
            else:
                if not (isinstance(c.func, ast.Attribute) and isinstance(c.func.value, ast.Name) and c.func.value.id in ('self', 'cls', clsname)
                        and c.func.attr in helpers and c.func.attr != fi.name):
                    return c
                hname, recv_expr = c.func.attr, c.func.value.id
            h, body, straight, _ = helpers[hname]
            if not (len(body) == 1 and isinstance(body[0], ast.Return) and body[0].value is not None):
                return c
            params = list(h.params)
            recv = None
            if h.kind in ('method', 'classmethod') and params:
                recv, params = params[0], params[1:]
            if any(isinstance(a, ast.Starred) for a in c.args) or any(k.arg is None or (k.arg not in params and not h.kwarg) for k in c.keywords) \
                    or (len(c.args) > len(params) and not h.vararg):
                return c
            bound = dict(zip(params, c.args))
            if h.vararg:
                bound[h.vararg] = ast.Tuple(elts=list(c.args[len(params):]), ctx=ast.Load())
            extra_kw = [k for k in c.keywords if k.arg not in params]
            for k in c.keywords:
                if k.arg in params:
                    bound[k.arg] = k.value
            if h.kwarg:
                bound[h.kwarg] = ast.Dict(keys=[ast.Constant(value=k.arg) for k in extra_kw], values=[k.value for k in extra_kw])
            for p_ in params:
                if p_ not in bound:
                    if p_ not in h.defaults:
                        return c
                    bound[p_] = h.defaults[p_]
            if _lambda_capture(body, bound, caller_names):
                return c
            # names bound inside the helper expression (comprehension variables) must not capture names of the arguments
            inner = {n.id for n in ast.walk(body[0].value) if isinstance(n, ast.Name) and isinstance(n.ctx, ast.Store)}
            argnames = {n.id for e in bound.values() for n in ast.walk(e) if isinstance(n, ast.Name)}
            mapping = dict(bound)
            if recv is not None and recv_expr is not None:
                mapping[recv] = ast.Name(id=recv_expr, ctx=ast.Load())
            for v_ in inner & argnames:
                mapping[v_] = v_ + '__' + h.name.strip('_')
            new = _Subst(mapping).visit(copy.deepcopy(body[0].value))
            for n in ast.walk(new):
                n.lineno = c.lineno
                n.end_lineno = getattr(c, 'end_lineno', c.lineno)
                n.col_offset = c.col_offset
                n.end_col_offset = getattr(c, 'end_col_offset', c.col_offset)
            used.add(h.name)
            changed[0] = True
            return new

    node = _Expr().visit(node)
    if changed[0]:
        _beta_reduce(node)
        _unroll_literal_comprehensions(node)
        _propagate_class_alias(node)
        _canonicalise_call_spellings(node)
        _fold_constant_tests(node)
    return node if changed[0] else None


def _fold_constant_tests(fn):
    """what substituting a literal default for a helper parameter leaves behind: `if None is None: A else: B` is A, `X if None is not None else Y` is Y"""
    def const_truth(t):
        if isinstance(t, ast.Constant) and isinstance(t.value, bool):
            return t.value
        if isinstance(t, ast.Compare) and len(t.ops) == 1 and isinstance(t.ops[0], (ast.Is, ast.IsNot)) and isinstance(t.left, ast.Constant) \
                and isinstance(t.comparators[0], ast.Constant) and t.left.value is None and t.comparators[0].value is None:
            return isinstance(t.ops[0], ast.Is)
        if isinstance(t, ast.UnaryOp) and isinstance(t.op, ast.Not):
            v = const_truth(t.operand)
            return None if v is None else not v
        return None

    class T(ast.NodeTransformer):
        def visit_IfExp(self, n):
            self.generic_visit(n)
            v = const_truth(n.test)
            return n if v is None else (n.body if v else n.orelse)

        def visit_If(self, n):
            self.generic_visit(n)
            v = const_truth(n.test)
            if v is None:
                return n
            keep = n.body if v else n.orelse
            return keep if keep else ast.copy_location(ast.Pass(), n)
    T().visit(fn)


def _canonicalise_call_spellings(tree):
    """pure respellings of a call: `f(*(a, b))` is `f(a, b)`; `getattr(X, 'name')` with a constant identifier is `X.name`;
    `None or 'name'` is `'name'` (what a defaulted helper parameter leaves behind after expansion)"""
    class T(ast.NodeTransformer):
        def visit_BoolOp(self, n):
            self.generic_visit(n)
            if isinstance(n.op, ast.Or):
                vals = list(n.values)
                while len(vals) > 1 and isinstance(vals[0], ast.Constant) and (vals[0].value is None or vals[0].value is False or vals[0].value == '' or vals[0].value == 0):
                    vals = vals[1:]
                if isinstance(vals[0], ast.Constant) and isinstance(vals[0].value, str) and vals[0].value:
                    vals = vals[:1]         # a non-empty string is true: the rest is never evaluated
                if len(vals) == 1:
                    return vals[0]
                n.values = vals
            return n

        def visit_Call(self, c):
            self.generic_visit(c)
            if any(isinstance(a, ast.Starred) and isinstance(a.value, (ast.Tuple, ast.List)) and not any(isinstance(e, ast.Starred) for e in a.value.elts) for a in c.args):
                new = []
                for a in c.args:
                    if isinstance(a, ast.Starred) and isinstance(a.value, (ast.Tuple, ast.List)) and not any(isinstance(e, ast.Starred) for e in a.value.elts):
                        new.extend(a.value.elts)
                    else:
                        new.append(a)
                c.args = new
            if isinstance(c.func, ast.Name) and c.func.id == 'getattr' and len(c.args) == 2 and not c.keywords and isinstance(c.args[1], ast.Constant) \
                    and isinstance(c.args[1].value, str) and c.args[1].value.isidentifier() and not c.args[1].value.startswith('__'):
                return ast.copy_location(ast.Attribute(value=c.args[0], attr=c.args[1].value, ctx=ast.Load()), c)
            return c
    T().visit(tree)


def _propagate_class_alias(fn):
    """`cls_ = x.__class__` / `type(x)` bound once from a parameter that is never reassigned reads like the expression itself"""
    a_ = fn.args
    params = {x.arg for x in a_.posonlyargs + a_.args + a_.kwonlyargs}
    stores = {}
    for n in ast.walk(fn):
        if isinstance(n, ast.Name) and isinstance(n.ctx, (ast.Store, ast.Del)):
            stores[n.id] = stores.get(n.id, 0) + 1
    alias = {}
    for st in fn.body:
        if isinstance(st, ast.Assign) and len(st.targets) == 1 and isinstance(st.targets[0], ast.Name) and stores.get(st.targets[0].id) == 1 \
                and st.targets[0].id not in params:
            v = st.value
            base = v.value if isinstance(v, ast.Attribute) and v.attr == '__class__' else (
                v.args[0] if isinstance(v, ast.Call) and isinstance(v.func, ast.Name) and v.func.id == 'type' and len(v.args) == 1 and not v.keywords else None)
            if isinstance(base, ast.Name) and base.id in params and base.id not in stores:
                alias[st.targets[0].id] = st
    if not alias:
        return
    sub = _Subst({k: v.value for k, v in alias.items()})
    keep = {id(v) for v in alias.values()}
    fn.body = [sub.visit(b) for b in fn.body if id(b) not in keep]


def _pure_display(e, depth=0):
    """a tuple display of names / constants / such tuples: re-evaluating it has no effect and yields an equal value"""
    if depth > 3 or not isinstance(e, ast.Tuple):
        return False
    return all(isinstance(x, ast.Constant) or isinstance(x, ast.Name) or _pure_display(x, depth + 1) for x in e.elts)


def _unroll_literal_comprehensions(fn):
    """`tuple(E(v) for v in (a, b))` / `[E(v) for v in (a, b)]` over a tuple display of at most 8 elements is `(E(a), E(b))` / `[E(a), E(b)]`"""
    class T(ast.NodeTransformer):
        def visit_Call(self, c):
            self.generic_visit(c)
            if isinstance(c.func, ast.Name) and c.func.id in ('tuple', 'list') and len(c.args) == 1 and not c.keywords \
                    and isinstance(c.args[0], (ast.GeneratorExp, ast.ListComp)):
                u = unroll(c.args[0])
                if u is not None:
                    return ast.copy_location(ast.Tuple(elts=u, ctx=ast.Load()) if c.func.id == 'tuple' else ast.List(elts=u, ctx=ast.Load()), c)
            return c

        def visit_ListComp(self, n):
            self.generic_visit(n)
            u = unroll(n)
            return ast.copy_location(ast.List(elts=u, ctx=ast.Load()), n) if u is not None else n

    def unroll(comp):
        if len(comp.generators) != 1:
            return None
        g = comp.generators[0]
        if g.ifs or g.is_async or not isinstance(g.target, ast.Name) or not isinstance(g.iter, (ast.Tuple, ast.List)) or len(g.iter.elts) > 8 \
                or any(isinstance(e, ast.Starred) for e in g.iter.elts):
            return None
        return [_Subst({g.target.id: e}).visit(copy.deepcopy(comp.elt)) for e in g.iter.elts]
    T().visit(fn)


def _lambda_capture(body, bound, caller_names):
    """a lambda inside the helper body whose parameter would capture a name of a substituted argument, or that has anything
    but plain positional parameters"""
    lams = [n for b in body for n in ast.walk(b) if isinstance(n, ast.Lambda)]
    if not lams:
        return False
    argnames = {n.id for e in bound.values() for n in ast.walk(e) if isinstance(n, ast.Name)}
    for l in lams:
        a = l.args
        if a.vararg or a.kwarg or a.kwonlyargs or a.defaults or a.kw_defaults or a.posonlyargs:
            return True
        if {x.arg for x in a.args} & (argnames | set(bound)):
            return True
    return False


def _beta_reduce(fn):
    """`f = lambda a: E` bound once at the top level of the function and only ever called (`f(x)`) reads like E with x for a,
    as long as nothing E mentions is assigned afterwards and every argument is either a plain access path or used once"""
    stores = {}
    for n in ast.walk(fn):
        if isinstance(n, ast.Name) and isinstance(n.ctx, (ast.Store, ast.Del)):
            stores.setdefault(n.id, []).append(n)
    a_ = fn.args
    fparams = {x.arg for x in a_.posonlyargs + a_.args + a_.kwonlyargs}

    def pure_path(e):
        if isinstance(e, ast.Constant) or dotted_name(e) is not None:
            return True
        if isinstance(e, ast.Subscript):
            idx = e.slice.elts if isinstance(e.slice, ast.Tuple) else [e.slice]
            return pure_path(e.value) and all(isinstance(i, (ast.Constant, ast.Name, ast.Slice)) for i in idx)
        return False
    for i, st in enumerate(list(fn.body)):
        if not (isinstance(st, ast.Assign) and len(st.targets) == 1 and isinstance(st.targets[0], ast.Name) and isinstance(st.value, ast.Lambda)):
            continue
        name, lam = st.targets[0].id, st.value
        if len(stores.get(name, ())) != 1 or name in fparams:
            continue
        la = lam.args
        if la.vararg or la.kwarg or la.kwonlyargs or la.defaults or la.posonlyargs:
            continue
        lparams = [x.arg for x in la.args]
        free = {n.id for n in ast.walk(lam.body) if isinstance(n, ast.Name)} - set(lparams)
        # free names: parameters never reassigned, or locals whose only store comes before the lambda
        ok = True
        for f_ in free:
            ss = stores.get(f_, [])
            if not ss:
                continue
            if len(ss) > 1 or not any(any(x is ss[0] for x in ast.walk(b)) for b in fn.body[:i]):
                ok = False
        uses = [n for b in fn.body for n in ast.walk(b) if isinstance(n, ast.Name) and n.id == name and isinstance(n.ctx, ast.Load)]
        calls = [c for b in fn.body for c in ast.walk(b) if isinstance(c, ast.Call) and isinstance(c.func, ast.Name) and c.func.id == name]
        if not ok or not calls or len(uses) != len(calls):
            continue
        if any(c.keywords or len(c.args) != len(lparams) or any(isinstance(x, ast.Starred) for x in c.args) for c in calls):
            continue
        count = {p_: sum(1 for n in ast.walk(lam.body) if isinstance(n, ast.Name) and n.id == p_) for p_ in lparams}
        if any(not pure_path(x) and count[p_] != 1 for c in calls for p_, x in zip(lparams, c.args)):
            continue
        if any(any(any(x is u for x in ast.walk(b)) for u in uses) for b in fn.body[:i + 1]):
            continue        # used before / inside its own definition

        class R(ast.NodeTransformer):
            def visit_Call(self, c):
                self.generic_visit(c)
                if isinstance(c.func, ast.Name) and c.func.id == name:
                    new = _Subst(dict(zip(lparams, c.args))).visit(copy.deepcopy(lam.body))
                    for n in ast.walk(new):
                        ast.copy_location(n, c)
                    return new
                return c
        fn.body = [R().visit(b) for j, b in enumerate(fn.body) if j != i]
        return _beta_reduce(fn)
