"""
Rules on the tracer <-> pullback protocol and on the sweep/driver structure
(C03, C04, C05, C06 and the tracer side of C14).
"""
import ast
import os
from .core import Finding, RuleResult
from .model import AnalysisError, dotted_name, norm, walk_no_nested, seq_iteration, true_line
from . import tracer_proto as tp
from .defassign import check_function
from .effects import flat

TRACER = tp.TRACER
UTPM_MOD = tp.UTPM_MOD
ALGO_MOD = 'algopy.utpm.algorithms'

# hypergeometric family: nthderiv no longer provides the scalar functions
# (removed from SciPy); UTPM.<name> raises AttributeError in the forward sweep.
HYPER = {
    'dpm_hyp1f1': 'kernel _dpm_hyp1f1 is commented out; forward raises AttributeError',
    'hyp1f1': 'kernel _hyp1f1 is commented out; forward raises AttributeError',
    'dpm_hyp2f0': 'kernel _dpm_hyp2f0 is commented out; forward raises AttributeError',
    'hyp2f0': 'nthderiv.hyp2f0 removed; forward raises AttributeError',
    'hyp0f1': 'nthderiv.hyp0f1 removed; forward raises AttributeError',
}


def _f(fi):
    return fi.fq


def _is_pb_kernel(fi):
    return fi.cls == 'RawAlgorithmsMixIn' and (fi.name.startswith('_pb_') or fi.name.endswith('_pullback'))


def pb_wrappers(ctx):
    tab = tp.pullback_table(ctx.model)
    return tab


def pb_kernels(ctx):
    ci = ctx.model.cls('RawAlgorithmsMixIn')
    if ci is None:
        raise AnalysisError('E4.anchor', ALGO_MOD, 'class RawAlgorithmsMixIn vanished')
    return [fi for fi in ci.methods.values() if _is_pb_kernel(fi)]


# ---------------------------------------------------------------- R-pb-ro
def rule_pb_ro(ctx):
    r = RuleResult('R-pb-ro', 'pullback wrappers and kernels write only storage reachable from `out` '
                              '(forward values x, y and incoming adjoints are read-only)')
    eff = ctx.effects
    tab = pb_wrappers(ctx)
    funcs = [p.fi for p in tab.values()] + pb_kernels(ctx)
    for fi in funcs:
        sm = eff.sums[fi]
        bad = {p: ws for p, ws in sm.writes.items() if p not in ('out', 'cls')}
        for p in fi.value_params():
            if p == 'out':
                continue
            if p in bad:
                wit = sorted(bad[p].values(), key=len)[0]
                r.bad(Finding('R-pb-ro', _f(fi), p,
                              'pullback writes storage of its input `%s` (must be read-only): %s' % (p, wit),
                              fi.file, fi.lineno))
            else:
                r.ok(construct=_f(fi) + ':' + p, nontrivial=bool(sm.callees),
                     sample='%s: parameter `%s` not in writes(%s) = %s' % (fi.qualname, p, fi.name, sorted(sm.writes)))
        for c, why in sm.unknown:
            r.unknown(fi.site(c), why + ': ' + norm(c))
    r.floor = 300
    r.stats = {'wrappers': len(tab), 'kernels': len(funcs) - len(tab)}
    return r


# --------------------------------------------------------------- R-pb-acc
def rule_pb_acc(ctx):
    r = RuleResult('R-pb-acc', 'every write of a pullback into `out` storage accumulates (+=, -=, _amul, '
                               'numpy.add(o, v, out=o), iadd/isub) - the tracer ignores return values and several '
                               'consumers share one adjoint')
    eff = ctx.effects
    tab = pb_wrappers(ctx)
    for name, pb in sorted(tab.items()):
        fi = pb.fi
        if name in tp.VIEW_MIRRORING:
            r.note('%s: view-mirroring op (%s); stores into the parent adjoint through the view are self-assignments'
                   % (fi.name, tp.VIEW_MIRRORING[name]))
            continue
        sm = eff.sums[fi]
        evs = [ev for ev in sm.events if ('p', 'out') in ev.roots]
        n_bad = 0
        for ev in evs:
            if ev.mode == 'acc':
                continue
            if ev.kind.startswith('call:UTPM.pb_'):
                continue        # delegation to another pullback wrapper, which is checked itself
            if name in ('setitem', '__setitem__') and _is_zero_store(ev.node):
                r.note('%s: `%s` clears the adjoint of the overwritten buffer entry (that is the pullback of an overwrite)'
                       % (fi.name, norm(ev.node)))
                continue
            n_bad += 1
            r.bad(Finding('R-pb-acc', _f(fi), norm(ev.node),
                          'pullback overwrites adjoint storage instead of accumulating: %s'
                          % (ev.chain or norm(ev.node)), fi.file, getattr(ev.node, 'lineno', fi.lineno)))
        if n_bad == 0:
            r.ok(construct=_f(fi), nontrivial=bool(evs),
                 sample='%s: %d write event(s) into out, all accumulating' % (fi.qualname, len(evs)))
    r.floor = 60
    return r


def _is_zero_store(node):
    if isinstance(node, ast.Assign) and isinstance(node.value, ast.Constant) and node.value.value in (0, 0.0):
        return True
    return False


# --------------------------------------------------------------- R-pb-out
NO_ADJOINT_NEEDED = {
    'Id': 'identity node: xbar of the node *is* the accumulated adjoint',
    'zeros': 'zeros(shape, dtype): constant output, no dependence on the dtype argument',
    'transpose': 'view-mirroring', 'reshape': 'view-mirroring',
}


def rule_pb_out(ctx):
    r = RuleResult('R-pb-out', 'every pullback wrapper of a differentiable op accumulates into storage derived '
                               'from its `out` parameter (the tracer ignores the return value)')
    eff = ctx.effects
    for name, pb in sorted(pb_wrappers(ctx).items()):
        fi = pb.fi
        if name in NO_ADJOINT_NEEDED:
            continue
        sm = eff.sums[fi]
        if sm.dangling and name in HYPER:
            r.note('%s: %s' % (fi.name, HYPER[name]))
            continue
        if 'out' in sm.writes:
            r.ok(construct=_f(fi), nontrivial=True,
                 sample='%s: out written via %s' % (fi.qualname, sorted(sm.writes['out'].values(), key=len)[0][:160]))
        else:
            r.bad(Finding('R-pb-out', _f(fi), 'out', 'pullback never writes storage reachable from `out`: '
                                                        'the adjoint contribution is dropped', fi.file, fi.lineno))
    r.floor = 60
    return r


def _feasible(tests):
    """can the tests (expression, outcome) of one path hold together?  Propositional check over the atoms (sub-expressions that
    are not and/or/not), valid for tests of parameters that the path does not rebind; more than 10 atoms: assumed feasible."""
    atoms = []

    def collect(e):
        if isinstance(e, ast.BoolOp):
            for v in e.values:
                collect(v)
        elif isinstance(e, ast.UnaryOp) and isinstance(e.op, ast.Not):
            collect(e.operand)
        else:
            t = norm(e)
            # `x is not None` and `x is None` are one atom
            if isinstance(e, ast.Compare) and len(e.ops) == 1 and isinstance(e.ops[0], ast.IsNot):
                t = norm(ast.Compare(left=e.left, ops=[ast.Is()], comparators=e.comparators))
            if t not in atoms:
                atoms.append(t)
    for e, _ in tests:
        collect(e)
    if len(atoms) > 10:
        return True

    def ev(e, val):
        if isinstance(e, ast.BoolOp):
            vs = [ev(v, val) for v in e.values]
            return all(vs) if isinstance(e.op, ast.And) else any(vs)
        if isinstance(e, ast.UnaryOp) and isinstance(e.op, ast.Not):
            return not ev(e.operand, val)
        if isinstance(e, ast.Compare) and len(e.ops) == 1 and isinstance(e.ops[0], ast.IsNot):
            return not val[norm(ast.Compare(left=e.left, ops=[ast.Is()], comparators=e.comparators))]
        return val[norm(e)]
    import itertools
    for bits in itertools.product((False, True), repeat=len(atoms)):
        val = dict(zip(atoms, bits))
        if all(ev(e, val) == bool(o) for e, o in tests):
            return True
    return False


def rule_pb_each(ctx):
    r = RuleResult('R-pb-each', 'every component of the output tuple that a pullback wrapper takes hold of (`xbar, ybar = out`, `xbar = out[0]`) and '
                                'uses receives a contribution: storage of component i is written by the wrapper or by the kernel it hands the '
                                'component to (E1, components of `out` told apart as out#i through tuple arguments). An operand whose adjoint is '
                                'never written contributes nothing to the gradient although the forward result depends on it')
    eff = ctx.effects
    for name, pb in sorted(pb_wrappers(ctx).items()):
        fi = pb.fi
        if name in NO_ADJOINT_NEEDED:
            continue
        sm = eff.sums[fi]
        if sm.dangling and name in HYPER:
            continue
        from .rules_api import _paths

        def unpack(st):
            comps = {}
            if isinstance(st, ast.Assign) and len(st.targets) == 1:
                t, v = st.targets[0], st.value
                if isinstance(v, ast.Name) and v.id == 'out' and isinstance(t, (ast.Tuple, ast.List)):
                    for i_, e in enumerate(t.elts):
                        if isinstance(e, ast.Name):
                            comps[i_] = e.id
                if isinstance(t, ast.Name) and isinstance(v, ast.Subscript) and norm(v.value) == 'out' and isinstance(v.slice, ast.Constant) \
                        and isinstance(v.slice.value, int):
                    comps[v.slice.value] = t.id
            return comps
        if not any(unpack(st) for st in walk_no_nested(fi.node)):
            # delegation with the whole tuple: whatever the callee writes is recorded under the same keys
            keys = sorted(k for k in sm.writes if k.startswith('out#'))
            if keys:
                r.ok(construct=_f(fi) + ':delegated', sample='%s hands `out` on; components written: %s' % (fi.qualname, keys))
            continue
        # path by path (the operand-kind branches of pb_mul / pb_truediv, the axis branches of pb_sum): a component that a path
        # takes from `out` and uses must be written on that path
        reported = set()
        n_paths = 0
        for path in _paths(fi.node.body):
            stmts = [s_ for s_ in path if not isinstance(s_, tuple)]
            if not stmts or isinstance(stmts[-1], ast.Raise):
                continue
            if not _feasible([(t_[1], t_[2]) for t_ in path if isinstance(t_, tuple) and len(t_) > 2]):
                continue
            comps = {}
            start = None
            for k_, s_ in enumerate(path):
                if isinstance(s_, tuple):
                    continue
                u = unpack(s_)
                if u:
                    comps.update(u)
                    start = k_ if start is None else start
            if not comps:
                continue
            n_paths += 1
            after = [s_ for s_ in path[start + 1:] if not isinstance(s_, tuple)]       # tests only steer (isinstance / is None), they are no use of the data
            inside = {id(x) for s_ in after for x in ast.walk(s_)}
            # plain copies rename a component (`xbar, ybar = (xbar_, ybar_)`): they are no use, the copy stands for the component
            alias = {nm: {nm} for nm in comps.values()}
            copies = set()
            for s_ in after:
                if isinstance(s_, ast.Assign) and len(s_.targets) == 1:
                    pairs = [(s_.targets[0], s_.value)]
                    if isinstance(s_.targets[0], ast.Tuple) and isinstance(s_.value, ast.Tuple) and len(s_.targets[0].elts) == len(s_.value.elts):
                        pairs = list(zip(s_.targets[0].elts, s_.value.elts))
                    if all(isinstance(t_, ast.Name) and isinstance(v_, ast.Name) for t_, v_ in pairs):
                        hit = False
                        for t_, v_ in pairs:
                            for nm, al in alias.items():
                                if v_.id in al:
                                    al.add(t_.id)
                                    hit = True
                        if hit:
                            copies.add(id(s_))
            # an operand that the path knows to be a Taylor polynomial (isinstance test taken) owns component i (the tracer's protocol:
            # out[i] belongs to the i-th operand after the incoming adjoints)
            vp_ = fi.value_params()
            kbar = 0
            while kbar < len(vp_) and vp_[kbar].endswith('bar'):
                kbar += 1
            poly_ops = set()
            for t_ in path:
                if isinstance(t_, tuple) and len(t_) > 2 and t_[2]:
                    for c_ in ast.walk(t_[1]):
                        if isinstance(c_, ast.Call) and norm(c_.func) == 'isinstance' and len(c_.args) == 2 and isinstance(c_.args[0], ast.Name) \
                                and norm(c_.args[1]).split('.')[-1] in ('UTPM', 'cls') and c_.args[0].id in vp_[kbar:]:
                            # only when the test as a whole is a conjunction containing it (not under `not` / `or`)
                            top = t_[1]
                            conj = top.values if isinstance(top, ast.BoolOp) and isinstance(top.op, ast.And) else [top]
                            if any(c_ is v_ for v_ in conj):
                                poly_ops.add(vp_.index(c_.args[0].id) - kbar)
            for i_, nm in sorted(comps.items()):
                used = [n for s_ in after if not isinstance(s_, ast.Return) and id(s_) not in copies for n in ast.walk(s_)
                        if isinstance(n, ast.Name) and n.id in alias[nm] and isinstance(n.ctx, ast.Load)]
                if not used and i_ in poly_ops:
                    used = [nm]
                if not used:
                    r.ok(construct='%s:%s:placeholder' % (_f(fi), nm))
                    continue
                key = 'out#%d' % i_
                evs = [ev for ev in sm.events if ('p', key) in ev.roots and id(ev.node) in inside]
                if evs:
                    r.ok(construct='%s:%s' % (_f(fi), nm), nontrivial=True,
                         sample='%s: `%s` (component %d) written by `%s`' % (fi.qualname, nm, i_, norm(evs[0].node)[:80]))
                elif (nm, i_) not in reported:
                    reported.add((nm, i_))
                    conds = [('' if t_[2] else 'not ') + norm(t_[1])[:40] for t_ in path if isinstance(t_, tuple) and len(t_) > 2]
                    r.bad(Finding('R-pb-each', _f(fi), nm, '%s takes `%s` from component %d of `out` and uses it, but on the path [%s] nothing is written into its '
                                                           'storage: the adjoint of that operand receives no contribution'
                                  % (fi.qualname, nm, i_, ', '.join(conds)[:160]), fi.file, fi.lineno))
    r.floor = 40
    return r


# -------------------------------------------------------------- R-pb-view
GUARANTEED_VIEW = {'numpy.transpose', 'method:__getitem__', 'attr:real', 'attr:imag', 'attr:T',
                   'method:transpose', 'numpy.swapaxes'}
NOT_GUARANTEED_VIEW = {'numpy.reshape', 'method:reshape', 'numpy.ravel', 'method:ravel', 'method:flatten',
                       'numpy.array', 'method:copy', 'numpy.copy', 'numpy.ascontiguousarray'}


def _view_chain(ctx, fi, depth=0):
    """primitives through which fi's return value derives from its first array
    argument: list of 'numpy.X' / 'method:X' / 'attr:X'; None if not understood"""
    if depth > 4:
        return None
    rets = [n for n in walk_no_nested(fi.node) if isinstance(n, ast.Return) and n.value is not None]
    if not rets:
        return None
    chains = []
    for ret in rets:
        c = _expr_chain(ctx, fi, ret.value, depth, set())
        if c is None:
            return None
        chains.append(c)
    out = []
    for c in chains:
        for x in c:
            if x not in out:
                out.append(x)
    return out


def _single_assign(fi, name):
    vals = [st.value for st in walk_no_nested(fi.node) if isinstance(st, ast.Assign)
            and any(isinstance(t, ast.Name) and t.id == name for t in st.targets)]
    return vals


def _expr_chain(ctx, fi, e, depth, seen):
    eff = ctx.effects
    if isinstance(e, ast.Name):
        if e.id in fi.params:
            return []
        if e.id in seen:
            return []
        vals = _single_assign(fi, e.id)
        if not vals:
            return None
        out = []
        for v in vals:
            c = _expr_chain(ctx, fi, v, depth, seen | {e.id})
            if c is None:
                return None
            out += c
        return out
    if isinstance(e, ast.Attribute):
        base = _expr_chain(ctx, fi, e.value, depth, seen)
        if base is None:
            return None
        if e.attr in ('data',):
            return base
        return base + ['attr:' + e.attr]
    if isinstance(e, ast.Subscript):
        base = _expr_chain(ctx, fi, e.value, depth, seen)
        return None if base is None else base + ['method:__getitem__']
    if isinstance(e, ast.BinOp) and isinstance(e.op, ast.Add):
        # tuple concatenation in index expressions etc. carries no storage
        return []
    if isinstance(e, ast.Call):
        tgt = eff.resolve_call(fi, e)
        if tgt is None:
            return None
        if tgt[0] == 'class':
            return _expr_chain(ctx, fi, e.args[0], depth, seen) if e.args else None
        if tgt[0] == 'lib':
            inner = _expr_chain(ctx, fi, e.args[0], depth, seen) if e.args else []
            return None if inner is None else inner + [tgt[1]]
        if tgt[0] == 'funcs':
            out = []
            for callee in tgt[1]:
                c = _view_chain(ctx, callee, depth + 1)
                if c is None:
                    return None
                out += c
            # arguments may themselves be derived values
            first = None
            if isinstance(e.func, ast.Attribute) and tgt[2] == 'self':
                first = e.func.value
            elif e.args:
                first = e.args[0]
            inner = _expr_chain(ctx, fi, first, depth, seen) if first is not None else []
            return None if inner is None else inner + out
        if tgt[0] == 'method':
            inner = _expr_chain(ctx, fi, e.func.value, depth, seen)
            return None if inner is None else inner + ['method:' + tgt[1]]
        return None
    if isinstance(e, (ast.Tuple, ast.Constant)):
        return []
    return None


def _guarded_accumulate(ctx, pb):
    """the pullback (or a kernel it calls) accumulates into `out` under a test of
    numpy.may_share_memory / numpy.shares_memory: it handles the case in which
    the forward op returned a copy instead of a view"""
    eff = ctx.effects
    for fi in [pb] + [c for c in eff.sums[pb].callees if c.module.startswith('algopy.utpm')]:
        sm = eff.sums[fi]
        if 'acc' not in sm.writes.get('out', {}):
            continue
        # path by path: every returning path on which the shares-memory test came out False accumulates into `out`
        from .rules_api import _paths

        def share_outcome(path):
            res = None
            for t_ in path:
                if not (isinstance(t_, tuple) and len(t_) > 2):
                    continue
                e, o = t_[1], t_[2]
                while isinstance(e, ast.UnaryOp) and isinstance(e.op, ast.Not):
                    e, o = e.operand, not o
                if isinstance(e, ast.Call) and (dotted_name(e.func) or '').split('.')[-1] in ('may_share_memory', 'shares_memory'):
                    res = bool(o)
            return res

        def accumulates(path):
            for s_ in path:
                if isinstance(s_, tuple):
                    continue
                for a in ast.walk(s_):
                    if isinstance(a, ast.AugAssign) and isinstance(a.op, ast.Add):
                        return True
                    if isinstance(a, ast.Call) and dotted_name(a.func) == 'numpy.add' and any(k.arg == 'out' for k in a.keywords):
                        return True
            return False
        paths = [p_ for p_ in _paths(fi.node.body) if not (p_ and isinstance(p_[-1], ast.Raise))]
        copies = [p_ for p_ in paths if share_outcome(p_) is False]
        if copies and all(accumulates(p_) for p_ in copies):
            return True
    return False


def rule_pb_view(ctx):
    r = RuleResult('R-pb-view', 'an op whose adjoint is mirrored as a view of the parent adjoint (no-op or store '
                                'pullback) must have a forward that returns a view for every input')
    m = ctx.model
    fwd = {'getitem': '__getitem__', '__getitem__': '__getitem__', 'real': 'real', 'imag': 'imag',
           'transpose': 'transpose', 'reshape': 'reshape'}
    for op, meth in sorted(fwd.items()):
        fi = m.lookup_method('UTPM', meth)
        pb = m.lookup_method('UTPM', 'pb_' + op)
        if fi is None or pb is None:
            r.unknown('UTPM.' + meth, 'forward or pullback of view-mirroring op vanished')
            continue
        chain = _view_chain(ctx, fi)
        if chain is None:
            r.unknown(fi.site(), 'cannot derive how the return value of %s derives from its argument' % fi.qualname)
            continue
        prims = [c for c in chain if not c.startswith('attr:data')]
        bad = [c for c in prims if c in NOT_GUARANTEED_VIEW]
        unk = [c for c in prims if c not in GUARANTEED_VIEW and c not in NOT_GUARANTEED_VIEW]
        if bad and _guarded_accumulate(ctx, pb):
            r.ok(construct=op, nontrivial=True,
                 sample='%s: forward chain %s may copy; pb_%s accumulates into out under a shares-memory guard'
                        % (fi.qualname, prims, op))
        elif bad:
            r.bad(Finding('R-pb-view', _f(pb), op + ':' + ','.join(bad),
                          'pb_%s mirrors the adjoint as a view, but forward %s goes through %s which copies '
                          'non-contiguous data: the adjoint of such a node never reaches its parent'
                          % (op, fi.qualname, bad), pb.file, pb.lineno))
        elif unk:
            r.unknown(fi.site(), 'primitive(s) %s not classified as view / copy' % unk)
        else:
            r.ok(construct=op, nontrivial=True,
                 sample='%s: forward chain %s is view-only' % (fi.qualname, prims))
    r.floor = 6
    return r


# --------------------------------------------------------------- R-pb-sig
def rule_pb_sig(ctx):
    r = RuleResult('R-pb-sig', 'for every recorder site: UTPM.pb_<name> exists (or the op is a documented '
                               'no-pullback op), accepts exactly k + n + k positionals + the recorded kwargs, and no '
                               'recorded constant parameter sits at a permuted position')
    m = ctx.model
    tab = pb_wrappers(ctx)
    sites = tp.recorder_sites(m)
    fi_d, facts = tp.dispatch_shape(m)
    for k_, v in facts.items():
        if not v:
            r.unknown(fi_d.site(), 'dispatch expression of Function.pullback not recognised (%s)' % k_)
    seen = set()
    for s in sites:
        name = s.recorded_name
        meth = s.fi.name
        if name is None:
            r.unknown(s.fi.site(s.call), 'recorded callable is not a dotted name')
            continue
        if meth in tp.OUTSIDE_API and s.fi.cls == 'Function':
            r.note('Function.%s: %s' % (meth, tp.OUTSIDE_API[meth]))
            continue
        if name in HYPER:
            r.note('%s: %s' % (name, HYPER[name]))
            continue
        n = len(s.pos)
        k, fwd = tp.forward_arity(m, ctx.effects, name)
        if k is None:
            r.unknown(s.fi.site(s.call), 'forward op %s returns tuples of different arity' % name)
            continue
        pb = tab.get(name)
        key = (name, n, tuple(sorted(s.fkwargs)))
        if pb is None:
            if key not in seen:
                r.note('op `%s` has no UTPM.pb_%s: Function.pullback raises AttributeError (permitted outcome)' % (name, name))
            seen.add(key)
            continue
        want = k + n + k
        lo, hi = len(pb.required), len(pb.positional)
        ok = True
        if pb.vararg is None and not (lo <= want <= hi):
            ok = False
            r.bad(Finding('R-pb-sig', _f(pb.fi), 'arity:%s' % name,
                          'tracer calls pb_%s with %d positionals (k=%d outputs, n=%d recorded args) but it accepts %d..%d'
                          % (name, want, k, n, lo, hi), pb.fi.file, pb.fi.lineno, extra={'recorder': s.fi.qualname}))
        for kw in s.fkwargs:
            if kw not in pb.positional and kw not in pb.fi.kwonly and pb.kwarg is None:
                ok = False
                r.bad(Finding('R-pb-sig', _f(pb.fi), 'kwarg:%s' % kw,
                              'recorded keyword `%s` is not accepted by pb_%s' % (kw, name), pb.fi.file, pb.fi.lineno))
        # permutation check: same parameter name at another index
        names = []
        for e in s.pos:
            names.append(e.id if isinstance(e, ast.Name) else None)
        fwd_params = fwd.value_params() if fwd is not None else []
        for i, nm in enumerate(names):
            cands = {nm}
            if fwd is not None and i < len(fwd.params):
                # the forward's own name for that position
                pl = fwd.params if fwd.kind != 'classmethod' else fwd.params[1:]
                if i < len(pl):
                    cands.add(pl[i])
            cands.discard(None)
            cands -= {'self', 'x', 'y', 'a', 'b', 'out', 'lhs', 'rhs', 'A', 'v'}
            for c in cands:
                if c in pb.positional:
                    idx = pb.positional.index(c)
                    if idx != k + i:
                        ok = False
                        r.bad(Finding('R-pb-sig', _f(pb.fi), 'perm:%s' % c,
                                      'recorded argument `%s` is passed by the tracer at position %d of pb_%s '
                                      '(k=%d bars first) but pb_%s declares `%s` at position %d: the pullback '
                                      'receives permuted arguments' % (c, k + i, name, k, name, c, idx),
                                      pb.fi.file, pb.fi.lineno, extra={'recorder': s.fi.qualname}))
        if ok:
            r.ok(construct='%s@%s' % (name, s.fi.qualname), nontrivial=True,
                 sample='%s records %s(%s)%s -> pb_%s%s with k=%d: %d positionals ok'
                        % (s.fi.qualname, s.callable, ', '.join(norm(e) for e in s.pos),
                           (' kwargs=%s' % sorted(s.fkwargs)) if s.fkwargs else '', name,
                           tuple(pb.positional), k, want))
    r.floor = 55
    r.stats = {'recorder_sites': len(sites), 'pullbacks': len(tab)}
    return r


# ---------------------------------------------------------- R-pb-complete
def rule_pb_complete(ctx):
    r = RuleResult('R-pb-complete', 'in every pullback of the differentiable API and in the kernels it reaches, '
                                    'no local is read on a path on which it was never assigned, every name '
                                    'resolves and every cls.X exists')
    eff = ctx.effects
    m = ctx.model
    tab = pb_wrappers(ctx)
    api = [pb.fi for name, pb in tab.items() if name not in HYPER and name not in ('coeff_op', 'zeros')]
    allowed_mods = ('algopy.utpm.utpm', 'algopy.utpm.algorithms', 'algopy.utils', 'algopy.nthderiv.nthderiv')
    reach = []
    todo = list(api)
    while todo:
        f = todo.pop()
        if f in reach or f.module not in allowed_mods or f.cls == 'Function':
            continue
        reach.append(f)
        todo.extend(eff.sums[f].callees)
    for fi in reach:
        if fi.generated:
            continue
        probs = check_function(m, fi, may=True)
        dang = eff.sums[fi].dangling
        if fi.name in HYPER or fi.name.lstrip('_').replace('pb_', '') in HYPER:
            continue
        bad = False
        for kind, name, node in probs:
            if kind.endswith('-in-raise'):
                r.note('%s: `%s` %s inside a raise expression (raises a different exception)' % (fi.qualname, name, kind))
                continue
            bad = True
            sev = 'VIOLATION'
            r.bad(Finding('R-pb-complete', _f(fi), '%s:%s' % (kind, name),
                          '%s: name `%s` is %s at line %d: the pullback cannot complete on that path'
                          % (fi.qualname, name, 'never assigned on any path reaching this read' if kind == 'unbound-local'
                             else 'not defined anywhere', node.lineno), fi.file, node.lineno, severity=sev))
        for c, d in dang:
            bad = True
            r.bad(Finding('R-pb-complete', _f(fi), 'dangling:' + d,
                          '%s calls %s which does not exist in UTPM\'s class hierarchy' % (fi.qualname, d),
                          fi.file, c.lineno))
        if not bad:
            r.ok(construct=_f(fi), nontrivial=len(fi.node.body) > 3,
                 sample='%s: all %d name loads resolve and are assigned before use'
                        % (fi.qualname, sum(1 for n in walk_no_nested(fi.node) if isinstance(n, ast.Name) and isinstance(n.ctx, ast.Load))))
    r.floor = 120
    r.stats = {'api_pullbacks': len(api), 'reachable_functions': len(reach)}
    return r


# -------------------------------------------------------------- R-pb-pair
PAIR_ALIASES = {'tan': 'tansec', 'sin': 'sincos', 'cos': 'sincos', '__pow__': 'pow_real', 'pow': 'pow_real'}


def rule_pb_pair(ctx):
    r = RuleResult('R-pb-pair', 'pb_NAME hands its arguments to the kernel _pb_NAME / _NAME_pullback in the '
                                'kernel\'s parameter order (no operand appears at the position of another), and '
                                'the kernel\'s out derives from pb_NAME\'s `out`')
    eff = ctx.effects
    m = ctx.model
    tab = pb_wrappers(ctx)
    for name, pb in sorted(tab.items()):
        fi = pb.fi
        for c in walk_no_nested(fi.node):
            if not isinstance(c, ast.Call):
                continue
            d = dotted_name(c.func)
            if d is None or d.split('.')[0] not in ('cls', 'UTPM') or d.count('.') != 1:
                continue
            kname = d.split('.')[1]
            if not (kname.startswith('_pb_') or kname.endswith('_pullback')):
                continue
            k = m.lookup_method('UTPM', kname)
            if k is None:
                continue    # reported by R-pb-complete (dangling)
            stem_k = kname[4:] if kname.startswith('_pb_') else kname[1:-len('_pullback')]
            want = PAIR_ALIASES.get(name, name.strip('_'))
            probs = []
            if stem_k != want and stem_k != name:
                if stem_k not in tab and stem_k not in PAIR_ALIASES.values():
                    # a helper shared between wrappers, not the kernel of another operation: no pairing to check
                    r.note('pb_%s calls the shared helper %s (no pb_%s exists)' % (name, kname, stem_k))
                    continue
                probs.append(('kernel', 'pb_%s calls kernel %s, which belongs to pb_%s (name disagreement)' % (name, kname, stem_k)))
            kparams = k.value_params()
            kstems = [p[:-5] if p.endswith('_data') else p for p in kparams]
            for i, a in enumerate(c.args):
                if isinstance(a, ast.Attribute) and a.attr == 'data' and isinstance(a.value, ast.Name):
                    st = a.value.id
                elif isinstance(a, ast.Name):
                    st = a.id
                else:
                    continue
                if st in kstems and i < len(kstems) and kstems.index(st) != i and kstems[i] != st:
                    probs.append(('arg:' + st, 'pb_%s passes `%s` as argument %d of %s, whose parameter %d is `%s` and '
                                                'whose `%s` is parameter %d' % (name, st, i, kname, i, kparams[i], st, kstems.index(st))))
            # out derives from the wrapper's out
            info = eff.sums[fi].callargs.get(id(c))
            if info is not None:
                _, args, kws = info
                oav = kws.get('out')
                if oav is None and 'out' in kparams and kparams.index('out') < len(args):
                    oav = args[kparams.index('out')]
                if oav is not None and ('p', 'out') not in flat(oav):
                    probs.append(('out', 'kernel %s is given an `out` that does not derive from pb_%s\'s out parameter' % (kname, name)))
            if probs:
                for key, msg in probs:
                    r.bad(Finding('R-pb-pair', _f(fi), key, msg, fi.file, c.lineno))
            else:
                r.ok(construct=_f(fi) + '->' + kname, nontrivial=True,
                     sample='%s -> %s(%s): positional stems agree, out derives from out'
                            % (fi.qualname, kname, ', '.join(norm(a) for a in c.args)))
    r.floor = 35
    return r


def _never_bound_before(fi, st, name):
    """no feasible path binds `name` and then reaches `st`: on every path through the if/else structure of the function whose tests
    can hold together (`_feasible`; nothing the tests read may be assigned in the function) no statement before `st` stores the name.
    `st` inside a loop / try: not decided here (False)"""
    from .rules_api import _paths
    paths = _paths(fi.node.body)
    if len(paths) > 4000:
        return False
    stored = {x.id for x in ast.walk(fi.node) if isinstance(x, ast.Name) and isinstance(x.ctx, ast.Store)}
    seen = False
    for path in paths:
        k = next((i for i, s_ in enumerate(path) if s_ is st), None)
        if k is None:
            continue
        tests = [(t_[1], t_[2]) for t_ in path[:k] if isinstance(t_, tuple) and len(t_) > 2]
        read = {x.id for t, _ in tests for x in ast.walk(t) if isinstance(x, ast.Name)}
        if read & stored:
            return False
        if not _feasible(tests):
            continue
        seen = True
        for s_ in path[:k]:
            if isinstance(s_, tuple):
                if any(isinstance(x, ast.NamedExpr) for x in ast.walk(s_[1])):
                    return False
                continue
            if any(isinstance(x, ast.Name) and x.id == name and isinstance(x.ctx, (ast.Store, ast.Del)) for x in ast.walk(s_)):
                return False
    return seen


def rule_pb_rebind(ctx):
    r = RuleResult('R-pb-rebind', 'in pullback code a local name that refers to adjoint storage handed in through `out` is never re-bound to a '
                                  'different array: after `xbar = <new array>` every later "accumulation" goes into the new array and never reaches '
                                  'the caller (the typical slip is `xbar = xbar + t` / `xbar = t` for `xbar += t`)')
    eff = ctx.effects
    m = ctx.model
    funcs = []
    for fi in eff.funcs:
        if fi.name.startswith('pb_') or fi.name.startswith('_pb_') or fi.name.endswith('_pullback'):
            funcs.append(fi)
    n = 0
    for fi in funcs:
        sm = eff.sums.get(fi)
        if sm is None:
            continue
        outs = {('p', 'out')}
        # names bound to out storage at least once
        for sid, (st, name, oldp, newr) in sorted(sm.rebinds.items(), key=lambda kv: kv[1][0].lineno):
            if not (oldp & outs):
                continue
            opname = fi.name[3:] if fi.name.startswith('pb_') else None
            if opname in tp.VIEW_MIRRORING:
                r.note('%s re-binds `%s`: harmless, %s is view-mirroring (%s)' % (fi.qualname, name, opname, tp.VIEW_MIRRORING[opname]))
                continue
            # a placeholder is replaced: `if out is None: out = (...)`, `if not isinstance(xbar, cls): xbar = cls(zeros)`
            placeholder = False
            for t_, br in _guards(fi, st):
                if _none_fact(t_, br, name) == 'none':
                    placeholder = True
                tt = t_.operand if isinstance(t_, ast.UnaryOp) and isinstance(t_.op, ast.Not) else t_
                neg = (isinstance(t_, ast.UnaryOp) and isinstance(t_.op, ast.Not)) == br      # True when the isinstance test is known False
                if isinstance(tt, ast.Call) and isinstance(tt.func, ast.Name) and tt.func.id == 'isinstance' and tt.args and norm(tt.args[0]) == name and neg:
                    placeholder = True
            if placeholder:
                r.ok(construct=_f(fi) + ':placeholder:' + name, sample='%s: `%s` replaces a placeholder (None / constant operand), not adjoint storage' % (fi.qualname, norm(st)[:50]))
                continue
            if _never_bound_before(fi, st, name):
                r.ok(construct=_f(fi) + ':first-binding:' + name, sample='%s: `%s` is the first binding of the name on every feasible path (the other '
                     'bindings sit under tests that exclude this one)' % (fi.qualname, norm(st)[:50]))
                continue
            n += 1
            r.bad(Finding('R-pb-rebind', _f(fi), '%s:%s' % (name, norm(st)[:60]),
                          '%s re-binds `%s`, which referred to adjoint storage from `out`, to another array (`%s`): what is computed from here on '
                          'never reaches the caller\'s adjoint' % (fi.qualname, name, norm(st)[:70]), fi.file, st.lineno))
        r.ok(construct=_f(fi), sample='%s: no name holding `out` storage is re-bound' % fi.qualname)
    r.floor = 100
    return r


_ALLOC = {'zeros', 'zeros_like', 'empty', 'empty_like', '__zeros__', '__zeros_like__', 'ones', 'eye', 'copy', 'shape'}


def _trivial_value(v):
    if isinstance(v, (ast.Constant, ast.Name, ast.Attribute, ast.Tuple, ast.Subscript)):
        return True
    if isinstance(v, ast.Call):
        d = dotted_name(v.func) or (v.func.attr if isinstance(v.func, ast.Attribute) else '')
        if d.split('.')[-1] in _ALLOC:
            return True
        if d in ('cls', 'UTPM', 'self.__class__') and len(v.args) == 1 and _trivial_value(v.args[0]):
            return True
    return False


def rule_pb_dead(ctx):
    r = RuleResult('R-pb-dead', 'in pullback code a value computed from an adjoint (`*bar`) is not overwritten before it has been read: '
                                '`t = f(ybar); t = g(...)` / `t[...] = ...` discards an adjoint contribution (the typical slip is `=` for `+=`)')
    eff = ctx.effects
    cur_fi = [None]

    def full_def(st):
        if isinstance(st, ast.Assign) and len(st.targets) == 1:
            t = st.targets[0]
            if isinstance(t, ast.Name):
                return t.id, st.value
            if isinstance(t, ast.Subscript) and isinstance(t.value, ast.Name):
                sl = t.slice
                if (isinstance(sl, ast.Constant) and sl.value is Ellipsis) or (isinstance(sl, ast.Slice) and sl.lower is None and sl.upper is None and sl.step is None):
                    return t.value.id, st.value
        if isinstance(st, ast.Expr) and isinstance(st.value, ast.Call):
            # a kernel that only accumulates into its `out` (z += x*y) adds to the value, it does not replace it
            if cur_fi[0] is not None:
                rc = eff.resolve_call(cur_fi[0], st.value)
                if rc and rc[0] == 'funcs' and rc[1]:
                    modes = [set(eff.sums[g].writes.get('out', {})) if g in eff.sums else None for g in rc[1]]
                    if all(md == {'acc'} for md in modes):
                        return None
            for k in st.value.keywords:
                if k.arg == 'out':
                    o = k.value
                    # out=N | out=cls._transpose(N) (a view of all of N) | out=N[...]
                    if isinstance(o, ast.Call) and (dotted_name(o.func) or '').split('.')[-1] in ('_transpose', 'transpose') and len(o.args) == 1:
                        o = o.args[0]
                    if isinstance(o, ast.Subscript) and isinstance(o.slice, ast.Constant) and o.slice.value is Ellipsis:
                        o = o.value
                    if isinstance(o, ast.Name):
                        return o.id, st.value
        return None

    def reads(node, name):
        return any(isinstance(n, ast.Name) and n.id == name and isinstance(n.ctx, ast.Load) for n in ast.walk(node))

    n_defs = [0]

    def scan(fi, body, tainted, out):
        last = {}
        for st in body:
            td = full_def(st)
            for name, dst in list(last.items()):
                if td and td[0] == name:
                    # the defining call `f(.., out=name)` mentions name only as the output
                    val = td[1]
                    inputs = [a for a in ast.walk(val)] if not (isinstance(st, ast.Expr)) else \
                        [n for a in list(val.args) + [k.value for k in val.keywords if k.arg != 'out'] for n in ast.walk(a)]
                    if any(isinstance(n, ast.Name) and n.id == name for n in inputs):
                        last.pop(name)
                    else:
                        out.append((dst, st, name))
                        last.pop(name)
                elif reads(st, name):
                    last.pop(name)
            if td and not _trivial_value(td[1]) and ({n.id for n in ast.walk(td[1]) if isinstance(n, ast.Name)} & tainted):
                last[td[0]] = st
                n_defs[0] += 1
            for attr in ('body', 'orelse', 'finalbody'):
                sub = getattr(st, attr, None)
                if isinstance(sub, list) and sub and isinstance(sub[0], ast.stmt) and not isinstance(st, (ast.FunctionDef, ast.ClassDef)):
                    scan(fi, sub, tainted, out)

    n_f = 0
    for fi in eff.funcs:
        if not (fi.name.startswith('pb_') or fi.name.startswith('_pb_') or fi.name.endswith('_pullback')):
            continue
        n_f += 1
        cur_fi[0] = fi
        tainted = {p_ for p_ in fi.params if p_.endswith('bar') or p_.endswith('bar_data')}
        for _ in range(4):
            for st in walk_no_nested(fi.node):
                if isinstance(st, (ast.Assign, ast.AugAssign)):
                    names = {n.id for n in ast.walk(st.value) if isinstance(n, ast.Name)}
                    if names & tainted:
                        for t in (st.targets if isinstance(st, ast.Assign) else [st.target]):
                            b = t
                            while isinstance(b, (ast.Subscript, ast.Attribute)):
                                b = b.value
                            if isinstance(b, ast.Name):
                                tainted.add(b.id)
                            elif isinstance(b, (ast.Tuple, ast.List)):
                                tainted |= {e.id for e in b.elts if isinstance(e, ast.Name)}
                if isinstance(st, ast.Expr) and isinstance(st.value, ast.Call):
                    names = {n.id for a in st.value.args for n in ast.walk(a) if isinstance(n, ast.Name)}
                    if names & tainted:
                        for k in st.value.keywords:
                            if k.arg == 'out':
                                tainted |= {n.id for n in ast.walk(k.value) if isinstance(n, ast.Name)}
        found = []
        scan(fi, fi.node.body, tainted, found)
        # path-aware clause for definitions at the top level of the function: on some path the value is redefined before it is
        # read, or the function ends without ever reading it (e.g. the statement that added it to `out` is missing)

        def fate(stmts, name):
            """outcomes over the paths through stmts of the first access to `name`: subset of {'read', 'kill', 'none'}"""
            cur = {'none'}
            for st in stmts:
                if 'none' not in cur:
                    break
                o = fate_stmt(st, name)
                cur = (cur - {'none'}) | o
            return cur

        def fate_stmt(st, name):
            if isinstance(st, ast.If):
                if reads(st.test, name):
                    return {'read'}
                return fate(st.body, name) | fate(st.orelse, name)
            if isinstance(st, (ast.For, ast.While, ast.Try, ast.With)):
                return {'read'} if reads(st, name) or any(full_def(x) and full_def(x)[0] == name for x in ast.walk(st) if isinstance(x, ast.stmt)) else {'none'}
            if isinstance(st, ast.Return):
                return {'read'} if reads(st, name) else {'end'}
            if isinstance(st, ast.Raise):
                return {'read'}
            td = full_def(st)
            if td and td[0] == name:
                val = td[1]
                inputs = [a for a in ast.walk(val)] if not isinstance(st, ast.Expr) else \
                    [n for a in list(val.args) + [k.value for k in val.keywords if k.arg != 'out'] for n in ast.walk(a)]
                return {'read'} if any(isinstance(n, ast.Name) and n.id == name for n in inputs) else {'kill'}
            if reads(st, name) or (isinstance(st, ast.AugAssign) and isinstance(st.target, ast.Name) and st.target.id == name):
                return {'read'}
            # a store into part of the array neither reads nor replaces the value
            return {'none'}
        body = fi.node.body
        outs_ = {n.id for st in walk_no_nested(fi.node) if isinstance(st, ast.Assign) and any(isinstance(x, ast.Name) and x.id == 'out' for x in ast.walk(st.value))
                 for t in st.targets for n in ast.walk(t) if isinstance(n, ast.Name)} | {'out'}
        # names that are views of other arrays: a store through them lands in the base, which is what is read later
        views_ = set()
        for st_ in walk_no_nested(fi.node):
            if isinstance(st_, ast.Assign) and len(st_.targets) == 1:
                pairs_ = [(st_.targets[0], st_.value)]
                if isinstance(st_.targets[0], ast.Tuple) and isinstance(st_.value, ast.Tuple) and len(st_.targets[0].elts) == len(st_.value.elts):
                    pairs_ = list(zip(st_.targets[0].elts, st_.value.elts))
                for t_, v_ in pairs_:
                    if isinstance(t_, ast.Name) and (isinstance(v_, (ast.Subscript, ast.Attribute)) or (
                            isinstance(v_, ast.Call) and isinstance(v_.func, ast.Attribute)
                            and v_.func.attr in ('transpose', 'reshape', 'view', 'swapaxes', 'ravel', '_transpose', '__getitem__'))):
                        views_.add(t_.id)
        def visit(blk, cont):
            for i, st in enumerate(blk):
                if isinstance(st, ast.If):
                    visit(st.body, blk[i + 1:] + cont)
                    visit(st.orelse, blk[i + 1:] + cont)
                    continue
                td = full_def(st)
                if not td or _trivial_value(td[1]) or td[0] in outs_ or td[0] in fi.params or td[0] in views_:
                    continue
                if not ({n.id for n in ast.walk(td[1]) if isinstance(n, ast.Name)} & tainted):
                    continue
                if isinstance(st, ast.Expr) and any(isinstance(n, ast.Name) and n.id == td[0] for a_ in st.value.args for n in ast.walk(a_)):
                    continue        # numpy.add(t, e, out=t): an update of storage that exists, not a new value
                o = fate(blk[i + 1:] + cont, td[0])
                if ('kill' in o or 'none' in o or 'end' in o) and not any(f_[0] is st for f_ in found):
                    why = 'is redefined before it is read on some path' if 'kill' in o else 'is never read on some path to the end of the function'
                    found.append((st, None, td[0], why))
        visit(body, [])
        # an incoming adjoint that is re-bound before it has ever been read is discarded as well
        first_use = {}
        for n_ in sorted((x for x in walk_no_nested(fi.node) if isinstance(x, ast.Name)), key=lambda x: (x.lineno, x.col_offset)):
            if n_.id in fi.params and (n_.id.endswith('bar') or n_.id.endswith('bar_data')) and n_.id not in first_use:
                first_use[n_.id] = n_
        for pn, n_ in first_use.items():
            if isinstance(n_.ctx, ast.Store):
                st_ = next((s_ for s_ in walk_no_nested(fi.node) if isinstance(s_, ast.Assign) and any(t_ is n_ for t_ in s_.targets)), None)
                if st_ is not None and not reads(st_.value, pn):
                    found.append((fi.node.args, st_, pn))
        # a local array that receives adjoint-derived data but is never used: whatever was computed into it is thrown away
        # (the statement that folds it into `out` is missing).  Uses = loads other than as the base of a store target,
        # as an `out=` destination or as the target of an in-place update of itself.
        alloc = {}
        for st_ in walk_no_nested(fi.node):
            if isinstance(st_, ast.Assign) and len(st_.targets) == 1 and isinstance(st_.targets[0], ast.Name) and isinstance(st_.value, ast.Call) \
                    and (dotted_name(st_.value.func) or norm(st_.value.func)).split('.')[-1] in ('zeros', 'zeros_like', 'empty', 'empty_like', 'ones', '__zeros__', '__zeros_like__'):
                alloc.setdefault(st_.targets[0].id, []).append(st_)
        write_pos = set()
        for n_ in walk_no_nested(fi.node):
            if isinstance(n_, (ast.Assign, ast.AugAssign)):
                for t_ in (n_.targets if isinstance(n_, ast.Assign) else [n_.target]):
                    b_ = t_
                    while isinstance(b_, (ast.Subscript, ast.Attribute)):
                        b_ = b_.value
                    if isinstance(b_, ast.Name):
                        write_pos.add(id(b_))
            # `f(.., out=t)` as a whole statement only writes t; where the value of the call is consumed (`g(f(.., out=t))`) t is read through it
            if isinstance(n_, ast.Expr) and isinstance(n_.value, ast.Call):
                for k_ in n_.value.keywords:
                    if k_.arg == 'out':
                        for x_ in ast.walk(k_.value):
                            if isinstance(x_, ast.Name):
                                write_pos.add(id(x_))
        fallback = {id(x) for n_ in walk_no_nested(fi.node) if isinstance(n_, ast.If) and norm(n_.test) in ('out is None', 'out == None')
                    for b_ in n_.body for x in ast.walk(b_)}
        for nm, sts in alloc.items():
            if len(sts) != 1 or nm not in tainted or nm in outs_ or nm in views_ or nm in fi.params or id(sts[0]) in fallback:
                continue
            uses = [n_ for n_ in walk_no_nested(fi.node) if isinstance(n_, ast.Name) and n_.id == nm and isinstance(n_.ctx, ast.Load) and id(n_) not in write_pos]
            if not uses and not any(f_[2] == nm for f_ in found):
                found.append((sts[0], None, nm, 'receives adjoint-derived data but is never used afterwards'))
        for item in found:
            if len(item) == 4:
                dst, _, name, why = item
                r.bad(Finding('R-pb-dead', _f(fi), '%s:path:%s' % (name, norm(dst)[:50]),
                              '%s: `%s` (computed from an adjoint) %s: the contribution is lost' % (fi.qualname, norm(dst)[:70], why), fi.file, dst.lineno))
                continue
            dst, st, name = item
            what = ('the incoming adjoint `%s`' % name) if isinstance(dst, ast.arguments) else ('`%s` (computed from an adjoint)' % norm(dst)[:70])
            r.bad(Finding('R-pb-dead', _f(fi), '%s:%s' % (name, 'param' if isinstance(dst, ast.arguments) else norm(dst)[:50]),
                          '%s: %s is overwritten by `%s` before it is read: the contribution is lost'
                          % (fi.qualname, what, norm(st)[:60]), fi.file, st.lineno))
        r.ok(construct=_f(fi), sample='%s: every adjoint-derived value is read before its name/array is redefined' % fi.qualname)
    r.stats = {'pullback_functions': n_f, 'adjoint_derived_definitions': n_defs[0]}
    r.floor = 100
    return r


def rule_pb_threshold(ctx):
    r = RuleResult('R-pb-threshold', 'degeneracy tests in pullback kernels (`abs(gap) > tol`: repeated eigenvalues, rank) compare against a constant like the '
                                     'forward kernel does, not against a tolerance computed from the data: forward and reverse sweep must take the same '
                                     'decision for the same base point')
    eff = ctx.effects
    n = 0
    for fi in eff.funcs:
        if not (fi.name.startswith('_pb_') or fi.name.endswith('_pullback')):
            continue
        for t in walk_no_nested(fi.node):
            if not (isinstance(t, ast.Compare) and len(t.ops) == 1 and isinstance(t.ops[0], (ast.Gt, ast.GtE, ast.Lt, ast.LtE))):
                continue
            sides = [t.left, t.comparators[0]]
            mag = [x for x in sides if isinstance(x, ast.Call) and (dotted_name(x.func) or '').split('.')[-1] in ('abs', 'absolute', 'fabs')]
            if len(mag) != 1:
                continue
            tol = sides[1] if sides[0] is mag[0] else sides[0]
            # does the tolerance depend on array data?
            names = {x.id for x in ast.walk(tol) if isinstance(x, ast.Name)}
            seen = set()
            todo = list(names)
            data_dep = None
            while todo:
                nm = todo.pop()
                if nm in seen:
                    continue
                seen.add(nm)
                if nm.endswith('_data') or nm.endswith('bar'):
                    data_dep = nm
                    break
                for st in walk_no_nested(fi.node):
                    if isinstance(st, ast.Assign) and any(isinstance(tt, ast.Name) and tt.id == nm for tt in st.targets):
                        # shapes / dtypes of arrays are not data
                        skip = set()
                        for x in ast.walk(st.value):
                            if isinstance(x, ast.Attribute) and x.attr in ('shape', 'dtype', 'ndim', 'size'):
                                skip |= {id(y) for y in ast.walk(x.value)}
                        todo.extend(x.id for x in ast.walk(st.value) if isinstance(x, ast.Name) and id(x) not in skip)
            n += 1
            if data_dep:
                r.bad(Finding('R-pb-threshold', _f(fi), norm(t)[:80], '%s: the degeneracy test `%s` uses a tolerance derived from `%s`; the forward kernel decides with a '
                                                                      'constant, so the two sweeps can disagree about which eigenvalues / pivots are degenerate'
                              % (fi.qualname, norm(t)[:60], data_dep), fi.file, t.lineno))
            else:
                r.ok(construct='%s:%s' % (fi.qualname, norm(t)[:40]), sample='%s: `%s` (constant tolerance)' % (fi.qualname, norm(t)[:60]))
    r.floor = 1
    return r


def rule_pb_propagate(ctx):
    r = RuleResult('R-pb-propagate', 'per-node pullback (Function.pullback): on every returning path on which the node has a Taylor-polynomial '
                                     'output (a UTPM, a tuple of outputs, or no output) the looked-up pullback function pb_<name> is called '
                                     'and the restoration of an in-place write is reached afterwards - no early exit in between (a test like '
                                     '`F.xbar == 0` compares coefficient 0 only, and a skipped node neither propagates its adjoint nor rolls '
                                     'its buffer back)')
    from .rules_api import _paths
    m = ctx.model
    fi = m.func(TRACER, 'Function.pullback')
    vp = fi.value_params()
    F = vp[0] if vp else 'F'
    # the local that holds the looked-up pullback function
    lookups = {}
    for st in walk_no_nested(fi.node):
        if isinstance(st, ast.Assign) and len(st.targets) == 1 and isinstance(st.targets[0], ast.Name) and isinstance(st.value, ast.Call) \
                and any(isinstance(c_, ast.Constant) and isinstance(c_.value, str) and 'pb_' in c_.value for c_ in ast.walk(st.value)):
            lookups.setdefault(st.targets[0].id, []).append(st)
    if not lookups:
        r.unknown(fi.site(), 'lookup of the pullback function pb_<name> not found')
        return r

    def carries(t):
        txt = norm(t)
        return txt in ('isinstance(%s.x, algopy.UTPM)' % F, 'isinstance(%s.x, UTPM)' % F, 'isinstance(%s.x, tuple)' % F,
                       'type(%s.x) == type(None)' % F, '%s.x is None' % F)

    def is_pb_call(st):
        return isinstance(st, ast.Expr) and isinstance(st.value, ast.Call) and isinstance(st.value.func, ast.Name) and st.value.func.id in lookups

    n = 0
    for i, path in enumerate(_paths(fi.node.body)):
        stmts = [s_ for s_ in path if not isinstance(s_, tuple)]
        if not stmts or isinstance(stmts[-1], ast.Raise):
            continue
        kind = [norm(t[1]) for t in path if isinstance(t, tuple) and len(t) > 2 and t[2] and carries(t[1])]
        if not kind:
            continue
        n += 1
        calls = [k for k, s_ in enumerate(path) if not isinstance(s_, tuple) and is_pb_call(s_)]
        key = 'path:%s' % '|'.join(kind)
        if not calls:
            conds = [('' if t[2] else 'not ') + norm(t[1])[:40] for t in path if isinstance(t, tuple) and len(t) > 2 and not carries(t[1])]
            r.bad(Finding('R-pb-propagate', _f(fi), key + ':no-call:' + '|'.join(conds)[:80],
                          'Function.pullback returns on the path [%s] (node output: %s) without calling the pullback function: the adjoint of the node is '
                          'not propagated to its arguments and an in-place write is not rolled back' % (', '.join(conds), kind[0]),
                          fi.file, getattr(stmts[-1], 'lineno', fi.lineno)))
            continue
        after = path[calls[-1] + 1:]
        if not any(isinstance(t, tuple) and 'setitem' in norm(t[1]) for t in after):
            r.bad(Finding('R-pb-propagate', _f(fi), key + ':no-restore', 'Function.pullback does not reach the restoration of an in-place write (`is_set(F.setitem)`) '
                                                                         'after the pullback call on the path with node output %s' % kind[0], fi.file, fi.lineno))
            continue
        r.ok(construct=key + ':%d' % i, nontrivial=True, sample='Function.pullback, %s: lookup -> `%s` -> restoration test' % (kind[0], norm(path[calls[-1]])[:40]))
    if n == 0:
        r.unknown(fi.site(), 'no returning path with a Taylor-polynomial node output found')
    # the reverse loop of CGraph.pullback calls the per-node pullback for every node: no `continue`, no guard in front of the call
    from .model import seq_iteration
    cp = m.func(TRACER, 'CGraph.pullback')
    rev = [st for st in cp.node.body if isinstance(st, ast.For) and (seq_iteration(st) or (None, None))[1] == 'rev'
           and (seq_iteration(st) or ('',))[0] == 'self.functionList']
    if len(rev) != 1:
        r.unknown(cp.site(), 'reverse loop over self.functionList not found in CGraph.pullback')
    else:
        lp = rev[0]

        def has_call(node):
            return any(isinstance(c, ast.Call) and isinstance(c.func, ast.Attribute) and c.func.attr == 'pullback' for c in ast.walk(node))
        n_lp = 0
        for path in _paths(lp.body):
            n_lp += 1
            reached = False
            why = None
            for s_ in path:
                if isinstance(s_, tuple):
                    continue
                if isinstance(s_, (ast.Continue, ast.Break)):
                    why = 'leaves the iteration with `%s`' % type(s_).__name__.lower()
                    break
                if has_call(s_):
                    reached = True
                    break
            if reached:
                r.ok(construct='reverse-loop:path%d' % n_lp, nontrivial=True, sample='CGraph.pullback: the per-node pullback is called on every path through the loop body')
            else:
                conds = [('' if t[2] else 'not ') + norm(t[1])[:50] for t in path if isinstance(t, tuple) and len(t) > 2]
                r.bad(Finding('R-pb-propagate', _f(cp), 'reverse-loop:skip:' + '|'.join(conds)[:80],
                              'CGraph.pullback: on the path [%s] an iteration of the reverse loop %s before the per-node pullback is called: the node neither propagates its '
                              'adjoint nor rolls its buffer back (a test of `xbar.data[0]` sees coefficient 0 only)'
                              % (', '.join(conds), why or 'ends'), cp.file, lp.lineno))
    r.floor = 3
    return r


def rule_graph_capture(ctx):
    r = RuleResult('R-graph-capture', 'state kept on the graph object between calls (any attribute of a CGraph stored by one of its methods) never aliases '
                                      'an array owned by the caller: a value rooted in a method parameter is stored only after a copy (E1 alias analysis). '
                                      'A remembered reference changes when the caller updates the array in place, so a later call would decide from '
                                      'the caller\'s current data instead of the data of the remembered call')
    m = ctx.model
    eff = ctx.effects
    ci = m.cls('CGraph')
    if ci is None:
        r.unknown(TRACER + ':CGraph', 'class vanished')
        return r
    n = 0
    for fi in ci.all_defs:
        if fi not in eff.sums or not fi.params or fi.kind in ('classmethod', 'staticmethod'):
            continue
        me = fi.params[0]
        sm = eff.sums[fi]
        for st in walk_no_nested(fi.node):
            if not isinstance(st, (ast.Assign, ast.AugAssign)):
                continue
            tg = st.targets if isinstance(st, ast.Assign) else [st.target]
            for t in tg:
                if not (isinstance(t, ast.Attribute) and isinstance(t.value, ast.Name) and t.value.id == me):
                    continue
                n += 1
                av = sm.assign_avs.get(id(st))
                roots = flat(av) if av is not None else set()
                cap = sorted(x[1] for x in roots if x[0] == 'p' and x[1] != me)
                if cap and fi.name != '__init__':
                    r.bad(Finding('R-graph-capture', _f(fi), '%s.%s<-%s' % (me, t.attr, ','.join(cap)),
                                  'CGraph.%s keeps a reference to the caller\'s `%s` in self.%s (`%s`): the remembered state follows later in-place '
                                  'updates of that array' % (fi.name, ','.join(cap), t.attr, norm(st)[:70]), fi.file, st.lineno))
                else:
                    r.ok(construct='%s:self.%s' % (fi.name, t.attr), sample='CGraph.%s: `%s` (roots %s)' % (fi.name, norm(st)[:60], sorted(roots)[:3]))
    r.floor = 3
    return r


# (kernel, position of the scalar parameter) -> (value, reason): the operation is constant in its operand for that value
CONSTANT_CASES = {('_pb_pow_real', 2): (0, 'x**0 is the constant 1, its adjoint contribution is zero')}


def _int_test(t, env):
    """truth of a test over integer-valued names (comparisons with integer constants, `type(x) == int`, and/or/not); None if not understood"""
    def val(e):
        if isinstance(e, ast.Constant) and isinstance(e.value, int) and not isinstance(e.value, bool):
            return e.value
        if isinstance(e, ast.Name) and e.id in env:
            return env[e.id]
        if isinstance(e, ast.UnaryOp) and isinstance(e.op, ast.USub):
            v = val(e.operand)
            return None if v is None else -v
        return None
    if isinstance(t, ast.BoolOp):
        vs = [_int_test(v, env) for v in t.values]
        if any(v is None for v in vs):
            return None
        return all(vs) if isinstance(t.op, ast.And) else any(vs)
    if isinstance(t, ast.UnaryOp) and isinstance(t.op, ast.Not):
        v = _int_test(t.operand, env)
        return None if v is None else not v
    if isinstance(t, ast.Compare) and len(t.ops) == 1:
        if norm(t.left).startswith('type(') and isinstance(t.left, ast.Call) and len(t.left.args) == 1 and isinstance(t.left.args[0], ast.Name) \
                and t.left.args[0].id in env and isinstance(t.ops[0], (ast.Eq, ast.Is)) and norm(t.comparators[0]) == 'int':
            return True
        a, b = val(t.left), val(t.comparators[0])
        if a is None or b is None:
            return None
        op = type(t.ops[0])
        table = {ast.Eq: a == b, ast.NotEq: a != b, ast.Lt: a < b, ast.LtE: a <= b, ast.Gt: a > b, ast.GtE: a >= b}
        return table.get(op)
    if isinstance(t, ast.Call) and norm(t.func) == 'isinstance' and len(t.args) == 2 and isinstance(t.args[0], ast.Name) and t.args[0].id in env:
        return 'int' in norm(t.args[1])
    return None


def rule_pb_kernel_out(ctx):
    r = RuleResult('R-pb-kernel-out', 'every feasible returning path of a pullback kernel (`_pb_*`, `*_pullback`) writes into its `out` storage: a branch of an '
                                      'option / exponent / operand-kind test that falls through without a contribution returns a zero adjoint. Accepted: the path '
                                      'on which `out` shares memory with the incoming adjoint (view-mirroring)')
    from .rules_api import _paths
    eff = ctx.effects
    n = 0
    for fi in pb_kernels(ctx):
        sm = eff.sums[fi]
        if 'out' not in fi.params:
            continue
        evs = [ev for ev in sm.events if any(x[0] == 'p' and x[1].startswith('out') for x in ev.roots)]
        for i, path in enumerate(_paths(fi.node.body)):
            stmts = [s_ for s_ in path if not isinstance(s_, tuple)]
            if not stmts or isinstance(stmts[-1], ast.Raise):
                continue
            tests = [(t[1], t[2]) for t in path if isinstance(t, tuple) and len(t) > 2]
            if not _feasible(tests):
                continue
            n += 1
            inside = {id(x) for s_ in stmts for x in ast.walk(s_)}
            if any(id(ev.node) in inside for ev in evs):
                r.ok(construct='%s:path%d' % (_f(fi), i), nontrivial=True, sample='%s: `out` is written on path %d' % (fi.qualname, i))
                continue
            shares = any(('numpy.may_share_memory(out' in norm(t) or 'numpy.shares_memory(out' in norm(t)) and (o != (isinstance(t, ast.UnaryOp) and isinstance(t.op, ast.Not)))
                         for t, o in tests)
            if shares:
                r.ok(construct='%s:path%d:view' % (_f(fi), i), sample='%s: `out` shares memory with the incoming adjoint on path %d' % (fi.qualname, i))
                continue
            # a path that pins a scalar parameter to the one value for which the operation is constant (x**0)
            pinned = None
            for (kname, pos), (val, why) in CONSTANT_CASES.items():
                if fi.name == kname and pos < len(fi.value_params()):
                    pn = fi.value_params()[pos]
                    sat = []
                    for cand in range(-3, 4):
                        ok = True
                        for t, o in tests:
                            names_ = {x.id for x in ast.walk(t) if isinstance(x, ast.Name)}
                            if pn not in names_:
                                continue
                            v_ = _int_test(t, {pn: cand})
                            if v_ is None:
                                ok = None
                                break
                            if bool(v_) != bool(o):
                                ok = False
                                break
                        if ok:
                            sat.append(cand)
                        if ok is None:
                            sat = None
                            break
                    if sat == [val]:
                        pinned = (pn, val, why)
            if pinned:
                r.note('%s: the path without a contribution fixes `%s` = %s: %s' % (fi.qualname, pinned[0], pinned[1], pinned[2]))
                r.ok(construct='%s:path%d:constant-case' % (_f(fi), i))
                continue
            conds = [('' if o else 'not ') + norm(t)[:40] for t, o in tests]
            r.bad(Finding('R-pb-kernel-out', _f(fi), 'path:' + '|'.join(conds)[:100], '%s returns on the path [%s] without writing into `out`: the operand receives a zero '
                                                                                       'adjoint there' % (fi.qualname, ', '.join(conds)), fi.file, fi.lineno))
    r.floor = 40
    return r


def rule_pb_setitem_clear(ctx):
    r = RuleResult('R-pb-setitem-clear', 'the pullback of an in-place write y[sl] = x clears the adjoint of the overwritten entries '
                                         '(ybar[sl] = 0) on every returning path - whatever the kind of x: the old contents of y[sl] no '
                                         'longer influence the result, so their adjoint must not flow back to whoever produced them')
    from .rules_api import _paths
    m = ctx.model
    fi = m.lookup_method('UTPM', 'pb___setitem__')
    if fi is None:
        r.unknown('UTPM.pb___setitem__', 'vanished')
        return r
    vp = fi.value_params()
    if len(vp) < 3 or 'out' not in fi.params:
        r.unknown(fi.site(), 'signature (y, sl, x, out) not recognised')
        return r
    sl = vp[1]
    # the buffer adjoint: first element unpacked from out / out[0]
    ybar = None
    for st in walk_no_nested(fi.node):
        if isinstance(st, ast.Assign) and isinstance(st.value, ast.Name) and st.value.id == 'out' and isinstance(st.targets[0], (ast.Tuple, ast.List)) \
                and st.targets[0].elts and isinstance(st.targets[0].elts[0], ast.Name):
            ybar = st.targets[0].elts[0].id
        if isinstance(st, ast.Assign) and norm(st.value) == 'out[0]' and isinstance(st.targets[0], ast.Name):
            ybar = st.targets[0].id
    if ybar is None:
        r.unknown(fi.site(), 'buffer adjoint (first element of out) not found')
        return r

    # a local that names the overwritten region once (`ybar_sl = ybar[sl]`) stands for it
    region = set()
    for st in walk_no_nested(fi.node):
        if isinstance(st, ast.Assign) and len(st.targets) == 1 and isinstance(st.targets[0], ast.Name) and isinstance(st.value, ast.Subscript) \
                and isinstance(st.value.value, ast.Name) and st.value.value.id == ybar and norm(st.value.slice) == sl:
            nm_ = st.targets[0].id
            if sum(1 for x in ast.walk(fi.node) if isinstance(x, ast.Name) and x.id == nm_ and isinstance(x.ctx, ast.Store)) == 1:
                region.add(nm_)

    def is_region(n):
        return (isinstance(n, ast.Subscript) and isinstance(n.value, ast.Name) and n.value.id == ybar and norm(n.slice) == sl) \
            or (isinstance(n, ast.Name) and n.id in region)

    def clears(st):
        if not isinstance(st, ast.Assign) or not (isinstance(st.value, ast.Constant) and st.value.value == 0 and st.value.value is not False):
            return False
        t = st.targets[0]
        if isinstance(t, ast.Name):
            return False
        if any(is_region(n) for n in ast.walk(t)):
            return True
        # ybar[sl] = 0 | ybar[sl].data[...] = 0 | ybar.data[(slice(None), slice(None)) + sl] = 0
        for n in ast.walk(t):
            if isinstance(n, ast.Subscript) and isinstance(n.value, ast.Name) and n.value.id == ybar and norm(n.slice) == sl:
                return True
        return False

    # the adjoint of the written value: last element of out
    xbar = None
    for st in walk_no_nested(fi.node):
        if isinstance(st, ast.Assign) and isinstance(st.value, ast.Name) and st.value.id == 'out' and isinstance(st.targets[0], (ast.Tuple, ast.List)) \
                and len(st.targets[0].elts) == 3 and isinstance(st.targets[0].elts[2], ast.Name):
            xbar = st.targets[0].elts[2].id

    def accumulates(st):
        # xbar += ybar[sl]
        return isinstance(st, ast.AugAssign) and isinstance(st.op, ast.Add) and isinstance(st.target, ast.Name) and st.target.id == xbar \
            and any(is_region(n) for n in ast.walk(st.value))

    n_paths = 0
    for path in _paths(fi.node.body):
        stmts = [s_ for s_ in path if not isinstance(s_, tuple)]
        if stmts and isinstance(stmts[-1], ast.Raise):
            continue
        n_paths += 1
        if xbar is not None:
            guarded_const = any(isinstance(t, tuple) and 'isinstance(%s' % xbar in norm(t[1]) for t in path)
            if any(accumulates(s_) for s_ in stmts):
                r.ok(construct='path%d:acc' % n_paths, sample='pb___setitem__ path %d accumulates `%s += %s[%s]`' % (n_paths, xbar, ybar, sl))
            elif not guarded_const:
                r.bad(Finding('R-pb-setitem-clear', _f(fi), 'acc-path%d' % n_paths,
                              'pb___setitem__ does not accumulate the adjoint of the overwritten region into the adjoint of the written value '
                              '(`%s += %s[%s]`) on a returning path' % (xbar, ybar, sl), fi.file, fi.lineno))
        if any(clears(s_) for s_ in stmts):
            r.ok(construct='path%d' % n_paths, nontrivial=True, sample='pb___setitem__ path %d clears `%s[%s]`' % (n_paths, ybar, sl))
        else:
            last = stmts[-1] if stmts else fi.node
            conds = [norm(t[1]) for t in path if isinstance(t, tuple)]
            r.bad(Finding('R-pb-setitem-clear', _f(fi), 'path:' + '|'.join(conds)[:80],
                          'pb___setitem__ returns without clearing the adjoint of the overwritten entries (`%s[%s] = 0`) on the path through %s'
                          % (ybar, sl, conds or ['the function body']), fi.file, getattr(last, 'lineno', fi.lineno)))
    if n_paths == 0:
        r.unknown(fi.site(), 'no returning path')
    r.floor = 1
    return r


# ------------------------------------------------------------ sweep rules
def _top_loops(fi):
    return [st for st in fi.node.body if isinstance(st, ast.For)]


def _calls_in(node, attr):
    return [c for c in ast.walk(node) if isinstance(c, ast.Call) and isinstance(c.func, ast.Attribute) and c.func.attr == attr]


def _none_tests(fx):
    """texts of the test `self.x is None`, also through a local that only stands for self.x (`x = self.x`, assigned once,
    self.x not rebound in the function)"""
    names = ['self.x']
    stores = {}
    for n in walk_no_nested(fx.node):
        if isinstance(n, ast.Name) and isinstance(n.ctx, ast.Store):
            stores[n.id] = stores.get(n.id, 0) + 1
    rebinds_x = any(isinstance(n, ast.Attribute) and n.attr == 'x' and isinstance(n.ctx, ast.Store) and norm(n.value) == 'self'
                    for n in walk_no_nested(fx.node))
    for st in fx.node.body:
        if isinstance(st, ast.Assign) and len(st.targets) == 1 and isinstance(st.targets[0], ast.Name) and norm(st.value) == 'self.x' \
                and stores.get(st.targets[0].id) == 1 and not rebinds_x:
            names.append(st.targets[0].id)
    return {t % n_ for n_ in names for t in ('%s is None', '%s == None')}


def stmts_mention_x_after_none(path, tests_none=('self.x is None', 'self.x == None')):
    """the branch taken for `self.x is None` is the last test of the path (the chain ends there)"""
    tests = [norm(t[1]) for t in path if isinstance(t, tuple)]
    return bool(tests) and tests[-1] not in tests_none


def rule_sweep_init(ctx):
    r = RuleResult('R-sweep-init', 'every reverse sweep re-initialises the adjoint of every node, unconditionally, '
                                   'before seeding and before the reverse loop; xbar_from_x never reads the previous xbar')
    m = ctx.model
    fi = m.func(TRACER, 'CGraph.pullback')
    init_i = seed_i = rev_i = None
    for i, st in enumerate(fi.node.body):
        if not isinstance(st, ast.For):
            continue
        it = norm(st.iter)
        if _calls_in(st, 'xbar_from_x') and init_i is None:
            init_i = i
            init_st = st
        elif 'dependentFunctionList' in it and seed_i is None:
            seed_i = i
        elif _calls_in(st, 'pullback') and rev_i is None:
            rev_i = i
            rev_st = st
    if init_i is None:
        r.bad(Finding('R-sweep-init', _f(fi), 'init-loop', 'CGraph.pullback has no top-level loop calling xbar_from_x: '
                                                           'adjoints of the previous sweep are accumulated into', fi.file, fi.lineno))
    else:
        # the loop must cover the whole functionList and call unconditionally
        si = seq_iteration(init_st)
        if si is None or si[0] != 'self.functionList':
            r.bad(Finding('R-sweep-init', _f(fi), 'init-iter:' + norm(init_st.iter),
                          'adjoint initialisation iterates `%s`, not the whole functionList' % norm(init_st.iter),
                          fi.file, init_st.lineno))
        else:
            r.ok(construct='init-iter', sample='init loop iterates ' + norm(init_st.iter))
        direct = [s for s in init_st.body if isinstance(s, ast.Expr) and isinstance(s.value, ast.Call)
                  and isinstance(s.value.func, ast.Attribute) and s.value.func.attr == 'xbar_from_x']
        if not direct:
            r.bad(Finding('R-sweep-init', _f(fi), 'init-conditional',
                          'xbar_from_x is not called unconditionally for every node', fi.file, init_st.lineno))
        else:
            r.ok(construct='init-unconditional', sample='`%s` is a direct statement of the loop body' % norm(direct[0]))
    if rev_i is None:
        r.unknown(fi.site(), 'reverse loop calling Function.pullback not found')
    if None not in (init_i, seed_i, rev_i):
        if init_i < seed_i < rev_i:
            r.ok(construct='order', nontrivial=True,
                 sample='statement order in CGraph.pullback: init(%d) < seed(%d) < reverse(%d)' % (init_i, seed_i, rev_i))
        else:
            r.bad(Finding('R-sweep-init', _f(fi), 'order', 'adjoint initialisation / seeding / reverse loop are not in this '
                                                           'order (init=%s seed=%s reverse=%s)' % (init_i, seed_i, rev_i), fi.file, fi.lineno))
    elif seed_i is None:
        r.unknown(fi.site(), 'seeding loop over dependentFunctionList not found')
    if rev_i is not None:
        it = norm(rev_st.iter)
        si = seq_iteration(rev_st)
        calls = [c for c in _calls_in(rev_st, 'pullback')]
        on_elem = si is not None and all(
            (c.args and norm(c.args[0]) == si[2]) or (not c.args and norm(c.func.value) == si[2]) for c in calls)
        if si is not None and si[0] == 'self.functionList' and si[1] == 'rev' and on_elem:
            r.ok(construct='reverse-iter', sample='reverse loop iterates %s: every element of %s, in reverse, pullback applied to `%s`' % (it, si[0], si[2]))
        else:
            r.bad(Finding('R-sweep-init', _f(fi), 'reverse-iter:' + it,
                          'reverse loop iterates `%s`, not the whole functionList in reverse recording order' % it,
                          fi.file, rev_st.lineno))
    # xbar_from_x
    fx = m.func(TRACER, 'Function.xbar_from_x')
    loads = [n for n in walk_no_nested(fx.node) if isinstance(n, ast.Attribute) and n.attr == 'xbar'
             and isinstance(n.ctx, ast.Load) and isinstance(n.value, ast.Name) and n.value.id == 'self']
    if loads:
        r.bad(Finding('R-sweep-init', _f(fx), 'reads-self.xbar', 'xbar_from_x reads the previous self.xbar (line %d)'
                      % loads[0].lineno, fx.file, loads[0].lineno))
    else:
        r.ok(construct='xbar_from_x-no-read', sample='xbar_from_x contains no load of self.xbar')
    stores = [st for st in walk_no_nested(fx.node) if isinstance(st, ast.Assign)
              and any(isinstance(t, ast.Attribute) and t.attr == 'xbar' for t in st.targets)]
    eff = ctx.effects
    sm = eff.sums[fx]
    for st in stores:
        v = st.value
        txt = norm(v)
        av = sm.assign_avs.get(id(st))
        roots = flat(av) if av is not None else None
        is_view_of_parents = isinstance(v, ast.Call) and norm(v.func) == 'self.func'
        if roots is not None and not any(x[0] == 'p' for x in roots):
            r.ok(construct='xbar=' + txt, sample='self.xbar = %s (fresh allocation: roots %s)' % (txt, sorted(roots)))
        elif is_view_of_parents:
            r.ok(construct='xbar=' + txt, sample='self.xbar = %s (the view op applied to the parents\' fresh adjoints)' % txt)
        else:
            r.bad(Finding('R-sweep-init', _f(fx), 'xbar=' + txt,
                          'xbar_from_x assigns self.xbar from `%s`, which is not a fresh allocation (roots %s)' % (txt, sorted(roots or [])), fx.file, st.lineno))
    if len(stores) < 4:
        r.unknown(fx.site(), 'fewer than 4 assignments to self.xbar in xbar_from_x')
    # every returning path assigns self.xbar (a path that leaves it alone keeps the adjoint of the previous sweep)
    from .rules_api import _paths
    for i, path in enumerate(_paths(fx.node.body)):
        stmts = [s_ for s_ in path if not isinstance(s_, tuple)]
        if stmts and isinstance(stmts[-1], ast.Raise):
            continue
        if any(isinstance(s_, ast.Assign) and any(isinstance(t, ast.Attribute) and t.attr == 'xbar' and norm(t.value) == 'self' for t in s_.targets) for s_ in stmts):
            r.ok(construct='xbar_from_x:path%d' % i)
        elif any(isinstance(t, tuple) and norm(t[1]) in _none_tests(fx) for t in path) and not stmts_mention_x_after_none(path, _none_tests(fx)):
            r.ok(construct='xbar_from_x:path%d:no-output' % i, sample='xbar_from_x: a node without output (self.x is None) has no adjoint')
        else:
            conds = [norm(t[1])[:40] for t in path if isinstance(t, tuple)]
            r.bad(Finding('R-sweep-init', _f(fx), 'xbar_from_x:unassigned:' + '|'.join(conds)[:80],
                          'xbar_from_x leaves self.xbar untouched on the path through %s: the node keeps the adjoint of the previous sweep' % conds,
                          fx.file, fx.lineno))
    r.floor = 8
    return r


def _x_store_statements(fi):
    """statements that write forward values: `<..>.x = v` or `<..>.x[..] = v`"""
    out = []
    for st in walk_no_nested(fi.node):
        if isinstance(st, (ast.Assign, ast.AugAssign)):
            tg = st.targets if isinstance(st, ast.Assign) else [st.target]
            for t in tg:
                if isinstance(t, ast.Attribute) and t.attr == 'x':
                    out.append(('attr', st))
                elif isinstance(t, ast.Subscript):
                    b = t.value
                    if isinstance(b, ast.Attribute) and b.attr == 'x':
                        out.append(('sub', st))
                    elif isinstance(b, ast.Attribute) and b.attr == 'data' and isinstance(b.value, ast.Attribute) and b.value.attr == 'x':
                        out.append(('sub', st))
    return out


X_WRITERS_ALLOWED = {
    ('Function.create', 'attr'): 'node construction',
    ('Function.pushforward', 'attr'): 'forward (re-)evaluation stores the new value (Fout.x = out)',
    ('CGraph.pushforward', 'attr'): 'independent values are replaced by the caller\'s inputs',
    ('Function.pullback', 'sub'): 'buffer roll-back after the pullback of an in-place write',
    ('CGraph.pullback', 'sub'): 'buffer roll-forward after the sweep',
}


def rule_x_writers(ctx):
    r = RuleResult('R-x-writers', 'forward values (node.x) are written only by node construction, forward evaluation '
                                  'and the buffer roll-back/roll-forward; no driver, sweep or pullback wrapper writes them')
    m = ctx.model
    mi = m.module(TRACER)
    funcs = []
    for ci in mi.classes.values():
        funcs.extend(ci.all_defs)
    funcs.extend(mi.functions.values())
    n = 0
    for fi in funcs:
        for kind, st in _x_store_statements(fi):
            n += 1
            if (fi.qualname, kind) in X_WRITERS_ALLOWED:
                r.ok(construct=fi.qualname + ':' + norm(st), sample='%s: `%s` (%s)' % (fi.qualname, norm(st), X_WRITERS_ALLOWED[(fi.qualname, kind)]))
            else:
                r.bad(Finding('R-x-writers', _f(fi), norm(st), '%s writes a node\'s forward value outside forward evaluation: `%s`'
                              % (fi.qualname, norm(st)), fi.file, st.lineno))
    r.floor = 4
    return r


def rule_sweep_balance(ctx):
    r = RuleResult('R-sweep-balance', 'every statement of the reverse sweep that rolls a buffer back to its '
                                      'pre-write contents is matched by a roll-forward before CGraph.pullback returns '
                                      '(otherwise a second sweep after one forward evaluation reads rolled-back buffers)')
    m = ctx.model
    fp = m.func(TRACER, 'Function.pullback')
    cp = m.func(TRACER, 'CGraph.pullback')
    back = [st for k, st in _x_store_statements(fp) if k == 'sub']
    fwd = []
    # roll-forward: a loop in CGraph.pullback *after* the reverse loop that stores into <node>.x[...]
    rev_seen = False
    for st in cp.node.body:
        if isinstance(st, ast.For) and _calls_in(st, 'pullback'):
            rev_seen = True
            continue
        if rev_seen:
            for n in [st] + list(ast.walk(st)):
                if isinstance(n, (ast.Assign, ast.AugAssign)):
                    tg = n.targets if isinstance(n, ast.Assign) else [n.target]
                    for t in tg:
                        if isinstance(t, ast.Subscript) and isinstance(t.value, ast.Attribute) and t.value.attr == 'x':
                            fwd.append(n)
                if isinstance(n, ast.Call) and isinstance(n.func, ast.Attribute) and n.func.attr in ('pushforward', 'redo_setitem', 'roll_forward'):
                    fwd.append(n)
    # the roll-forward must redo the writes in recording order: a slot written twice has to end with the later write
    rev_seen = False
    collected = {}      # local list name -> direction in which the reverse/forward loops fill it
    for st in cp.node.body:
        if isinstance(st, ast.For):
            si = seq_iteration(st)
            d_ = si[1] if si is not None and si[0] == 'self.functionList' else None
            for c in ast.walk(st):
                if isinstance(c, ast.Call) and isinstance(c.func, ast.Attribute) and c.func.attr in ('append', 'insert') and isinstance(c.func.value, ast.Name):
                    how = d_
                    if c.func.attr == 'insert' and c.args and norm(c.args[0]) == '0' and d_ is not None:
                        how = 'fwd' if d_ == 'rev' else 'rev'
                    collected[c.func.value.id] = how
        if isinstance(st, ast.For) and _calls_in(st, 'pullback'):
            rev_seen = True
            continue
        if rev_seen and isinstance(st, ast.For) and any(n in fwd for n in ast.walk(st)):
            si = seq_iteration(st)
            order = None
            if si is not None and si[0] == 'self.functionList':
                order = si[1]
            elif si is not None and si[0] in collected and collected[si[0]] is not None:
                order = collected[si[0]] if si[1] == 'fwd' else ('fwd' if collected[si[0]] == 'rev' else 'rev')
            if order == 'fwd':
                r.ok(construct='roll-forward-order', nontrivial=True, sample='roll-forward loop `for %s in %s` redoes the writes in recording order' % (norm(st.target), norm(st.iter)))
            elif order == 'rev':
                r.bad(Finding('R-sweep-balance', _f(cp), 'roll-forward-order', 'the roll-forward loop `for %s in %s` redoes the in-place writes in reverse recording '
                                                                               'order: a slot written twice ends with the earlier value' % (norm(st.target), norm(st.iter)), cp.file, st.lineno))
            else:
                r.unknown(cp.site(st), 'order of the roll-forward loop over `%s` not determined' % norm(st.iter))
    # Function.__setitem__ saves the overwritten contents with the node: the reverse sweep has to put them back, otherwise
    # the pullbacks of the operations recorded *before* the write read the overwritten buffer
    fs = m.lookup_method('Function', '__setitem__')
    saves = fs is not None and any(isinstance(c, ast.Call) and any(k.arg == 'setitem' for k in c.keywords) for c in walk_no_nested(fs.node))
    if not back and saves:
        r.bad(Finding('R-sweep-balance', _f(fp), 'no-rollback', 'Function.__setitem__ records the overwritten buffer contents (setitem=...) but Function.pullback never '
                                                                'restores them: pullbacks of earlier operations read the buffer after the write', fp.file, fp.lineno))
    elif not back:
        r.ok(construct='no-rollback', sample='Function.pullback contains no roll-back store into node.x[...]')
    for st in back:
        if fwd:
            r.ok(construct=norm(st), nontrivial=True,
                 sample='roll-back `%s` matched by roll-forward `%s`' % (norm(st), norm(fwd[0])))
        else:
            r.bad(Finding('R-sweep-balance', _f(fp), norm(st),
                          'roll-back `%s` has no roll-forward after the reverse loop of CGraph.pullback: buffers stay '
                          'at their pre-write contents after a sweep' % norm(st), fp.file, st.lineno))
    r.floor = 2
    return r


def _guards(fi, target):
    """If-tests enclosing node `target` inside function fi: list of (test, branch)"""
    out = []

    def rec(body, stack):
        for st in body:
            if st is target or any(n is target for n in ast.walk(st)):
                if isinstance(st, ast.If):
                    if any(n is target for b in st.body for n in ast.walk(b)):
                        return rec(st.body, stack + [(st.test, True)])
                    if any(n is target for b in st.orelse for n in ast.walk(b)):
                        return rec(st.orelse, stack + [(st.test, False)])
                    return stack
                for attr in ('body', 'orelse', 'finalbody'):
                    sub = getattr(st, attr, None)
                    if isinstance(sub, list) and any(n is target for b in sub for n in ast.walk(b)):
                        return rec(sub, stack)
                if isinstance(st, ast.Try):
                    for h in st.handlers:
                        if any(n is target for b in h.body for n in ast.walk(b)):
                            return rec(h.body, stack)
                return stack
        return stack
    return rec(fi.node.body, [])


def _none_fact(test, branch, expr):
    """what a guard (test taken on `branch`) says about `expr`: 'none' | 'notnone' | None"""
    if isinstance(test, ast.UnaryOp) and isinstance(test.op, ast.Not):
        return _none_fact(test.operand, not branch, expr)
    if isinstance(test, ast.Compare) and len(test.ops) == 1 and norm(test.left) == expr \
            and isinstance(test.comparators[0], ast.Constant) and test.comparators[0].value is None:
        if isinstance(test.ops[0], (ast.Is, ast.Eq)):
            return 'none' if branch else 'notnone'
        if isinstance(test.ops[0], (ast.IsNot, ast.NotEq)):
            return 'notnone' if branch else 'none'
    if norm(test) == expr:
        return 'notnone' if branch else None      # truthiness: falsy does not mean None
    if isinstance(test, ast.BoolOp) and isinstance(test.op, ast.And) and branch:
        for v in test.values:
            f = _none_fact(v, True, expr)
            if f:
                return f
    return None


def _known_none(fi, target, expr):
    """'none' / 'notnone' if the enclosing guards of `target`, or an earlier `if <expr> is None: return|raise`
    in an enclosing block, decide whether `expr` is None at `target`; else None"""
    for t, b in _guards(fi, target):
        f = _none_fact(t, b, expr)
        if f:
            return f

    def rec(body):
        fact = None
        for st in body:
            if st is target or any(n is target for n in ast.walk(st)):
                if fact:
                    return fact
                for attr in ('body', 'orelse', 'finalbody'):
                    sub = getattr(st, attr, None)
                    if isinstance(sub, list) and any(n is target for b_ in sub if isinstance(b_, ast.AST) for n in ast.walk(b_)):
                        return rec(sub)
                return None
            if isinstance(st, ast.If) and st.body and isinstance(st.body[-1], (ast.Return, ast.Raise)) and not st.orelse:
                f = _none_fact(st.test, False, expr)
                if f:
                    fact = f
            elif any(isinstance(n, (ast.Assign, ast.AugAssign)) and any(norm(t_) == expr for t_ in (n.targets if isinstance(n, ast.Assign) else [n.target]))
                     for n in ast.walk(st)):
                fact = None
        return None
    return rec(fi.node.body)


def _eval_guard(test, facts):
    """three-valued evaluation of `X is None` / `X is not None` under facts {name: 'none'|'notnone'}"""
    if isinstance(test, ast.Compare) and len(test.ops) == 1 and isinstance(test.left, ast.Name) \
            and isinstance(test.comparators[0], ast.Constant) and test.comparators[0].value is None:
        f = facts.get(test.left.id)
        if f is None:
            return None
        if isinstance(test.ops[0], ast.Is):
            return f == 'none'
        if isinstance(test.ops[0], ast.IsNot):
            return f == 'notnone'
    if isinstance(test, ast.UnaryOp) and isinstance(test.op, ast.Not):
        v = _eval_guard(test.operand, facts)
        return None if v is None else (not v)
    if isinstance(test, ast.BoolOp):
        vals = [_eval_guard(v, facts) for v in test.values]
        if isinstance(test.op, ast.And):
            if any(v is False for v in vals):
                return False
            return True if all(v is True for v in vals) else None
        if any(v is True for v in vals):
            return True
        return False if all(v is False for v in vals) else None
    return None


def _live_facts(fi, facts, before_line):
    """drop facts about parameters that are re-assigned before `before_line` on
    a path whose guards are not definitely false under the facts"""
    out = dict(facts)
    changed = True
    while changed:
        changed = False
        for st in walk_no_nested(fi.node):
            if isinstance(st, ast.Assign) and st.lineno < before_line:
                for t in st.targets:
                    if isinstance(t, ast.Name) and t.id in out:
                        dead = False
                        for test, branch in _guards(fi, st):
                            v = _eval_guard(test, out)
                            if v is not None and v != branch:
                                dead = True
                        if not dead:
                            del out[t.id]
                            changed = True
    return out


def rule_drv_fresh(ctx):
    r = RuleResult('R-drv-fresh', 'value-carrying node state read by a sweep (x, xbar, setitem) is (re)defined on the '
                                  'replay path of every forward evaluation; nothing captured at recording time survives')
    m = ctx.model
    cpf = m.func(TRACER, 'CGraph.pushforward')
    fpf = m.func(TRACER, 'Function.pushforward')
    fpb = m.func(TRACER, 'Function.pullback')
    # replay call site
    calls = [c for c in _calls_in(cpf.node, 'pushforward')]
    if len(calls) != 1:
        r.unknown(cpf.site(), 'expected exactly one replay call to Function.pushforward in CGraph.pushforward, found %d' % len(calls))
        return r
    call = calls[0]
    kw = {k.arg: k.value for k in call.keywords}
    facts = {}
    params = fpf.value_params()
    for i, p in enumerate(params):
        given = i < len(call.args) or p in kw
        if not given:
            d = fpf.defaults.get(p)
            if isinstance(d, ast.Constant) and d.value is None:
                facts[p] = 'none'
        else:
            v = call.args[i] if i < len(call.args) else kw[p]
            if isinstance(v, ast.Constant) and v.value is None:
                facts[p] = 'none'
            else:
                facts[p] = 'notnone'
    # x: stored on the replay path?
    for field, readers in (('x', 'every later node'), ('setitem', 'Function.pullback (buffer restore)')):
        reads = [n for n in walk_no_nested(fpb.node) if isinstance(n, ast.Attribute) and n.attr == field and isinstance(n.ctx, ast.Load)]
        if field == 'setitem' and not reads:
            r.ok(construct='setitem-unused', sample='Function.pullback does not read .setitem')
            continue
        stores = []
        # the store has to hit the node that is being replayed: `<Fout>.<field> = ...` in Function.pushforward, Fout being the
        # parameter that receives the node (CGraph.pushforward's own `f.args[0].x = x_list[nf]` only feeds the independents)
        node_par = 'Fout' if 'Fout' in params else None
        for fi in (fpf,):
            for st in walk_no_nested(fi.node):
                if isinstance(st, ast.Assign) and any(isinstance(t, ast.Attribute) and t.attr == field
                                                      and (node_par is None or (isinstance(t.value, ast.Name) and t.value.id == node_par)) for t in st.targets):
                    stores.append((fi, st))
        live = []
        for fi, st in stores:
            g = _guards(fi, st)
            dead = False
            lf = _live_facts(fi, facts, st.lineno) if fi is fpf else {}
            for test, branch in g:
                v = _eval_guard(test, lf) if fi is fpf else None
                if v is not None and v != branch:
                    dead = True
            if not dead:
                live.append((fi, st))
        if live:
            r.ok(construct='replay-store:' + field, nontrivial=True,
                 sample='field `%s` is re-stored on the replay path by `%s` in %s (replay call: %s, facts %s)'
                        % (field, norm(live[0][1]), live[0][0].qualname, norm(call), facts))
        else:
            r.bad(Finding('R-drv-fresh', _f(fpf), 'stale:' + field,
                          'node field `%s` (read by %s) is stored only %s; the replay call `%s` never re-stores it, so a '
                          'sweep after re-evaluation at another point uses recording-time contents'
                          % (field, readers, '; '.join('`%s` under %s' % (norm(st), [norm(t) for t, _ in _guards(fi, st)]) for fi, st in stores) or 'nowhere',
                             norm(call)), fpf.file, fpf.lineno))
    # replay must hand the recorded keyword arguments back to the operation
    if 'Fkwargs' in params:
        given = params.index('Fkwargs') < len(call.args) or 'Fkwargs' in kw
        v = kw.get('Fkwargs') if 'Fkwargs' in kw else (call.args[params.index('Fkwargs')] if given else None)
        if given and v is not None and norm(v).endswith('.kwargs'):
            r.ok(construct='replay-kwargs', sample='replay passes Fkwargs=%s' % norm(v))
        else:
            r.bad(Finding('R-drv-fresh', _f(cpf), 'replay-kwargs',
                          'the replay call `%s` does not pass the node\'s recorded keyword arguments (f.kwargs): an op recorded '
                          'with non-default keywords (fft(n=, axis=)) is re-evaluated with the defaults' % norm(call),
                          cpf.file, call.lineno))
    r.floor = 3
    return r


def rule_setitem_copy(ctx):
    r = RuleResult('R-setitem-copy', 'the buffer contents saved for the roll-back of an in-place write are a private copy: '
                                     'the value stored in node.setitem never shares storage with the buffer or any argument')
    m = ctx.model
    eff = ctx.effects
    n = 0
    for fi in m.all_functions():
        if fi.module != TRACER:
            continue
        sm = eff.sums[fi]
        # (a) assignments `X.setitem = v` and `setitem = (sl, saved)`
        for st in walk_no_nested(fi.node):
            if not isinstance(st, ast.Assign):
                continue
            is_attr = any(isinstance(t, ast.Attribute) and t.attr == 'setitem' for t in st.targets)
            is_name = any(isinstance(t, ast.Name) and t.id == 'setitem' for t in st.targets)
            if not (is_attr or is_name) or isinstance(st.value, ast.Call) and norm(st.value).startswith('NotSet'):
                continue
            av = sm.assign_avs.get(id(st))
            if av is None:
                continue
            n += 1
            saved = av[1] if (isinstance(av, tuple) and len(av) == 2) else av
            bad = [x for x in flat(saved) if x[0] == 'p' and x[1] != 'setitem']
            if bad:
                r.bad(Finding('R-setitem-copy', _f(fi), norm(st), 'the saved buffer contents in `%s` may share storage with %s: the '
                              'roll-back of the reverse sweep then restores nothing' % (norm(st), sorted(x[1] for x in bad)), fi.file, st.lineno))
            else:
                r.ok(construct=_f(fi) + ':' + norm(st), nontrivial=True,
                     sample='%s: `%s` stores roots %s (fresh / the setitem argument only)' % (fi.qualname, norm(st), sorted(flat(saved))))
        # (b) call sites passing setitem=(sl, store)
        for cid, (c, args, kws) in sm.callargs.items():
            if 'setitem' in kws and isinstance(c.func, ast.Attribute) and c.func.attr == 'pushforward':
                av = kws['setitem']
                n += 1
                saved = av[1] if (isinstance(av, tuple) and len(av) == 2) else av
                bad = [x for x in flat(saved) if x[0] == 'p']
                if bad:
                    r.bad(Finding('R-setitem-copy', _f(fi), norm(c), 'the overwritten contents recorded by `%s` may alias %s (not a copy)'
                                  % (norm(c)[:80], sorted(x[1] for x in bad)), fi.file, c.lineno))
                else:
                    r.ok(construct=_f(fi) + ':' + norm(c), nontrivial=True,
                         sample='%s: recorded store %s is fresh' % (fi.qualname, sorted(flat(saved))))
    r.floor = 3
    return r


def rule_seed_copy(ctx):
    r = RuleResult('R-seed-copy', 'user seeds (xbar_list) are only read, and only as the right-hand side of a '
                                  'subscript store into the node adjoint (copied, never aliased or modified)')
    m = ctx.model
    fi = m.func(TRACER, 'CGraph.pullback')
    handlers = []
    for n in ast.walk(fi.node):
        if isinstance(n, ast.ExceptHandler):
            handlers.append(n)
    in_handler = set()
    for h in handlers:
        for n in ast.walk(h):
            in_handler.add(id(n))
    param = 'xbar_list'
    if param not in fi.params:
        param = fi.value_params()[0] if fi.value_params() else None
    loads = [n for n in walk_no_nested(fi.node) if isinstance(n, ast.Name) and n.id == param and id(n) not in in_handler]
    ok_stores = 0
    for st in walk_no_nested(fi.node):
        if id(st) in in_handler:
            continue
        if isinstance(st, (ast.Assign, ast.AugAssign)):
            val_names = [n for n in ast.walk(st.value) if isinstance(n, ast.Name) and n.id == param]
            if not val_names:
                continue
            tg = st.targets if isinstance(st, ast.Assign) else [st.target]
            for t in tg:
                if isinstance(st, ast.Assign) and isinstance(t, ast.Subscript) and isinstance(t.value, ast.Attribute) and t.value.attr == 'xbar':
                    ok_stores += 1
                    r.ok(construct=norm(st), sample='seed copied: `%s`' % norm(st))
                else:
                    r.bad(Finding('R-seed-copy', _f(fi), norm(st),
                                  'user seed is aliased or combined in place: `%s` (the sweep then accumulates into the '
                                  'caller\'s object)' % norm(st), fi.file, st.lineno))
        elif isinstance(st, ast.Call):
            # seed passed to a call outside a handler
            for a in list(st.args) + [k.value for k in st.keywords]:
                if any(isinstance(n, ast.Name) and n.id == param for n in ast.walk(a)) and not (
                        isinstance(st.func, ast.Name) and st.func.id in ('len', 'enumerate', 'zip', 'str', 'type')):
                    r.bad(Finding('R-seed-copy', _f(fi), norm(st), 'user seed escapes into call `%s`' % norm(st), fi.file, st.lineno))
    eff = ctx.effects
    if param in eff.sums[fi].writes:
        w = eff.sums[fi].writes[param]
        r.bad(Finding('R-seed-copy', _f(fi), 'writes:' + param, 'CGraph.pullback may write the caller\'s seed list: %s'
                      % sorted(w.values(), key=len)[0], fi.file, fi.lineno))
    else:
        r.ok(construct='E1:no-write', nontrivial=True, sample='E1: `%s` not in writes(CGraph.pullback)' % param)
    if ok_stores == 0:
        r.unknown(fi.site(), 'no seeding store `f.xbar[...] = %s[..]` found' % param)
    r.floor = 2
    return r


def _attr_stores(model, attr, modules=None):
    out = []
    for fi in model.all_functions():
        if modules and fi.module not in modules:
            continue
        for st in walk_no_nested(fi.node):
            tg = []
            if isinstance(st, ast.Assign):
                tg = st.targets
            elif isinstance(st, ast.AugAssign):
                tg = [st.target]
            for t in tg:
                if isinstance(t, ast.Attribute) and t.attr == attr:
                    out.append((fi, st))
    return out


def rule_global(ctx):
    r = RuleResult('R-global', 'Function.cgraph is written only by CGraph.__init__/trace_on/trace_off; '
                               'functionList/functionCount/ID only by CGraph.__init__/append and Function.create under '
                               '`cls.cgraph is not None`; replay never reaches Function.create')
    m = ctx.model
    allowed = {
        'cgraph': {'CGraph.__init__', 'CGraph.trace_on', 'CGraph.trace_off'},
        'functionList': {'CGraph.__init__'},
        'functionCount': {'CGraph.__init__', 'CGraph.append'},
        'ID': {'Function.create'},
    }
    for attr, ok in allowed.items():
        for fi, st in _attr_stores(m, attr):
            if fi.qualname in ok:
                r.ok(construct='%s@%s' % (attr, fi.qualname), sample='%s: `%s`' % (fi.qualname, norm(st)))
            else:
                r.bad(Finding('R-global', _f(fi), '%s:%s' % (attr, norm(st)),
                              '`%s` written outside %s: `%s`' % (attr, sorted(ok), norm(st)), fi.file, st.lineno))
    # container mutations of functionList
    for fi in m.all_functions():
        for c in walk_no_nested(fi.node):
            if isinstance(c, ast.Call) and isinstance(c.func, ast.Attribute) and c.func.attr in (
                    'append', 'extend', 'insert', 'pop', 'remove', 'clear', 'reverse', 'sort') \
                    and isinstance(c.func.value, ast.Attribute) and c.func.value.attr == 'functionList':
                if fi.qualname == 'CGraph.append' and c.func.attr == 'append':
                    r.ok(construct='functionList.append', sample='CGraph.append: `%s`' % norm(c))
                else:
                    r.bad(Finding('R-global', _f(fi), norm(c), 'functionList mutated outside CGraph.append: `%s`' % norm(c), fi.file, c.lineno))
    # create(): ID assignment and append both under `cls.cgraph is not None`, ID before append
    cr = m.func(TRACER, 'Function.create')
    idst = [st for fi, st in _attr_stores(m, 'ID') if fi is cr]
    app = [c for c in walk_no_nested(cr.node) if isinstance(c, ast.Call) and isinstance(c.func, ast.Attribute) and c.func.attr == 'append'
           and 'cgraph' in norm(c.func.value)]
    if len(idst) == 1 and len(app) == 1:
        g1 = [(norm(t), b) for t, b in _guards(cr, idst[0])]
        g2 = [(norm(t), b) for t, b in _guards(cr, app[0])]
        cg = '%s.cgraph' % (cr.params[0] if cr.params else 'cls')
        if _known_none(cr, idst[0], cg) == 'notnone' and _known_none(cr, app[0], cg) == 'notnone' \
                and idst[0].lineno < app[0].lineno and 'get_ID' in norm(idst[0].value):
            r.ok(construct='create-guard', nontrivial=True,
                 sample='Function.create: `%s` then `%s`, both under `cls.cgraph is not None`' % (norm(idst[0]), norm(app[0])))
        else:
            r.bad(Finding('R-global', _f(cr), 'create-guard', 'node ID / registration are not both guarded by `cls.cgraph is not None` '
                                                               'with the ID taken before the append (guards: %s / %s)' % (g1, g2), cr.file, cr.lineno))
    else:
        r.bad(Finding('R-global', _f(cr), 'create-shape', 'Function.create must assign ID once and append once (found %d / %d)'
                      % (len(idst), len(app)), cr.file, cr.lineno))
    # get_ID returns functionCount
    gid = m.func(TRACER, 'Function.get_ID')
    from .rules_shape import resolve_locals
    gcls = gid.params[0] if gid.params else 'cls'
    grets = [n_ for n_ in walk_no_nested(gid.node) if isinstance(n_, ast.Return)]
    def live_leaves(e):
        """values a (conditional) expression can take while a graph is being recorded"""
        if isinstance(e, ast.IfExp):
            out_ = []
            if _none_fact(e.test, True, gcls + '.cgraph') != 'none':
                out_ += live_leaves(e.body)
            if _none_fact(e.test, False, gcls + '.cgraph') != 'none':
                out_ += live_leaves(e.orelse)
            return out_
        return [e]
    live = [n_ for n_ in grets if _known_none(gid, n_, gcls + '.cgraph') != 'none']      # returns reachable while a graph is being recorded
    vals = [l_ for n_ in live if n_.value is not None for l_ in live_leaves(resolve_locals(gid, n_.value))]
    if live and vals and all(n_.value is not None for n_ in live) and all(norm(l_) == '%s.cgraph.functionCount' % gcls for l_ in vals):
        r.ok(construct='get_ID', sample='get_ID returns cls.cgraph.functionCount (= position of the next append)')
    else:
        r.bad(Finding('R-global', _f(gid), 'get_ID', 'get_ID no longer returns the current functionCount', gid.file, gid.lineno))
    # append: exactly one increment by one and one list append
    ap = m.func(TRACER, 'CGraph.append')
    inc = [st for st in ap.node.body if (isinstance(st, ast.AugAssign) and norm(st) == 'self.functionCount += 1')
           or (isinstance(st, ast.Assign) and norm(st) in ('self.functionCount = self.functionCount + 1', 'self.functionCount = 1 + self.functionCount'))]
    all_inc = [st for st in walk_no_nested(ap.node) if isinstance(st, (ast.Assign, ast.AugAssign))
               and any(norm(t_) == 'self.functionCount' for t_ in (st.targets if isinstance(st, ast.Assign) else [st.target]))]
    la = [st.value for st in ap.node.body if isinstance(st, ast.Expr) and isinstance(st.value, ast.Call) and norm(st.value.func) == 'self.functionList.append']
    all_la = [c for c in walk_no_nested(ap.node) if isinstance(c, ast.Call) and isinstance(c.func, ast.Attribute)
              and c.func.attr in ('append', 'insert', 'extend') and norm(c.func.value) == 'self.functionList']
    if len(inc) == 1 and len(la) == 1 and len(all_inc) == 1 and len(all_la) == 1:
        r.ok(construct='append', sample='CGraph.append: one `functionCount += 1`, one `functionList.append(func)`')
    else:
        r.bad(Finding('R-global', _f(ap), 'append', 'CGraph.append must increment functionCount by one and append once '
                                                     '(ID == position)', ap.file, ap.lineno))
    # replay never records: create only under `Fout is None`; replay passes Fout
    fpf = m.func(TRACER, 'Function.pushforward')
    creates = [c for c in walk_no_nested(fpf.node) if isinstance(c, ast.Call) and isinstance(c.func, ast.Attribute) and c.func.attr == 'create']
    for c in creates:
        g = [(norm(t), b) for t, b in _guards(fpf, c)]
        if _known_none(fpf, c, 'Fout') == 'none':
            r.ok(construct='create-under-Fout-None', nontrivial=True, sample='Function.pushforward: `%s` under %s' % (norm(c), g))
        else:
            r.bad(Finding('R-global', _f(fpf), 'create-unguarded', 'Function.pushforward creates a node outside `Fout is None`: '
                                                                    'replay would record', fpf.file, c.lineno))
    if len(creates) != 1:
        r.bad(Finding('R-global', _f(fpf), 'create-count', 'Function.pushforward must create exactly one node when Fout is None '
                                                            '(found %d create calls)' % len(creates), fpf.file, fpf.lineno))
    cpf = m.func(TRACER, 'CGraph.pushforward')
    calls = _calls_in(cpf.node, 'pushforward')
    for c in calls:
        kw = {k.arg: k.value for k in c.keywords}
        if 'Fout' in kw and not (isinstance(kw['Fout'], ast.Constant) and kw['Fout'].value is None):
            r.ok(construct='replay-Fout', sample='replay call passes Fout=%s' % norm(kw['Fout']))
        else:
            r.bad(Finding('R-global', _f(cpf), 'replay-Fout', 'replay call `%s` does not pass Fout: every replay would record new nodes' % norm(c), cpf.file, c.lineno))
    r.floor = 12
    return r


def rule_doc(ctx):
    r = RuleResult('R-doc', 'anchor: the documented double-sweep usage (two cg.pullback calls after one forward '
                            'evaluation) exists')
    path = os.path.join(ctx.model.repo, 'documentation/examples/comparison_forward_reverse_mode.py')
    if not os.path.exists(path):
        r.note('documentation example not present (anchor only)')
        r.ok(construct='doc-missing')
        return r
    try:
        tree = ast.parse(open(path).read())
    except SyntaxError:
        r.note('documentation example does not parse (anchor only)')
        r.ok(construct='doc-unparsable')
        return r
    seq = []
    for n in ast.walk(tree):
        if isinstance(n, ast.Call) and isinstance(n.func, ast.Attribute) and n.func.attr in ('pullback', 'pushforward'):
            seq.append((n.lineno, n.func.attr))
    seq.sort()
    s = [a for _, a in seq]
    double = any(s[i] == 'pullback' and s[i + 1] == 'pullback' for i in range(len(s) - 1))
    r.ok(construct='doc', sample='call sequence in the example: %s; consecutive pullbacks: %s' % (s, double))
    if not double:
        r.note('the documentation example no longer sweeps twice after one forward evaluation')
    return r


def rule_setitem_order(ctx):
    r = RuleResult('R-setitem-order', 'when an in-place write is (re-)evaluated, the buffer contents it is going to overwrite are saved *before* the operation '
                                      'runs: in Function.pushforward every assignment to the saved value that reads the argument values precedes the call of the '
                                      'recorded operation on every path (saved afterwards, the "old" contents are the new ones and the reverse sweep restores nothing)')
    from .rules_api import _paths
    m = ctx.model
    fi = m.func(TRACER, 'Function.pushforward')
    vp = fi.value_params()
    if not vp:
        r.unknown(fi.site(), 'signature of Function.pushforward not recognised')
        return r
    opname = vp[0]
    n = 0
    for i, path in enumerate(_paths(fi.node.body)):
        stmts = [s_ for s_ in path if not isinstance(s_, tuple)]
        if not stmts or isinstance(stmts[-1], ast.Raise):
            continue
        op_at = next((k for k, s_ in enumerate(stmts) if any(isinstance(c, ast.Call) and isinstance(c.func, ast.Name) and c.func.id == opname for c in ast.walk(s_))), None)
        if op_at is None:
            continue
        # names holding the unwrapped argument values
        argvals = set()
        for s_ in walk_no_nested(fi.node):
            if isinstance(s_, ast.Assign) and len(s_.targets) == 1 and isinstance(s_.targets[0], ast.Name) \
                    and isinstance(s_.value, (ast.List, ast.ListComp, ast.Call)) and s_.targets[0].id not in vp:
                argvals.add(s_.targets[0].id)
        call = next(c for c in ast.walk(stmts[op_at]) if isinstance(c, ast.Call) and isinstance(c.func, ast.Name) and c.func.id == opname)
        passed = {x.id for a in call.args for x in ast.walk(a) if isinstance(x, ast.Name)}
        argvals &= passed
        # locals that hold (part of) the argument values: `buf = args[0]`
        for _ in range(3):
            for s2 in walk_no_nested(fi.node):
                if isinstance(s2, ast.Assign) and len(s2.targets) == 1 and isinstance(s2.targets[0], ast.Name) and s2.targets[0].id not in vp \
                        and s2.targets[0].id != 'setitem' and isinstance(s2.value, (ast.Name, ast.Subscript, ast.Attribute)) \
                        and any(isinstance(x, ast.Name) and x.id in argvals for x in ast.walk(s2.value)):
                    argvals.add(s2.targets[0].id)
        for k, s_ in enumerate(stmts):
            if not (isinstance(s_, ast.Assign) and any(isinstance(t, ast.Name) and t.id == 'setitem' for t in s_.targets)):
                continue
            reads_args = any(isinstance(x, ast.Name) and x.id in argvals for x in ast.walk(s_.value))
            if not reads_args:
                continue
            n += 1
            if k < op_at:
                r.ok(construct='path%d:%s' % (i, norm(s_)[:40]), nontrivial=True, sample='Function.pushforward: `%s` precedes `%s`' % (norm(s_)[:50], norm(call)[:30]))
            else:
                r.bad(Finding('R-setitem-order', _f(fi), 'saved-after:' + norm(s_)[:50], 'Function.pushforward saves the overwritten buffer contents (`%s`) after the '
                                                                                         'operation `%s` has run: it saves the new contents, the roll-back of the reverse sweep '
                                                                                         'restores nothing' % (norm(s_)[:60], norm(call)[:30]), fi.file, true_line(s_.lineno)))
    r.floor = 1
    return r
