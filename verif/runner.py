"""
Entry point: ./check <property id> [--tier quick|thorough] [--replay file]
exit 0: property held on everything analysed (known findings are printed)
exit 1: VIOLATION property=<id> replay=<path>
exit 2: ANALYSIS-ERROR (an anchor vanished / a construct is outside the rule's idioms)
"""
import json
import os
import sys
import time
import traceback

from .model import Model, AnalysisError
from .core import load_known, write_evidence, write_replay, VERIF


class Ctx:
    def __init__(self, repo=None, overrides=None):
        self.model = Model(repo=repo, overrides=overrides)
        self._eff = None
        self.cache = {}

    @property
    def effects(self):
        if self._eff is None:
            from .effects import Effects
            self._eff = Effects(self.model)
        return self._eff


FACT = {'eig', 'svd', 'eigh', 'eigh1', 'qr', 'qr_full', 'cholesky', 'lu', 'lu2', 'lu_factor', '_qr', '_qr_rectangular', '_qr_full',
        '_cholesky', '_eigh', 'piv2mat', 'piv2det', 'det', 'logdet'}


def _only(rule, names, rid):
    """restrict a whole-package rule to findings located in the named functions (and rename it)"""
    def wrapped(ctx):
        r = rule(ctx)
        r.findings = [f for f in r.findings if f.func.split(':')[-1].split('.')[-1] in names]
        for f in r.findings:
            f.rule = rid
        r.rule = rid
        r.instances = r.holding + len(r.findings) + len(r.unknowns)
        return r
    wrapped.__name__ = rid
    return wrapped


def registry():
    from . import rules_tracer as T
    reg = {}
    try:
        from . import rules_api as A
    except ImportError:
        A = None
    try:
        from . import rules_grade as G
    except ImportError:
        G = None
    try:
        from . import rules_shape as S
    except ImportError:
        S = None
    try:
        from . import rules_paxis as P
    except ImportError:
        P = None
    from . import rules_dims as DM
    from . import rules_params as RP
    FWD_DIMS = ['_dot', '_dot_non_UTPM_x', '_dot_non_UTPM_y', '_outer', '_outer_non_utpm_x', '_outer_non_utpm_y', '_inv', '_solve',
                '_solve_non_UTPM_A', '_solve_non_UTPM_x', '_iouter', '_diag']
    PB_DIMS = ['_dot_pullback', '_outer_pullback', '_inv_pullback', '_solve_pullback', '_qr_rectangular_pullback', '_qr_pullback', '_qr_full_pullback', '_diag_pullback']
    reg['C03'] = dict(
        rules=[T.rule_pb_sig, T.rule_pb_acc, T.rule_pb_out, T.rule_pb_view, T.rule_pb_ro, T.rule_pb_complete, T.rule_pb_pair, T.rule_setitem_copy, T.rule_setitem_order, T.rule_pb_setitem_clear, T.rule_pb_rebind, T.rule_pb_dead, S.rule_const_all_coeffs, T.rule_pb_threshold, T.rule_pb_propagate, T.rule_pb_each, T.rule_pb_kernel_out, S.rule_int_index, DM.rule_dims_kernels(PB_DIMS, 'C03.dims', 120), DM.rule_dims_wrappers(['pb_dot', 'pb_outer', 'pb_solve', 'pb_inv', 'pb_qr', 'pb_qr_full', 'pb_trace', 'pb_svd', 'pb_diag'], 'C03.dims-wrap', 60), RP.rule_pb, S.rule_sym] + ([G.rule_pb_grade('C03')] if G is not None else []),
        explanation='Static decision of the tracer<->pullback calling protocol every traced program depends on. '
                    'Decides: existence/arity/keyword/permutation agreement between each recorder site and UTPM.pb_<name> '
                    '(R-pb-sig); accumulate-never-overwrite into adjoint storage (R-pb-acc, via the E1 alias/effect analysis '
                    'with interprocedural write modes); every pullback reaches its `out` (R-pb-out); view-mirrored ops have '
                    'guaranteed-view forwards (R-pb-view); pullbacks write only `out` (R-pb-ro); no certainly-unbound local / '
                    'unresolved name / dangling cls.X in any reachable pullback code (R-pb-complete); wrapper->kernel operand '
                    'order (R-pb-pair); no name holding `out` storage is re-bound and no adjoint-derived value is overwritten unread (R-pb-rebind, R-pb-dead); the pullback of an in-place write clears the overwritten adjoint on every path (R-pb-setitem-clear); pullback kernels are homogeneous Taylor arithmetic (C03.pb-grade, E2). NOT decided: that each pullback kernel computes the right linear map (transposes, '
                    'factors, signs) - the adjoint identity <xbar,v> = <ybar,F\'v> itself is numeric.',
        assumptions=['NumPy library summary tables of verif/effects.py (which calls return views / write out=)',
                     'receiver classes by class-hierarchy analysis on method names (no type checker available)',
                     'Function.pullback dispatch expression as extracted by tracer_proto.dispatch_shape'])
    reg['C06'] = dict(
        rules=[T.rule_pb_ro, T.rule_sweep_init, T.rule_sweep_balance, T.rule_setitem_copy, T.rule_setitem_order, T.rule_x_writers, T.rule_drv_fresh, T.rule_seed_copy, T.rule_global, T.rule_doc, T.rule_pb_propagate, T.rule_graph_capture] + ([A.rule_class_state, A.rule_memo_key, A.rule_rec_unwrap, A.rule_uninit, A.rule_uninit_kernels] if A is not None else []) + ([G.rule_out_defined] if G is not None else []),
        explanation='Static decision of the state discipline that makes results a function of the call\'s arguments only. '
                    'Decides: pullbacks never write forward values or incoming adjoints (R-pb-ro, E1 effects); adjoints are '
                    're-initialised unconditionally for every node before every sweep and xbar_from_x ignores the previous xbar '
                    '(R-sweep-init); buffer roll-back is matched by a roll-forward that redoes the writes in recording order (R-sweep-balance); node.x has a closed set of '
                    'writers (R-x-writers); nothing captured at recording time survives a forward evaluation, incl. recorded '
                    'keyword arguments (R-drv-fresh); user seeds are copied, not captured (R-seed-copy); the global recording '
                    'pointer and graph lists have a closed set of writers and replay cannot record (R-global); forward kernels do not read an output buffer before defining it when a user-supplied or re-used buffer can reach it (C06.out-defined). NOT decided: '
                    'equality of results across concrete histories.',
        assumptions=['library summary tables of verif/effects.py', 'the structural shape of CGraph.pullback (three top-level loops)'])
    if A is not None:
        reg['C04'] = dict(rules=[A.rule_drv_order, T.rule_drv_fresh, T.rule_setitem_copy, A.rule_drv_flow, A.rule_drv_layout, T.rule_sweep_init, T.rule_pb_propagate, RP.rule_drivers, RP.rule_truthy_drivers, A.rule_drv_dtype, A.rule_uninit_tracer, A.rule_drv_coerce],
                          explanation='Static decision of the driver protocol. Decides: on every path of each of the 8 drivers '
                                      'forward evaluation precedes the reverse sweep which precedes the read of xbar/x '
                                      '(R-drv-order); the point x and every supplied vector flow into the forward seed / '
                                      'adjoint seed, seeds are allocated inside the driver (R-drv-flow); no recording-time '
                                      'state (saved buffer contents, keyword arguments) survives re-evaluation (R-drv-fresh); '
                                      'adjoints are re-initialised per sweep (R-sweep-init). NOT decided: the slicing '
                                      'arithmetic that picks coefficients out of xbar.',
                          assumptions=['def-use chains inside the driver bodies (no aliasing through containers)'])
        reg['C05'] = dict(rules=[A.rule_rec_once, A.rule_rec_operands, T.rule_global, A.rule_rec_same, A.rule_rec_name, RP.rule_tracer, A.rule_rec_options, A.rule_rec_unwrap, RP.rule_truthy_tracer, A.rule_replay_coerce],
                          explanation='Static decision of the recording/replay protocol. Decides: every overload of the '
                                      'differentiable API records exactly once on every returning path (R-rec-once); graph '
                                      'registration state has a closed writer set, ID == position, nothing is recorded while '
                                      'tracing is off or during replay (R-global); replay re-runs the recorded callable on the '
                                      'recorded argument list and keyword arguments, in list order (R-rec-same); Function.NAME '
                                      'records the algopy-level function NAME, which for unwrapped operands resolves to '
                                      'UTPM.NAME / numpy NAME (R-rec-name). NOT decided: value equality of replay and direct '
                                      'execution.',
                          assumptions=['generated dispatchers expanded from function_template'])
        reg['C14'] = dict(rules=[A.rule_arg_ro, T.rule_seed_copy, T.rule_pb_ro] + ([G.rule_alias] if G is not None and hasattr(G, 'rule_alias') else []),
                          explanation='Static decision that no non-in-place entry point writes storage reachable from its '
                                      'arguments (R-arg-ro: E1 alias/effect analysis with interprocedural summaries over all '
                                      'public UTPM methods, kernels and module-level functions), that user seeds are copied '
                                      '(R-seed-copy), pullbacks leave forward values alone (R-pb-ro), and that in-place operators '
                                      'and kernels called with out aliasing an input are hazard-free (ALIAS: read-after-write '
                                      'index analysis of the coefficient loops). "No write" is stronger than bit-identity of the '
                                      'arguments. NOT decided: numerical equality of x op x with a copy.',
                          assumptions=['library summary tables of verif/effects.py; NumPy ufunc overlap handling for whole-array statements'])
    if G is not None and S is not None:
        ELEM = ['_exp', '_log', '_sqrt', '_sincos', '_tansec2', '_arcsin', '_arccos', '_arctan', '_sinhcosh', '_tanhsech2', '_sign',
                '_botched_clip', '_dawsn', '_absolute', '_expm1', '_log1p', '_erf', '_erfi', '_logit', '_expit', '_gammaln', '_psi',
                '_polygamma', '_hyperu']
        reg['C01'] = dict(
            rules=[G.rule_grade('C01'), lambda ctx: S.rule_base(ctx, ELEM, 'C01.base'), S.rule_wrap, S.rule_wrap_order, RP.rule_truthy_elem, RP.rule_elem],
            explanation='Static decision of necessary structural conditions of the elementary-function kernels, for every path and symbolically '
                        'in D, P and shape: each coefficient assignment is homogeneous in the power-series grading (O3) with maximal summation '
                        'ranges (O4: no missing top/bottom term; decided by an affine index calculus, violations confirmed by a witness '
                        'valuation of the index model); the zeroth coefficient is computed by the NumPy/SciPy function the kernel is named '
                        'after (C01.base, through nthderiv.basecase / functools.partial); every wrapper UTPM.NAME calls the kernel of NAME on '
                        'fresh outputs and returns NAME\'s output slot, and the dispatcher reaches it (C01.wrap). NOT decided: numeric '
                        'factors and signs inside a recurrence, the closed forms of nthderiv for n >= 1, rounding.',
            assumptions=['the weight calculus of DESIGN.md sec. 2.3 (an algebraic invariant of truncated power series)',
                         'kernel naming convention _NAME <-> NumPy/SciPy function NAME'])
        reg['C02'] = dict(
            rules=[G.rule_grade('C02'), S.rule_kinds, S.rule_kernel_dtype, S.rule_reflect, G.rule_alias, S.rule_operand_order, S.rule_const_all_coeffs, S.rule_raw_broadcast, S.rule_broadcast_axes],
            explanation='Static decision of structural conditions of the arithmetic operators: the convolution kernels and all eleven operator '
                        'bodies are homogeneous in the grading (O3: in particular a scalar/array constant meets coefficient 0 only for +,- '
                        'and every coefficient for *,/) with maximal ranges (O4); evidence rules on constants and result dtypes (C02.kinds); '
                        'reflected forms delegate with the right algebra and lift constants through __add__ (C02.reflect); '
                        '__array_priority__ > 0. NOT decided: exactness of floating-point results; broadcasting of values.',
            assumptions=['NumPy type-promotion and broadcasting semantics; the weight calculus'])
        reg['C07'] = dict(
            rules=[G.rule_grade('C07'), S.rule_linalg_kinds, S.rule_slice_ops, S.rule_compound,
                   lambda ctx: S.rule_base(ctx, ['_inv', '_solve', '_solve_non_UTPM_x'], 'C07.base'), S.rule_wrap_order, A.rule_class_state,
                   DM.rule_dims_kernels(FWD_DIMS, 'C07.dims', 60), DM.rule_dims_wrappers(['dot', 'outer', 'solve'], 'C07.dims-wrap', 25), RP.rule_linalg],
            explanation='Static decision of structural conditions of the linear-algebra kernels: dot/outer/inv/solve (all operand-kind '
                        'variants) are homogeneous (O3) with maximal ranges (O4); UTPM.dot/outer/solve select the kernel whose suffix names '
                        'the raw operand and pass .data / raw operands in kernel order (C07.kinds); det/logdet/Pade expm use only graded '
                        'public operations, pivot helpers touch order 0 only (C07.compound); base points use numpy.linalg.inv/solve. '
                        'NOT decided: output-shape formulas of dot for N-D operands, Pade coefficients, values.',
            assumptions=['the weight calculus'])
        reg['C08'] = dict(
            rules=[G.rule_grade('C08'), lambda ctx: S.rule_base(ctx, ['_cholesky', '_qr_rectangular', '_qr_full', '_eigh1'], 'C08.base'),
                   _only(P.rule_p3, FACT, 'C08.dir-after'), _only(P.rule_p3b, FACT, 'C08.dir-carried'),
                   _only(P.rule_paxis, FACT, 'C08.dir-const'), _only(P.rule_p4, FACT, 'C08.dir-joint'), _only(G.rule_out_defined, FACT, 'C08.out-defined'), S.rule_wrap_order, S.rule_cast_guard, A.rule_class_state, DM.rule_dims_kernels(['_qr_rectangular', '_qr', '_qr_full'], 'C08.dims', 40), DM.rule_dims_wrappers(['qr', 'qr_full'], 'C08.dims-wrap', 8), RP.rule_truthy_fact, RP.rule_fact],
            explanation='Static decision of structural conditions of the factorization recurrences: in _qr_rectangular, _qr_full, _cholesky, '
                        '_eigh1, lu, lu2, lu_factor every residual (dF, dG, H, S, K) and every factor coefficient is homogeneous of the order '
                        'being defined (O3) and the residual sums are maximal (O4); base points come from numpy.linalg.qr / scipy.linalg.qr / '
                        'cholesky / eigh; inside the factorization functions no direction is addressed by a constant index, decided jointly over all '
                        'directions, or carried over from another direction (C08.dir-*: the base-point factorization is per direction). Declared unanalysed (printed): _eigh (block deflation), UTPM.svd, UTPM.eig. NOT decided: the '
                        'projections (PL, Proj, 0.5), triangularity, orthogonality, eigenvalue ordering - i.e. the defining equations.',
            assumptions=['the weight calculus; declared summary of truncated_triple_dot (weight D, reads orders < D)'])
        reg['C12'] = dict(
            rules=[G.rule_grade('C12'), G.rule_pb_grade('C12')],
            explanation='Static decision, symbolic in the truncation degree: for every coefficient kernel (forward), every axis-0 index read or '
                        'written lies in [0, D-1] for all loop values (O1; negative indices would silently wrap to the highest coefficients), '
                        'every read is of a coefficient of weight <= the order being defined that is already available at that point (O2), no '
                        'index depends on the truncation degree and guards on it are in a justified table (C12.D). Hence output order d '
                        'depends on input orders <= d only. Declared unanalysed (printed): _eigh, svd, eig.',
            assumptions=['affine index domain with Fourier-Motzkin style bound elimination; violations are reported only with a concrete witness valuation'])
    if S is not None and G is not None:
        reg['C10'] = dict(
            rules=[S.rule_cmp, S.rule_shape, lambda ctx: S.rule_base(ctx, None, 'C10.base'), S.rule_dispatch, S.rule_linalg_kinds, S.rule_kinds, S.rule_kernel_dtype, S.rule_shape_arg, S.rule_transpose_axes, S.rule_wrap_order, S.rule_select_zeroth, S.rule_lib_api, RP.rule_api, RP.rule_truthy_api],
            explanation='Static decision of the NumPy-agreement clauses that are visible in the shape of the code: comparison methods return '
                        'numpy.all(<own operator>(zeroth coefficients)) (C10.cmp); shape/size/ndim/len read one coefficient slice '
                        '(C10.shape); every kernel computes its zeroth coefficient with the NumPy/SciPy function it is named after '
                        '(C10.base); generated dispatchers forward (*args, **kwargs) unchanged to the class method or to an existing '
                        'NumPy/SciPy function of the same name, hand-written dispatchers call the function of their own name and forward '
                        'every parameter (C10.dispatch); zeros/ones wrap every integer scalar shape NumPy accepts before concatenating it to (D, P) (C10.shape-arg). NOT decided: equality of values/shapes with NumPy for all arguments.',
            assumptions=['the installed numpy/scipy namespaces are consulted for the existence of fallback functions (no algopy code is run)'])
        reg['C13'] = dict(
            rules=[S.rule_index, S.rule_view, S.rule_map, G.rule_grade('C13'), S.rule_sym, S.rule_alloc, S.rule_shape_arg, S.rule_transpose_axes, S.rule_int_index, RP.rule_shape] + ([A.rule_memo_key] if A is not None else []),
            explanation='Static decision of the slice-wise/view clauses: the index prefixes of __getitem__/__setitem__ (C13.index); view operations '
                        'return storage of their argument with no copy on the path, value operations return fresh data (C13.view, E1 alias '
                        'analysis); trace/tril/triu/tile/fft/ifft apply the NumPy function of their name to slice [d,p] in full d,p loops and '
                        'forward every parameter, sum shifts axes by 2 / data.ndim (C13.map + E2 grading of the map loops); the symvec family '
                        'agrees on the entry<->position enumeration (C13.sym, enumeration of the loop-nest index structure); zeros/ones '
                        'allocate (D,P)+shape from the dtype object (C13.alloc). NOT decided: NumPy\'s own indexing semantics, values.',
            assumptions=['library summary tables of verif/effects.py'])
    if P is not None:
        reg['C11'] = dict(
            rules=[P.rule_paxis, P.rule_batch, P.rule_p2, P.rule_p3, P.rule_p3b, P.rule_p4] + ([S.rule_raw_broadcast, S.rule_broadcast_axes] if S is not None else []),
            explanation='Static information-flow discipline of the direction axis: in every loop over directions the axis-1 subscript of a '
                        '(D,P,...) array is the loop variable and the loop covers range(P); constant direction indices only read shapes (P1); '
                        'element-wise kernels never subscript axis 1 (batch); work arrays allocated outside a p-loop are killed before their '
                        'first read in each iteration (P2); names assigned inside a p-loop are not read after it (P3: rank/structure decisions '
                        'of one direction applied to all); no reduction runs over the direction axis except documented ones (P4). '
                        'NOT decided: rounding differences of vectorised kernels.',
            assumptions=['array layout convention (D,P,...) for *_data parameters and .data attributes'])
    return reg


def run_property(prop, tier, ctx=None, quiet=False):
    """-> (results, unknowns)"""
    reg = registry()
    if prop not in reg:
        raise AnalysisError('runner', prop, 'no check registered for this property')
    ctx = ctx or Ctx()
    results = []
    for rule in reg[prop]['rules']:
        results.append(rule(ctx))
    return ctx, reg[prop], results


def replay(prop, path):
    """re-run the rule instance recorded in a replay file on the current tree: exit 1 if the same
    finding (rule + function + construct) is still derived, 0 if it is gone"""
    try:
        rec = json.load(open(path))
        key = rec['finding']['key']
        ctx, spec, results = run_property(prop, 'quick')
    except AnalysisError as e:
        print('ANALYSIS-ERROR property=%s rule=%s site=%s reason=%s' % (prop, e.rule, e.site, e.reason))
        return 2
    except Exception:
        print('ANALYSIS-ERROR property=%s cannot replay %s' % (prop, path))
        traceback.print_exc()
        return 2
    for r in results:
        for f in r.findings:
            if f.key == key:
                print('%s:%s: [%s] %s' % (f.file, f.line, f.rule, f.message))
                print('VIOLATION property=%s replay=%s' % (prop, path))
                return 1
    print('replay %s: finding %s is no longer derived on the current tree' % (path, key))
    return 0


def main(argv=None):
    argv = argv or sys.argv[1:]
    if not argv:
        print('usage: check <property> [--tier quick|thorough]')
        return 2
    prop = argv[0]
    tier = os.environ.get('VERIF_TIER', 'quick')
    if '--tier' in argv:
        tier = argv[argv.index('--tier') + 1]
    if tier not in ('quick', 'thorough'):
        tier = 'quick'
    if '--replay' in argv:
        return replay(prop, argv[argv.index('--replay') + 1])
    t0 = time.time()
    try:
        ctx, spec, results = run_property(prop, tier)
    except AnalysisError as e:
        print('ANALYSIS-ERROR property=%s rule=%s site=%s reason=%s' % (prop, e.rule, e.site, e.reason))
        return 2
    except Exception:
        print('ANALYSIS-ERROR property=%s internal checker error' % prop)
        traceback.print_exc()
        return 2
    known = load_known()
    viol = []
    known_hits = []
    notes = 0
    unknowns = []
    print('== %s (%s tier): %d modules parsed, %d functions' % (prop, tier, len(ctx.model.files_parsed),
                                                               len(list(ctx.model.all_functions()))))
    for r in results:
        print('rule %-16s instances=%-4d holding=%-4d findings=%d unknown=%d  (floor %d)'
              % (r.rule, r.instances, r.holding, len(r.findings), len(r.unknowns), r.floor))
        for s in r.samples[:2]:
            print('    e.g. ' + str(s)[:200])
        for n in r.notes:
            notes += 1
            print('    NOTE: ' + n[:240])
        if r.instances < r.floor:
            unknowns.append((r.rule, 'instance floor', 'matched %d instances, fewer than the %d confirmed by hand' % (r.instances, r.floor)))
        for u in r.unknowns:
            unknowns.append((u.rule, u.site, u.reason))
        for f in r.findings:
            if f.severity != 'VIOLATION':
                continue
            if f.key in known and known[f.key].get('property', prop) in (prop, '*') or (f.key in known and prop in known[f.key].get('properties', [])):
                known_hits.append(f.key)
                print('KNOWN-FINDING: property=%s %s [%s]' % (prop, f.message[:300], f.key))
            else:
                viol.append(f)
    selftest = None
    if not unknowns:
        try:
            from . import mutate
            selftest = mutate.selftest(prop, tier)
        except ImportError:
            selftest = None
        if selftest is not None and selftest.get('failed'):
            for x in selftest['failed']:
                unknowns.append(('E6.selftest', x.get('mutant', '?'), x.get('why', 'self-test failed')))
    wall = time.time() - t0
    write_evidence(prop, tier, results, wall, len(viol), known_hits, spec['explanation'], spec['assumptions'],
                   extra_cov={'modules_parsed': ctx.model.files_parsed,
                              'functions_analysed': len(list(ctx.model.all_functions())),
                              'call_sites': getattr(ctx._eff, 'n_calls', None) if ctx._eff else None,
                              'call_sites_resolved_repo': getattr(ctx._eff, 'n_resolved', None) if ctx._eff else None,
                              'call_sites_library': getattr(ctx._eff, 'n_lib', None) if ctx._eff else None,
                              'unknown': [{'rule': a, 'site': b, 'reason': c} for a, b, c in unknowns]},
                   selftest=selftest)
    rc = 0
    for i, f in enumerate(viol):
        path = write_replay(prop, i, f)
        print('%s:%s: [%s] %s' % (f.file, f.line, f.rule, f.message))
        print('VIOLATION property=%s replay=%s' % (prop, path))
        rc = 1
    if rc == 0 and unknowns:
        for a, b, c in unknowns:
            print('ANALYSIS-ERROR property=%s rule=%s site=%s reason=%s' % (prop, a, b, c))
        rc = 2
    print('== %s: %s (%.2fs; %d obligations, %d discharged, %d known finding(s), %d note(s))'
          % (prop, {0: 'HOLDS', 1: 'VIOLATION', 2: 'ANALYSIS-ERROR'}[rc], wall,
             sum(r.instances for r in results), sum(r.holding for r in results), len(known_hits), notes))
    return rc


if __name__ == '__main__':
    sys.exit(main())
