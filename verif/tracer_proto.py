"""
E4 - tracer protocol model: recorder table, pullback table, dispatch expression.
Everything is extracted from /repo's current source; the frozen tables below
only hold *reasons* for classifying ops (no-pullback, view-mirroring, outside
the differentiable API).
"""
import ast
from .model import AnalysisError, dotted_name, norm, walk_no_nested

TRACER = 'algopy.tracer.tracer'
UTPM_MOD = 'algopy.utpm.utpm'

# recorder methods outside the differentiable API of C03/C05 (reason per entry)
OUTSIDE_API = {
    'zeros': 'Function.zeros: "misc/not well tested"; references unbound names shape/dtype/order -> raises NameError',
    'ones': 'Function.ones: same as zeros',
    'coeff_op': 'misc block "not well tested, if at all"; not in the property\'s API list',
    'init_UTPM_jacobian': 'misc block; records algopy.init_jacobian which does not exist -> raises AttributeError',
    'extract_UTPM_jacobian': 'misc block; records algopy.extract_jacobian which does not exist -> raises',
}

# ops whose node adjoint is a *view* of the parent's adjoint (xbar_from_x builds
# node.xbar = func(parent.xbar) when the forward value does not own its data),
# so a plain store into the parent's adjoint through the view is a self-assignment
VIEW_MIRRORING = {
    'getitem': 'basic indexing returns a view of the parent buffer',
    '__getitem__': 'same as getitem',
    'real': 'ndarray.real is a view',
    'imag': 'ndarray.imag is a view',
    'transpose': 'numpy.transpose returns a view',
    'reshape': 'numpy.reshape returns a view only for contiguous data (see R-pb-view)',
    'Id': 'identity node of an independent/constant',
}


class RecSite:
    def __init__(self, fi, call):
        self.fi = fi                # enclosing FuncInfo
        self.call = call
        self.callable_node = call.args[0] if call.args else None
        self.callable = dotted_name(self.callable_node) if self.callable_node is not None else None
        self.args_node = call.args[1] if len(call.args) > 1 else None
        self.kw = {k.arg: k.value for k in call.keywords}
        self.pos = []               # names / exprs of recorded positionals
        if isinstance(self.args_node, ast.List):
            self.pos = list(self.args_node.elts)
        self.fkwargs = {}
        fk = self.kw.get('Fkwargs')
        if isinstance(fk, ast.Dict):
            for k, v in zip(fk.keys, fk.values):
                if isinstance(k, ast.Constant):
                    self.fkwargs[k.value] = v

    @property
    def recorded_name(self):
        """func.__name__ of the recorded callable"""
        c = self.callable
        if c is None:
            return None
        return c.split('.')[-1]


def recorder_sites(model):
    """every `<X>.pushforward(<callable>, [..], ...)` call in tracer.py and
    globalfuncs.py whose receiver is Function / a Function-typed name"""
    out = []
    for modname in (TRACER, 'algopy.globalfuncs'):
        mi = model.module(modname)
        funcs = list(mi.functions.values())
        for ci in mi.classes.values():
            funcs.extend(ci.all_defs)
        for fi in funcs:
            for n in walk_no_nested(fi.node):
                if isinstance(n, ast.Call) and isinstance(n.func, ast.Attribute) and n.func.attr == 'pushforward':
                    recv = dotted_name(n.func.value)
                    if recv in ('Function', 'dtype', 'cls') and len(n.args) >= 2 and isinstance(n.args[1], ast.List):
                        out.append(RecSite(fi, n))
    return out


class PbInfo:
    def __init__(self, fi):
        self.fi = fi
        self.name = fi.name[3:]
        ps = fi.value_params()
        self.positional = [p for p in ps if p != 'out']
        self.has_out = 'out' in ps or 'out' in fi.kwonly
        self.required = [p for p in self.positional if p not in fi.defaults]
        self.optional = [p for p in self.positional if p in fi.defaults]
        self.vararg = fi.vararg
        self.kwarg = fi.kwarg


def pullback_table(model):
    ci = model.cls('UTPM')
    if ci is None:
        raise AnalysisError('E4.anchor', UTPM_MOD, 'class UTPM vanished')
    out = {}
    for c in model.mro('UTPM'):
        for name, fi in c.methods.items():
            if name.startswith('pb_') and name[3:] not in out:
                out[name[3:]] = PbInfo(fi)
    return out


def forward_arity(model, eff, opname):
    """number of outputs k of the forward op `opname` as the tracer sees it
    (tuple arity of UTPM.<opname>'s returns; 0 for setitem; 1 otherwise)."""
    if opname in ('setitem', '__setitem__'):
        return 0, None
    cand = [opname, '__%s__' % opname]
    for c in cand:
        fi = model.lookup_method('UTPM', c)
        if fi is not None:
            ar = set()
            for n in walk_no_nested(fi.node):
                if isinstance(n, ast.Return) and n.value is not None:
                    if isinstance(n.value, ast.Tuple):
                        ar.add(len(n.value.elts))
                    else:
                        ar.add(1)
            if len(ar) == 1:
                return ar.pop(), fi
            if not ar:
                return 1, fi
            return None, fi
    return 1, None


def dispatch_shape(model):
    """check the dispatch expression of Function.pullback and return its shape:
    how positional arguments and `out` are assembled."""
    fi = model.func(TRACER, 'Function.pullback')
    src = norm(fi.node)
    facts = {
        'name_from_func': "func_name = F.func.__name__" in src,
        'pb_prefix': ".pb_' + func_name" in src or '.pb_" + func_name' in src,
        'single': "args = [F.xbar] + args + [F.x]" in src,
        'multi': "args = list(F.xbar) + args + list(F.x)" in src,
        'out_kw': "kwargs = {'out': list(argsbar)}" in src,
        'fkwargs': "kwargs.update(F.kwargs)" in src,
        'call': "f(*args, **kwargs)" in src,
    }
    return fi, facts
