"""
E4 - tracer protocol model: recorder table, pullback table, dispatch expression.
Everything is extracted from /repo's current source; the frozen tables below
only hold *reasons* for classifying ops (no-pullback, view-mirroring, outside
the differentiable API).
"""
import ast
from .model import AnalysisError, dotted_name, norm, walk_no_nested

TRACER = 'algopy.tracer.tracer'
UTPM_MOD = 'algopy.utpm.utpm'

# recorder methods outside the differentiable API of C03/C05 (reason per entry)
OUTSIDE_API = {
    'zeros': 'Function.zeros: "misc/not well tested"; references unbound names shape/dtype/order -> raises NameError',
    'ones': 'Function.ones: same as zeros',
    'coeff_op': 'misc block "not well tested, if at all"; not in the property\'s API list',
    'init_UTPM_jacobian': 'misc block; records algopy.init_jacobian which does not exist -> raises AttributeError',
    'extract_UTPM_jacobian': 'misc block; records algopy.extract_jacobian which does not exist -> raises',
}

# ops whose node adjoint is a *view* of the parent's adjoint (xbar_from_x builds
# node.xbar = func(parent.xbar) when the forward value does not own its data),
# so a plain store into the parent's adjoint through the view is a self-assignment
VIEW_MIRRORING = {
    'getitem': 'basic indexing returns a view of the parent buffer',
    '__getitem__': 'same as getitem',
    'real': 'ndarray.real is a view',
    'imag': 'ndarray.imag is a view',
    'transpose': 'numpy.transpose returns a view',
    'reshape': 'numpy.reshape returns a view only for contiguous data (see R-pb-view)',
    'Id': 'identity node of an independent/constant',
}


class RecSite:
    def __init__(self, fi, call):
        self.fi = fi                # enclosing FuncInfo
        self.call = call
        self.callable_node = call.args[0] if call.args else None
        self.callable = dotted_name(self.callable_node) if self.callable_node is not None else None
        self.args_node = call.args[1] if len(call.args) > 1 else None
        self.kw = {k.arg: k.value for k in call.keywords}
        self.pos = []               # names / exprs of recorded positionals
        if isinstance(self.args_node, ast.List):
            self.pos = list(self.args_node.elts)
        self.fkwargs = {}
        fk = self.kw.get('Fkwargs')
        if isinstance(fk, ast.Dict):
            for k, v in zip(fk.keys, fk.values):
                if isinstance(k, ast.Constant):
                    self.fkwargs[k.value] = v

    @property
    def recorded_name(self):
        """func.__name__ of the recorded callable"""
        c = self.callable
        if c is None:
            return None
        return c.split('.')[-1]


def recorder_sites(model):
    """every `<X>.pushforward(<callable>, [..], ...)` call in tracer.py and
    globalfuncs.py whose receiver is Function / a Function-typed name"""
    out = []
    for modname in (TRACER, 'algopy.globalfuncs'):
        mi = model.module(modname)
        funcs = list(mi.functions.values())
        for ci in mi.classes.values():
            funcs.extend(ci.all_defs)
        for fi in funcs:
            if getattr(fi, 'recording_helper', False):
                continue        # expanded into its callers by Model._inline_recording_helpers
            for n in walk_no_nested(fi.node):
                if isinstance(n, ast.Call) and isinstance(n.func, ast.Attribute) and n.func.attr == 'pushforward':
                    recv = dotted_name(n.func.value)
                    if recv in ('Function', 'dtype', 'cls') and len(n.args) >= 2 and isinstance(n.args[1], ast.List):
                        out.append(RecSite(fi, n))
    return out


class PbInfo:
    def __init__(self, fi):
        self.fi = fi
        self.name = fi.name[3:]
        ps = fi.value_params()
        self.positional = [p for p in ps if p != 'out']
        self.has_out = 'out' in ps or 'out' in fi.kwonly
        self.required = [p for p in self.positional if p not in fi.defaults]
        self.optional = [p for p in self.positional if p in fi.defaults]
        self.vararg = fi.vararg
        self.kwarg = fi.kwarg


def pullback_table(model):
    ci = model.cls('UTPM')
    if ci is None:
        raise AnalysisError('E4.anchor', UTPM_MOD, 'class UTPM vanished')
    out = {}
    for c in model.mro('UTPM'):
        for name, fi in c.methods.items():
            if name.startswith('pb_') and name[3:] not in out:
                out[name[3:]] = PbInfo(fi)
    return out


def forward_arity(model, eff, opname):
    """number of outputs k of the forward op `opname` as the tracer sees it
    (tuple arity of UTPM.<opname>'s returns; 0 for setitem; 1 otherwise)."""
    if opname in ('setitem', '__setitem__'):
        return 0, None
    cand = [opname, '__%s__' % opname]
    for c in cand:
        fi = model.lookup_method('UTPM', c)
        if fi is not None:
            ar = set()
            for n in walk_no_nested(fi.node):
                if isinstance(n, ast.Return) and n.value is not None:
                    if isinstance(n.value, ast.Tuple):
                        ar.add(len(n.value.elts))
                    else:
                        ar.add(1)
            if len(ar) == 1:
                return ar.pop(), fi
            if not ar:
                return 1, fi
            return None, fi
    return 1, None


def _concat_parts(e):
    """flatten a string-building expression into parts: str constants and sub-expressions"""
    if isinstance(e, ast.BinOp) and isinstance(e.op, ast.Add):
        return _concat_parts(e.left) + _concat_parts(e.right)
    if isinstance(e, ast.JoinedStr):
        out = []
        for v in e.values:
            out.extend(_concat_parts(v.value if isinstance(v, ast.FormattedValue) else v))
        return out
    if isinstance(e, ast.BinOp) and isinstance(e.op, ast.Mod) and isinstance(e.left, ast.Constant) and isinstance(e.left.value, str):
        pieces = e.left.value.split('%s')
        vals = list(e.right.elts) if isinstance(e.right, ast.Tuple) else [e.right]
        out = []
        for i, pc in enumerate(pieces):
            out.append(ast.Constant(pc))
            if i < len(vals) and i < len(pieces) - 1:
                out.append(vals[i])
        return out
    return [e]


def _segments(e):
    """list-building expression -> [('elem'|'star', text)]; None if not a list display / concatenation"""
    if isinstance(e, ast.BinOp) and isinstance(e.op, ast.Add):
        a, b = _segments(e.left), _segments(e.right)
        return None if a is None or b is None else a + b
    if isinstance(e, (ast.List, ast.Tuple)):
        out = []
        for x in e.elts:
            if isinstance(x, ast.Starred):
                v = x.value
                if isinstance(v, ast.Call) and isinstance(v.func, ast.Name) and v.func.id in ('list', 'tuple') and len(v.args) == 1:
                    v = v.args[0]
                out.append(('star', norm(v)))
            else:
                out.append(('elem', norm(x)))
        return out
    if isinstance(e, ast.Call) and isinstance(e.func, ast.Name) and e.func.id in ('list', 'tuple') and len(e.args) == 1:
        return [('star', norm(e.args[0]))]
    if isinstance(e, ast.Name):
        return [('star', e.id)]
    return None


def dispatch_shape(model):
    """check the dispatch expression of Function.pullback structurally and return its shape:
      name_from_func  the pullback name is derived from the recorded callable's __name__
      pb_prefix       ... by prefixing 'pb_' (in Function.pullback or a module-level helper it calls with that name)
      single / multi  positional arguments = [node adjoint(s)] + recorded arguments + [node value(s)]
      out_kw          the parents' adjoints are passed as keyword `out`
      fkwargs         the recorded keyword arguments are forwarded
      call            the looked-up function is called with exactly these positionals/keywords"""
    fi = model.func(TRACER, 'Function.pullback')
    node = fi.node
    node_param = fi.params[1] if len(fi.params) > 1 and fi.params[0] in ('cls', 'self') else fi.params[0]
    F = node_param
    # names holding <F>.func.__name__
    name_vars = set()
    for st in walk_no_nested(node):
        if isinstance(st, ast.Assign) and len(st.targets) == 1 and isinstance(st.targets[0], ast.Name) \
                and norm(st.value) == '%s.func.__name__' % F:
            name_vars.add(st.targets[0].id)

    def is_name_expr(e):
        return (isinstance(e, ast.Name) and e.id in name_vars) or norm(e) == '%s.func.__name__' % F

    def has_prefix(fn_node, pred):
        for e in ast.walk(fn_node):
            if isinstance(e, (ast.BinOp, ast.JoinedStr)):
                parts = _concat_parts(e)
                for a, b in zip(parts, parts[1:]):
                    if isinstance(a, ast.Constant) and isinstance(a.value, str) and a.value.endswith('pb_') and pred(b):
                        return True
        return False

    pb_prefix = has_prefix(node, is_name_expr)
    if not pb_prefix:
        # helper in the same module called with the name
        mi = model.module(TRACER)
        for c in ast.walk(node):
            if isinstance(c, ast.Call) and isinstance(c.func, ast.Name) and c.func.id in mi.functions:
                h = mi.functions[c.func.id]
                for i, a in enumerate(c.args):
                    if is_name_expr(a) and i < len(h.params):
                        pn = h.params[i]
                        if has_prefix(h.node, lambda b, pn=pn: isinstance(b, ast.Name) and b.id == pn):
                            pb_prefix = True
    single = multi = False
    arg_lists = set()
    for st in walk_no_nested(node):
        if isinstance(st, ast.Assign) and len(st.targets) == 1 and isinstance(st.targets[0], ast.Name):
            seg = _segments(st.value)
            if seg and len(seg) == 3 and seg[1][0] == 'star':
                if seg[0] == ('elem', F + '.xbar') and seg[2] == ('elem', F + '.x'):
                    single = True
                    arg_lists.add(st.targets[0].id)
                if seg[0] == ('star', F + '.xbar') and seg[2] == ('star', F + '.x'):
                    multi = True
                    arg_lists.add(st.targets[0].id)
    out_kw = fkwargs = call = False
    dicts = {}
    for st in walk_no_nested(node):
        if isinstance(st, ast.Assign) and len(st.targets) == 1 and isinstance(st.targets[0], ast.Name) and isinstance(st.value, ast.Dict):
            dicts[st.targets[0].id] = st.value
    for c in walk_no_nested(node):
        if not (isinstance(c, ast.Call) and isinstance(c.func, ast.Name)):
            continue
        if not (len(c.args) == 1 and isinstance(c.args[0], ast.Starred) and isinstance(c.args[0].value, ast.Name)
                and c.args[0].value.id in arg_lists):
            continue
        call = True
        for kw in c.keywords:
            if kw.arg == 'out':
                out_kw = True
            elif kw.arg is None:
                if norm(kw.value) == F + '.kwargs':
                    fkwargs = True
                elif isinstance(kw.value, ast.Name) and kw.value.id in dicts:
                    d = dicts[kw.value.id]
                    for k_, v_ in zip(d.keys, d.values):
                        if k_ is None and norm(v_) == F + '.kwargs':
                            fkwargs = True
                        if isinstance(k_, ast.Constant) and k_.value == 'out':
                            out_kw = True
                    for u in walk_no_nested(node):
                        if isinstance(u, ast.Call) and isinstance(u.func, ast.Attribute) and u.func.attr == 'update' \
                                and norm(u.func.value) == kw.value.id and u.args and norm(u.args[0]) == F + '.kwargs':
                            fkwargs = True
    facts = {
        'name_from_func': bool(name_vars) or pb_prefix,
        'pb_prefix': pb_prefix,
        'single': single,
        'multi': multi,
        'out_kw': out_kw,
        'fkwargs': fkwargs,
        'call': call,
    }
    return fi, facts


def _selects_utpm_namespace(model, fi, call):
    """`H(P, ...)` with H a module-level function of the dispatcher's module that returns the namespace implementing an
    operation for its arguments: every return value is a bare name, and `UTPM` is among them (directly, or as the variable of a
    loop over a tuple of classes that contains UTPM) under an isinstance test of a parameter"""
    if model is None or not (isinstance(call, ast.Call) and isinstance(call.func, ast.Name) and call.args):
        return False
    r = model.resolve_dotted(fi.module, call.func.id)
    if r is None or r[0] != 'func':
        return False
    h = r[1]
    rets = [n for n in walk_no_nested(h.node) if isinstance(n, ast.Return)]
    if not rets or not all(isinstance(x.value, ast.Name) for x in rets):
        return False
    loops = {}
    for n in walk_no_nested(h.node):
        if isinstance(n, ast.For) and isinstance(n.target, ast.Name) and isinstance(n.iter, (ast.Tuple, ast.List)) \
                and all(isinstance(e, ast.Name) for e in n.iter.elts):
            loops[n.target.id] = [e.id for e in n.iter.elts]
        # a table of (class, namespace) rows: `for kind, namespace in ((UTPM, UTPM), (Function, Function), (numpy.ndarray, utils))`
        if isinstance(n, ast.For) and isinstance(n.target, ast.Tuple) and all(isinstance(t, ast.Name) for t in n.target.elts) \
                and isinstance(n.iter, (ast.Tuple, ast.List)) and n.iter.elts \
                and all(isinstance(row, (ast.Tuple, ast.List)) and len(row.elts) == len(n.target.elts) for row in n.iter.elts):
            for j, t in enumerate(n.target.elts):
                col = [row.elts[j] for row in n.iter.elts]
                if all(isinstance(e, (ast.Name, ast.Attribute)) for e in col):
                    loops[t.id] = [e.id if isinstance(e, ast.Name) else (dotted_name(e) or '?') for e in col]
    names = set()
    for x in rets:
        names |= set(loops.get(x.value.id, [x.value.id]))
    return 'UTPM' in names


def _ifexp_leaves(e):
    """names at the leaves of a (nested) conditional expression; [] if a leaf is not a bare name"""
    if isinstance(e, ast.IfExp):
        a, b = _ifexp_leaves(e.body), _ifexp_leaves(e.orelse)
        return a + b if a and b else []
    return [e.id] if isinstance(e, ast.Name) else []


def class_dispatch_targets(fi, model=None):
    """method names a dispatcher function reaches on the class of one of its arguments (or on UTPM explicitly):
        P.__class__.NAME(...)   type(P).NAME(...)   getattr(P.__class__, 'NAME')(...)   UTPM.NAME(...)   P.NAME(...)
        H(P, ..).NAME(...) with H a namespace-selecting helper (needs the model)
    -> {NAME: [call nodes]}; P must be a parameter of the dispatcher (or a name bound from one by a loop over *args)"""
    params = set(fi.params) | set(fi.kwonly) | ({fi.vararg} if fi.vararg else set())
    for n in walk_no_nested(fi.node):
        if isinstance(n, ast.For) and isinstance(n.target, ast.Name) and any(isinstance(x, ast.Name) and x.id in params for x in ast.walk(n.iter)):
            params.add(n.target.id)
        if isinstance(n, ast.For) and isinstance(n.target, ast.Tuple):
            for e in n.target.elts:
                if isinstance(e, ast.Name) and any(isinstance(x, ast.Name) and x.id in params for x in ast.walk(n.iter)):
                    params.add(e.id)

    def cls_of_param(e):
        if isinstance(e, ast.Attribute) and e.attr == '__class__' and isinstance(e.value, ast.Name) and e.value.id in params:
            return e.value.id
        if isinstance(e, ast.Attribute) and e.attr == '__class__' and isinstance(e.value, ast.Subscript) \
                and isinstance(e.value.value, ast.Name) and e.value.value.id in params:
            return e.value.value.id
        if isinstance(e, ast.Call) and isinstance(e.func, ast.Name) and e.func.id == 'type' and len(e.args) == 1 \
                and isinstance(e.args[0], ast.Name) and e.args[0].id in params:
            return e.args[0].id
        return None

    out = {}
    for c in walk_no_nested(fi.node):
        if not isinstance(c, ast.Call):
            continue
        f = c.func
        if isinstance(f, ast.Attribute):
            if cls_of_param(f.value) is not None or (isinstance(f.value, ast.Name) and f.value.id == 'UTPM'):
                out.setdefault(f.attr, []).append(c)
            elif isinstance(f.value, ast.Name) and f.value.id in params:
                out.setdefault(f.attr, []).append(c)
            elif isinstance(f.value, ast.IfExp) and 'UTPM' in _ifexp_leaves(f.value) \
                    and any(isinstance(x, ast.Name) and x.id in params for x in ast.walk(f.value.test)):
                # (Function if <test of P> else UTPM if <test of P> else numpy).NAME(...)
                out.setdefault(f.attr, []).append(c)
            elif _selects_utpm_namespace(model, fi, f.value) and any(isinstance(a, ast.Name) and a.id in params for a in f.value.args):
                out.setdefault(f.attr, []).append(c)
        elif isinstance(f, ast.Call) and isinstance(f.func, ast.Name) and f.func.id == 'getattr' and len(f.args) >= 2 \
                and isinstance(f.args[1], ast.Constant) and isinstance(f.args[1].value, str) \
                and (cls_of_param(f.args[0]) is not None or (isinstance(f.args[0], ast.Name) and f.args[0].id in ({'UTPM'} | params))):
            out.setdefault(f.args[1].value, []).append(c)
    return out
