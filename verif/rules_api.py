"""
Rules on the public API surface: derivative drivers (C04), recording overloads
(C05), read-only arguments (C14).
"""
import ast
from .core import Finding, RuleResult
from .model import AnalysisError, dotted_name, norm, walk_no_nested, seq_iteration, true_line
from . import tracer_proto as tp
from .effects import flat

TRACER = tp.TRACER

DRIVERS = {
    # name: (reverse sweep?, parameters that must reach the forward seed, parameters that must reach the adjoint seed)
    'gradient': (True, ['x'], []),
    'jacobian': (True, ['x'], []),
    'jac_vec': (False, ['x', 'v'], []),
    'vec_jac': (True, ['x'], ['w']),
    'hessian': (True, ['x'], []),
    'hess_vec': (True, ['x', 'v'], []),
    'vec_hess': (True, ['x'], ['w']),
    'vec_hess_vec': (True, ['x', 'v'], ['w']),
}


def _f(fi):
    return fi.fq


def _paths(body):
    """enumerate straight-line paths through if/else structure: list of lists of
    simple statements; loops/try are kept as single statements."""
    paths = [[]]
    for st in body:
        if isinstance(st, ast.If):
            a = _paths(st.body)
            b = _paths(st.orelse) if st.orelse else [[]]
            new = []
            for p in paths:
                if p and isinstance(p[-1], (ast.Return, ast.Raise)):
                    new.append(p)
                    continue
                for q in a:
                    new.append(p + [('test', st.test, True)] + q)
                for q in b:
                    new.append(p + [('test', st.test, False)] + q)
            paths = new
        elif isinstance(st, ast.Try) and any(isinstance(n, ast.Return) for n in ast.walk(st)):
            # a try statement that can return: either its body runs to the end, or a handler takes over
            alts = _paths(st.body + st.orelse)
            for h in st.handlers:
                alts += _paths(h.body)
            fin = _paths(st.finalbody) if st.finalbody else [[]]
            new = []
            for p in paths:
                if p and isinstance(p[-1], (ast.Return, ast.Raise)):
                    new.append(p)
                    continue
                for q in alts:
                    for f_ in fin:
                        new.append(p + q + ([] if q and isinstance(q[-1], (ast.Return, ast.Raise)) else f_))
            paths = new
        else:
            new = []
            for p in paths:
                if p and isinstance(p[-1], (ast.Return, ast.Raise)):
                    new.append(p)
                else:
                    new.append(p + [st])
            paths = new
    return paths


def _self_calls(node, attr):
    return [c for c in ast.walk(node) if isinstance(c, ast.Call) and isinstance(c.func, ast.Attribute)
            and c.func.attr == attr and isinstance(c.func.value, ast.Name) and c.func.value.id == 'self']


SWEEPS = ('pushforward', 'pullback')


def _helper_of(m, call):
    """`self.<h>(...)` with h a method of CGraph that is neither a sweep nor a driver -> FuncInfo"""
    if isinstance(call.func, ast.Attribute) and isinstance(call.func.value, ast.Name) and call.func.value.id == 'self':
        a = call.func.attr
        if a in SWEEPS or a in DRIVERS:
            return None
        return m.lookup_method('CGraph', a)
    return None


def _stmt_sweeps(m, node, depth=0):
    """sweep events of one statement in evaluation order: [(kind, call node, helper chain)].  A helper method of
    CGraph contributes an event of a kind only when *every* returning path of the helper performs it (must-call)."""
    ev = []
    calls = [c for c in ast.walk(node) if isinstance(c, ast.Call)]
    calls.sort(key=lambda c: (c.end_lineno, c.end_col_offset))       # inner calls complete first
    for c in calls:
        if isinstance(c.func, ast.Attribute) and c.func.attr in SWEEPS and isinstance(c.func.value, ast.Name) and c.func.value.id == 'self':
            ev.append((c.func.attr, c, ()))
            continue
        h = _helper_of(m, c) if depth < 3 else None
        if h is None:
            continue
        seqs = []
        for path in _paths(h.node.body):
            stmts = [s for s in path if not isinstance(s, tuple)]
            if stmts and isinstance(stmts[-1], ast.Raise):
                continue
            seq = []
            for st in path:
                seq.extend(k for k, _, _ in _stmt_sweeps(m, st[1] if isinstance(st, tuple) else st, depth + 1))
            seqs.append(seq)
        if not seqs:
            continue
        common = [k for k in SWEEPS if all(k in q for q in seqs)]
        common.sort(key=lambda k: max(q.index(k) for q in seqs))
        # order inside the helper is reliable only if it is the same on all paths
        if len(common) == 2 and len({tuple(x for x in q if x in common)[:2] for q in seqs}) != 1:
            common = ['pullback', 'pushforward']      # pessimistic: reported as wrong order by the caller
        for k in common:
            ev.append((k, c, (h.qualname,)))
    return ev


def _early_reads(m, node, depth=0):
    out = []
    for a in ast.walk(node):
        if isinstance(a, ast.Attribute) and a.attr in ('x', 'xbar') and isinstance(a.ctx, ast.Load) \
                and 'FunctionList' in norm(a.value):
            out.append(a)
        if isinstance(a, ast.Call) and depth < 3:
            h = _helper_of(m, a)
            if h is not None:
                out.extend(_early_reads(m, h.node, depth + 1))
    return out


def _reads_bar(node, names):
    return any((isinstance(a, ast.Attribute) and a.attr == 'xbar') or (isinstance(a, ast.Name) and a.id in names) for a in ast.walk(node))


def _reads_x(node, names):
    return any((isinstance(a, ast.Attribute) and a.attr == 'x' and 'dependentFunctionList' in norm(a.value))
               or (isinstance(a, ast.Name) and a.id in names) for a in ast.walk(node))


def rule_drv_order(ctx):
    r = RuleResult('R-drv-order', 'on every returning path of each derivative driver: forward evaluation, then (reverse '
                                  'drivers) the reverse sweep, then the read of xbar / x that forms the result; value-carrying '
                                  'graph state is not read before the forward evaluation (sweeps are followed through helper '
                                  'methods of CGraph that perform them on all their paths)')
    m = ctx.model
    for name, (rev, _, _) in sorted(DRIVERS.items()):
        fi = m.func(TRACER, 'CGraph.' + name)
        n_paths = 0
        for path in _paths(fi.node.body):
            stmts = [s for s in path if not isinstance(s, tuple)]
            if not stmts or not isinstance(stmts[-1], ast.Return):
                continue        # raising path or fall-through
            n_paths += 1
            pf = pb = None
            early = []
            seq = []
            bar_names, x_names = set(), set()
            for i, st in enumerate(path):
                node = st[1] if isinstance(st, tuple) else st
                if pf is None:
                    pre = []
                    evs = _stmt_sweeps(m, node)
                    if not any(k == 'pushforward' for k, _, _ in evs):
                        pre = _early_reads(m, node)
                    early.extend(pre)
                had_pf, had_pb = pf is not None, pb is not None
                for k, c, chain in _stmt_sweeps(m, node):
                    seq.append(k)
                    if k == 'pushforward' and pf is None:
                        pf = len(seq)
                    if k == 'pullback' and pb is None:
                        pb = len(seq)
                # locals that hold the result: `xbar = self.independentFunctionList[0].xbar` after the reverse sweep,
                # `y = self.dependentFunctionList[0].x` after the forward evaluation
                if isinstance(node, ast.Assign) and not isinstance(st, tuple):
                    tg = [t_.id for t_ in node.targets if isinstance(t_, ast.Name)]
                    if had_pb and _reads_bar(node.value, bar_names):
                        bar_names.update(tg)
                    else:
                        bar_names.difference_update(tg)
                    if had_pf and _reads_x(node.value, x_names):
                        x_names.update(tg)
                    else:
                        x_names.difference_update(tg)
            ret = stmts[-1]
            reads_bar = _reads_bar(ret, bar_names)
            reads_x = _reads_x(ret, x_names)
            key = '%s:path%d' % (name, n_paths)
            probs = []
            if pf is None:
                probs.append('no forward evaluation (self.pushforward) before the result is returned')
            if rev and pb is None:
                probs.append('no reverse sweep (self.pullback) before the result is returned')
            if rev and pf is not None and pb is not None and not pf < pb:
                probs.append('reverse sweep precedes the forward evaluation')
            if rev and not reads_bar:
                probs.append('the returned expression does not read the independents\' xbar')
            if not rev and not reads_x:
                probs.append('the returned expression does not read the dependent\'s forward value')
            for a in early:
                # value reads before the forward evaluation: only shape information is allowed
                par = _parent_attr(fi.node, a)
                if par is None:
                    for hf in m.cls('CGraph').all_defs:
                        par = par or _parent_attr(hf.node, a)
                if par not in ('ndim', 'size', 'shape'):
                    probs.append('graph state `%s` is read before the forward evaluation (stale: previous evaluation / recording)' % norm(a))
            if probs:
                for pmsg in probs:
                    r.bad(Finding('R-drv-order', _f(fi), name + ':' + pmsg[:60], 'CGraph.%s: %s' % (name, pmsg), fi.file, ret.lineno))
            else:
                r.ok(construct=key, nontrivial=True,
                     sample='CGraph.%s path %d: sweep sequence %s -> `%s`' % (name, n_paths, seq, norm(ret)[:90]))
        if n_paths == 0:
            r.unknown(fi.site(), 'no returning path found in driver')
    r.floor = 9
    return r


def _parent_attr(fn, node):
    for n in ast.walk(fn):
        if isinstance(n, ast.Attribute) and n.value is node:
            return n.attr
    return None


def _store_bases(t):
    """names of the arrays a store through expression t (subscripts, attributes, views) writes into"""
    base = t
    while True:
        if isinstance(base, (ast.Subscript, ast.Attribute)):
            base = base.value
        elif isinstance(base, ast.Call) and isinstance(base.func, ast.Attribute) \
                and base.func.attr in ('reshape', 'transpose', 'view', 'ravel', 'swapaxes', 'squeeze'):
            base = base.func.value
        else:
            break
    return [base.id] if isinstance(base, ast.Name) else []


def _arm_conflict(fi, a, b):
    """a and b sit in different arms of one if statement (they never execute together)"""
    from .rules_tracer import _guards
    ga = {id(t): br for t, br in _guards(fi, a)}
    gb = {id(t): br for t, br in _guards(fi, b)}
    return any(k in gb and gb[k] != v for k, v in ga.items())


def _reaching_names(fi, expr_nodes, upto_line):
    """names (params and locals) that may flow into the given expressions through
    local assignments / in-place stores that textually precede `upto_line` and are not in another arm of an enclosing if"""
    assigns = []
    anchor = expr_nodes[0] if expr_nodes else None
    for st in walk_no_nested(fi.node):
        if anchor is not None and isinstance(st, (ast.Assign, ast.AugAssign, ast.For, ast.Expr)) and _arm_conflict(fi, st, anchor):
            continue
        if isinstance(st, ast.Assign):
            for t in st.targets:
                base = t
                while True:
                    if isinstance(base, (ast.Subscript, ast.Attribute)):
                        base = base.value
                    elif isinstance(base, ast.Call) and isinstance(base.func, ast.Attribute) \
                            and base.func.attr in ('reshape', 'transpose', 'view', 'ravel', 'swapaxes', 'squeeze'):
                        base = base.func.value      # a store through a view of the array
                    else:
                        break
                if isinstance(base, ast.Name):
                    assigns.append((st.lineno, base.id, st.value))
                elif isinstance(base, (ast.Tuple, ast.List)):
                    for e in base.elts:
                        if isinstance(e, ast.Name):
                            assigns.append((st.lineno, e.id, st.value))
        elif isinstance(st, ast.AugAssign):
            base = st.target
            while isinstance(base, (ast.Subscript, ast.Attribute)):
                base = base.value
            if isinstance(base, ast.Name):
                assigns.append((st.lineno, base.id, st.value))
        elif isinstance(st, ast.For):
            for e in ast.walk(st.target):
                if isinstance(e, ast.Name):
                    assigns.append((st.lineno, e.id, st.iter))
        elif isinstance(st, ast.Expr) and isinstance(st.value, ast.Call) and isinstance(st.value.func, ast.Attribute) \
                and st.value.func.attr in ('append', 'extend') and isinstance(st.value.func.value, ast.Name):
            for a in st.value.args:
                assigns.append((st.lineno, st.value.func.value.id, a))
        elif isinstance(st, ast.Expr) and isinstance(st.value, ast.Call) and (dotted_name(st.value.func) or '') in ('numpy.copyto', 'numpy.put', 'numpy.place') \
                and len(st.value.args) >= 2:
            # numpy.copyto(dst_view, src): a store of src into (a view of) dst
            for b_ in _store_bases(st.value.args[0]):
                assigns.append((st.lineno, b_, st.value.args[1]))
        elif isinstance(st, ast.Expr) and isinstance(st.value, ast.Call) and any(k.arg == 'out' for k in st.value.keywords):
            o_ = [k.value for k in st.value.keywords if k.arg == 'out'][0]
            for b_ in _store_bases(o_):
                for a in st.value.args:
                    assigns.append((st.lineno, b_, a))
    # a local that names a view of an array (`v = base.reshape(..)`, `v = base[...]`): what is stored through the view is stored in the base
    view_of = {}
    for st in walk_no_nested(fi.node):
        if isinstance(st, ast.Assign) and len(st.targets) == 1 and isinstance(st.targets[0], ast.Name):
            v = st.value
            b = None
            if isinstance(v, ast.Call) and isinstance(v.func, ast.Attribute) and v.func.attr in ('reshape', 'transpose', 'view', 'ravel', 'swapaxes', 'squeeze') \
                    and isinstance(v.func.value, ast.Name):
                b = v.func.value.id
            elif isinstance(v, ast.Subscript) and isinstance(v.value, ast.Name):
                b = v.value.id
            elif isinstance(v, ast.Attribute) and v.attr in ('T', 'data', 'real', 'imag') and isinstance(v.value, ast.Name):
                b = v.value.id
            if b is not None and b != st.targets[0].id:
                view_of[st.targets[0].id] = b
    for (ln, nm, val) in list(assigns):
        seen_v = set()
        cur_ = nm
        while cur_ in view_of and cur_ not in seen_v:
            seen_v.add(cur_)
            cur_ = view_of[cur_]
            if isinstance(val, ast.AST) and not (isinstance(val, ast.Call) and isinstance(val.func, ast.Attribute) and val.func.attr in ('reshape', 'transpose', 'view', 'ravel', 'swapaxes', 'squeeze')
                                                 and isinstance(val.func.value, ast.Name) and val.func.value.id == cur_):
                assigns.append((ln, cur_, val))

    def value_names(e):
        """names whose *values* flow into e: a name that only occurs under .shape/.size/.ndim/.dtype, numpy.shape(..), len(..),
        numpy.zeros_like(..) / empty_like contributes its shape, not its value"""
        out = []
        skip = set()
        for n in ast.walk(e):
            if isinstance(n, ast.Attribute) and n.attr in ('shape', 'size', 'ndim', 'dtype'):
                skip |= {id(x) for x in ast.walk(n.value)}
            if isinstance(n, ast.Call) and (dotted_name(n.func) or '').split('.')[-1] in ('shape', 'len', 'ndim', 'size', 'zeros_like', 'empty_like', 'isscalar', 'isinstance'):
                for a in n.args:
                    skip |= {id(x) for x in ast.walk(a)}
        for n in ast.walk(e):
            if isinstance(n, ast.Name) and id(n) not in skip:
                out.append(n.id)
        return out

    seen = set()
    todo = []
    for e in expr_nodes:
        todo.extend(value_names(e))
    while todo:
        n = todo.pop()
        if n in seen:
            continue
        seen.add(n)
        for ln, tgt, val in assigns:
            if tgt == n and ln <= upto_line:
                for x in value_names(val):
                    if x not in seen:
                        todo.append(x)
    return seen


def _bind_args(h, call):
    """parameter name -> argument expression of `self.h(...)` (self excluded)"""
    params = [p for p in h.params if p != 'self']
    out = {}
    for i, a in enumerate(call.args):
        if i < len(params) and not isinstance(a, ast.Starred):
            out[params[i]] = a
    for kw in call.keywords:
        if kw.arg:
            out[kw.arg] = kw.value
    return out


def _seed_sites(ctx, fi, kind, depth=0):
    """sweep calls of `kind` made by fi directly or through helper methods of CGraph:
    [(call node in fi, expressions in fi that flow into the seed, description, seed roots in fi's root space or None)]"""
    m, eff = ctx.model, ctx.effects
    out = []
    for c in [n for n in ast.walk(fi.node) if isinstance(n, ast.Call)]:
        if isinstance(c.func, ast.Attribute) and c.func.attr == kind and isinstance(c.func.value, ast.Name) and c.func.value.id == 'self':
            info = eff.sums[fi].callargs.get(id(c))
            roots = None
            if info is not None:
                roots = set()
                for a in info[1]:
                    roots |= flat(a)
            out.append((c, list(c.args) + [k.value for k in c.keywords], norm(c), roots))
            continue
        h = _helper_of(m, c) if depth < 3 else None
        if h is None:
            continue
        bound = _bind_args(h, c)
        info = eff.sums[fi].callargs.get(id(c))
        for ic, iexprs, idesc, iroots in _seed_sites(ctx, h, kind, depth + 1):
            reach = _reaching_names(h, iexprs, ic.lineno)
            exprs = [e for p, e in bound.items() if p in reach]
            roots = None
            if iroots is not None:
                roots = set()
                for x in iroots:
                    if x[0] == 'p' and x[1] != 'self':
                        # helper parameter: the driver's argument decides
                        e = bound.get(x[1])
                        if e is not None and info is not None:
                            params = [p for p in h.params if p != 'self']
                            try:
                                roots |= flat(info[1][params.index(x[1])])
                            except (ValueError, IndexError):
                                roots.add(('p', 'self'))
                        elif e is not None:
                            roots.add(('p', 'self'))
                    else:
                        roots.add(x)
            out.append((c, exprs, '%s -> %s' % (norm(c), idesc), roots))
    return out


def rule_drv_flow(ctx):
    r = RuleResult('R-drv-flow', 'in each driver the point x and every supplied vector reach the forward seed '
                                 '(argument of self.pushforward) resp. the adjoint seed (argument of self.pullback), directly or '
                                 'through a helper method of CGraph; the adjoint seed is freshly allocated, not taken from '
                                 'recording-time objects')
    m = ctx.model
    for name, (rev, fwd_params, bar_params) in sorted(DRIVERS.items()):
        fi = m.func(TRACER, 'CGraph.' + name)
        pfs = _seed_sites(ctx, fi, 'pushforward')
        pbs = _seed_sites(ctx, fi, 'pullback')
        if not pfs:
            r.unknown(fi.site(), 'driver without self.pushforward call')
            continue
        for c, exprs, desc, _ in pfs:
            reach = _reaching_names(fi, exprs, c.lineno)
            for p in fwd_params:
                if p not in fi.params:
                    r.unknown(fi.site(), 'driver parameter `%s` vanished' % p)
                elif p in reach:
                    r.ok(construct='%s:%s->pushforward@%d' % (name, p, c.lineno), nontrivial=True,
                         sample='CGraph.%s: parameter `%s` reaches `%s`' % (name, p, desc))
                else:
                    r.bad(Finding('R-drv-flow', _f(fi), '%s:%s-not-in-forward-seed' % (name, p),
                                  'CGraph.%s: parameter `%s` does not flow into the forward seed `%s`: the result cannot depend on it'
                                  % (name, p, desc), fi.file, c.lineno))
        for c, exprs, desc, roots in pbs:
            reach = _reaching_names(fi, exprs, c.lineno)
            for p in bar_params:
                if p in reach:
                    r.ok(construct='%s:%s->pullback@%d' % (name, p, c.lineno), nontrivial=True,
                         sample='CGraph.%s: parameter `%s` reaches `%s`' % (name, p, desc))
                else:
                    r.bad(Finding('R-drv-flow', _f(fi), '%s:%s-not-in-adjoint-seed' % (name, p),
                                  'CGraph.%s: vector `%s` does not flow into the adjoint seed `%s`' % (name, p, desc), fi.file, c.lineno))
            # the adjoint seed is given a value: a store into the coefficient array of the seed precedes the sweep
            seed_names = {n.id for e in exprs for n in ast.walk(e) if isinstance(n, ast.Name)} | \
                         {n.id for a in (list(c.args) + [k.value for k in c.keywords]) for n in ast.walk(a) if isinstance(n, ast.Name)}
            holder = fi
            hcall = c
            inner = [h for h in [_helper_of(m, c)] if h is not None]
            if inner:
                holder = inner[0]
                seed_names = {n.id for cc in ast.walk(holder.node) if isinstance(cc, ast.Call) and isinstance(cc.func, ast.Attribute) and cc.func.attr == 'pullback'
                              for a in cc.args for n in ast.walk(a) if isinstance(n, ast.Name)}
            stores = [st for st in walk_no_nested(holder.node) if isinstance(st, (ast.Assign, ast.AugAssign))
                      and any(isinstance(t, ast.Subscript) and any(isinstance(b, ast.Name) and b.id in seed_names for b in ast.walk(t.value))
                              for t in (st.targets if isinstance(st, ast.Assign) else [st.target]))]
            stores += [st for st in walk_no_nested(holder.node) if isinstance(st, ast.Expr) and isinstance(st.value, ast.Call)
                       and (((dotted_name(st.value.func) or '') in ('numpy.copyto', 'numpy.put') and st.value.args and set(_store_bases(st.value.args[0])) & seed_names)
                            or any(k.arg == 'out' and set(_store_bases(k.value)) & seed_names for k in st.value.keywords))]
            direct = [n_ for n_ in seed_names if n_ in fi.params]
            if stores or (direct and holder is fi):
                r.ok(construct='%s:seed-set@%d' % (name, c.lineno), sample='CGraph.%s: the adjoint seed is written by `%s`' % (name, norm(stores[0])[:60] if stores else direct[0]))
            else:
                r.bad(Finding('R-drv-flow', _f(fi), '%s:seed-unset' % name, 'CGraph.%s: the adjoint seed passed to the reverse sweep is allocated but never '
                                                                            'given a value (all-zero seed: every derivative comes out zero)' % name, fi.file, c.lineno))
            # seed freshness via E1
            if roots is not None:
                stale = [x for x in roots if x[0] == 'p' and x[1] == 'self']
                if stale:
                    # zeros_like of graph state is fresh; direct aliasing of graph state is not
                    r.bad(Finding('R-drv-flow', _f(fi), '%s:seed-aliases-graph' % name,
                                  'CGraph.%s: the adjoint seed passed to self.pullback may alias graph state (not freshly allocated)' % name,
                                  fi.file, c.lineno))
                else:
                    r.ok(construct='%s:seed-fresh@%d' % (name, c.lineno), nontrivial=True,
                         sample='CGraph.%s: adjoint seed roots %s (fresh)' % (name, sorted(roots)))
    r.floor = 20
    return r


def _layout_of(expr_or_stmt, P='P', M='M'):
    """layout of the combined (direction, output-row) axis produced/consumed by a construct:
    'BLOCK'       index j <-> (p, m) = (j // M, j % M)   (p outer)
    'INTERLEAVED' index j <-> (p, m) = (j % P, j // P)   (m outer)
    None: not recognised.  Slice bounds are compared with p*M:(p+1)*M resp. m*P:(m+1)*P by evaluating them for several
    integer valuations of (loop variable, M, P) - `p*M:p*M+M` and `(p+1)*M-M:...` are the same slice."""
    n = expr_or_stmt
    Pset = {P} if isinstance(P, str) else set(P)       # several names may hold the number of directions (`D, P = x.data.shape[:2]` twice)
    P = sorted(Pset)[0]

    def ev(e, env):
        if isinstance(e, ast.Constant) and isinstance(e.value, int):
            return e.value
        if isinstance(e, ast.Name) and e.id in env:
            return env[e.id]
        if isinstance(e, ast.BinOp) and isinstance(e.op, (ast.Add, ast.Sub, ast.Mult)):
            a_, b_ = ev(e.left, env), ev(e.right, env)
            return a_ + b_ if isinstance(e.op, ast.Add) else (a_ - b_ if isinstance(e.op, ast.Sub) else a_ * b_)
        raise KeyError(norm(e))

    for sub in ast.walk(n):
        if isinstance(sub, ast.Slice) and sub.lower is not None and sub.upper is not None:
            names = {x.id for x in ast.walk(sub) if isinstance(x, ast.Name)} - Pset - {M}
            if len(names) != 1:
                continue
            v = names.pop()
            block = inter = True
            try:
                for vv, mm, pp in ((0, 2, 3), (1, 2, 3), (2, 3, 5), (3, 4, 2), (1, 5, 7)):
                    env = {v: vv, M: mm}
                    env.update({p_: pp for p_ in Pset})
                    lo, hi = ev(sub.lower, env), ev(sub.upper, env)
                    block = block and (lo, hi) == (vv * mm, (vv + 1) * mm)
                    inter = inter and (lo, hi) == (vv * pp, (vv + 1) * pp)
            except KeyError:
                continue
            if block and not inter:
                return 'BLOCK'
            if inter and not block:
                return 'INTERLEAVED'
    for c in ast.walk(n):
        if isinstance(c, ast.Call):
            d = dotted_name(c.func) or ''
            last = c.func.attr if isinstance(c.func, ast.Attribute) else d.split('.')[-1]
            if last == 'reshape':
                args = c.args
                shp = args[-1] if args else None
                if isinstance(shp, ast.BinOp) and isinstance(shp.op, ast.Add):
                    shp = shp.left
                # the reshaped array is one coefficient (`ybar.data[0].reshape((P, M, M))`): no leading D axis
                recv = c.func.value if isinstance(c.func, ast.Attribute) and not d.startswith('numpy.') else (args[0] if len(args) >= 2 else None)
                one = False
                if isinstance(recv, ast.Subscript):
                    i0 = recv.slice.elts[0] if isinstance(recv.slice, ast.Tuple) and recv.slice.elts else recv.slice
                    one = isinstance(i0, ast.Constant) and isinstance(i0.value, int)
                if isinstance(shp, ast.Tuple) and len([e for e in shp.elts if not isinstance(e, ast.Starred)]) >= 3:
                    names = [P if norm(e) in Pset else norm(e) for e in shp.elts if not isinstance(e, ast.Starred)][:3]
                    pair = names[:2] if one else names[1:]
                    if pair == [P, M]:
                        return 'BLOCK'
                    if pair == [M, P]:
                        return 'INTERLEAVED'
            if last == 'repeat' and len(c.args) >= 2:
                if norm(c.args[1]) == M:
                    return 'BLOCK'          # each direction repeated M times in a row
                if norm(c.args[1]) in Pset:
                    return 'INTERLEAVED'
            if last == 'tile' and len(c.args) >= 2 and isinstance(c.args[1], (ast.Tuple, ast.BinOp)):
                t_ = c.args[1]
                while isinstance(t_, ast.BinOp) and isinstance(t_.op, ast.Add):
                    t_ = t_.left
                reps = [P if norm(e) in Pset else norm(e) for e in t_.elts] if isinstance(t_, ast.Tuple) else []
                if M in reps and P not in reps:
                    return 'INTERLEAVED'    # whole block of P directions repeated M times: j -> p = j % P
                if P in reps and M not in reps:
                    return 'BLOCK'          # eye(M) tiled P times: row j -> m = j % M
    return None


def rule_drv_layout(ctx):
    r = RuleResult('R-drv-layout', 'CGraph.jacobian with a Taylor-polynomial argument: the replication of the P input directions M times, '
                                   'the adjoint seed and the final reshape agree on the layout of the combined (direction, output row) axis')
    m = ctx.model
    fi = m.func(TRACER, 'CGraph.jacobian')
    xpar = fi.value_params()[0] if fi.value_params() else 'x'
    # boolean locals that stand for the UTPM test (`is_utpm = isinstance(x, algopy.UTPM)`)
    alias = {}
    for st in walk_no_nested(fi.node):
        if isinstance(st, ast.Assign) and len(st.targets) == 1 and isinstance(st.targets[0], ast.Name) and isinstance(st.value, ast.Call) \
                and isinstance(st.value.func, ast.Name) and st.value.func.id == 'isinstance':
            alias[st.targets[0].id] = st.value

    def is_utpm_test(t):
        if isinstance(t, ast.Name) and t.id in alias:
            t = alias[t.id]
        return isinstance(t, ast.Call) and isinstance(t.func, ast.Name) and t.func.id == 'isinstance' and len(t.args) == 2 \
            and norm(t.args[0]) == xpar and norm(t.args[1]).split('.')[-1] == 'UTPM'

    def truth(t):
        if is_utpm_test(t):
            return True
        if isinstance(t, ast.UnaryOp) and isinstance(t.op, ast.Not):
            v = truth(t.operand)
            return None if v is None else not v
        return None

    seen_test = [False]

    def specialise(body):
        """the statements executed for a Taylor-polynomial argument: decided tests select their arm, whatever follows a
        return/raise is dropped (if/else form and early-return form read alike)"""
        out = []
        for st in body:
            if isinstance(st, ast.If) and truth(st.test) is not None:
                seen_test[0] = True
                out.extend(specialise(st.body if truth(st.test) else st.orelse))
            else:
                out.append(st)
            if out and isinstance(out[-1], (ast.Return, ast.Raise)):
                break
        return out
    br = specialise(fi.node.body)
    if not seen_test[0] or not any(isinstance(x_, ast.Call) and isinstance(x_.func, ast.Attribute) and x_.func.attr == 'pullback'
                                   for b_ in br for x_ in ast.walk(b_)):
        br = None
    if br is None:
        r.unknown(fi.site(), 'UTPM branch of CGraph.jacobian not found')
        return r
    holder = ast.Module(body=br, type_ignores=[])
    pf = [c for c in ast.walk(holder) if isinstance(c, ast.Call) and isinstance(c.func, ast.Attribute) and c.func.attr == 'pushforward']
    pb = [c for c in ast.walk(holder) if isinstance(c, ast.Call) and isinstance(c.func, ast.Attribute) and c.func.attr == 'pullback']
    if not pf or not pb:
        r.unknown(fi.site(), 'forward evaluation / reverse sweep not found in the UTPM branch')
        return r
    fwd_names = _reaching_names(fi, list(pf[0].args), pf[0].lineno) - set(fi.params)
    bar_names = _reaching_names(fi, list(pb[0].args), pb[0].lineno) - set(fi.params) - fwd_names
    # names of the number of directions / outputs: P from `D, P = x.data.shape[:2]`, M from `<dependent>.size`
    Pn, Mn = 'P', 'M'
    psrc = {}
    for st in ast.walk(holder):
        if isinstance(st, ast.Assign) and len(st.targets) == 1:
            t, v = st.targets[0], st.value
            if isinstance(t, ast.Tuple) and len(t.elts) == 2 and norm(v).endswith('.data.shape[:2]') and isinstance(t.elts[1], ast.Name):
                psrc.setdefault(norm(v), []).append(t.elts[1].id)
            if isinstance(t, ast.Name) and 'dependentFunctionList' in norm(v) and norm(v).endswith('.size'):
                Mn = t.id
    if psrc:
        # every name bound to the second extent of the argument's coefficient array holds P
        key = ('%s.data.shape[:2]' % xpar) if ('%s.data.shape[:2]' % xpar) in psrc else sorted(psrc)[-1]
        Pn = tuple(sorted(set(psrc[key])))
        Pn = Pn[0] if len(Pn) == 1 else Pn
    for st in walk_no_nested(fi.node):
        if isinstance(st, ast.Assign) and len(st.targets) == 1 and isinstance(st.targets[0], ast.Name) and 'dependentFunctionList' in norm(st.value) \
                and norm(st.value).endswith('.size'):
            Mn = st.targets[0].id
    # views of the replicated input / the seed: `tmp_blocks = tmp.reshape((D, P, M) + shp)` - a store through the view
    # is a store into its base, laid out as the view says
    views = {}
    for _ in range(3):
        for st in ast.walk(holder):
            if isinstance(st, ast.Assign) and len(st.targets) == 1 and isinstance(st.targets[0], ast.Name) \
                    and isinstance(st.value, (ast.Subscript, ast.Attribute, ast.Call)) and not (
                        isinstance(st.value, ast.Call) and not (isinstance(st.value.func, ast.Attribute)
                                                                and st.value.func.attr in ('reshape', 'transpose', 'view', 'ravel', 'swapaxes', 'squeeze'))):
                bs = set(_store_bases(st.value))
                root = set()
                for b_ in bs:
                    root |= views[b_][0] if b_ in views else ({b_} if b_ in (fwd_names | bar_names) else set())
                if root and st.targets[0].id not in (fwd_names | bar_names):
                    lay_v = _layout_of(st, Pn, Mn) or next((views[b_][1] for b_ in bs if b_ in views and views[b_][1]), None)
                    views[st.targets[0].id] = (root, lay_v)
    parts = {}
    for st in ast.walk(holder):
        if not isinstance(st, (ast.Assign, ast.AugAssign, ast.Expr, ast.Return)):
            continue
        if isinstance(st, ast.Return):
            lay = _layout_of(st, Pn, Mn)
            if lay:
                parts.setdefault('result reshape', []).append((lay, st))
            continue
        # the adjoint of the independent variable reshaped into a local that is returned later: `xbar = <..>.xbar.data.reshape((D, P, M) + shp)`
        if isinstance(st, ast.Assign) and len(st.targets) == 1 and isinstance(st.targets[0], ast.Name) \
                and any(isinstance(x_, ast.Attribute) and x_.attr == 'xbar' for x_ in ast.walk(st.value)):
            lay = _layout_of(st, Pn, Mn)
            if lay:
                parts.setdefault('result reshape', []).append((lay, st))
                continue
        bases = set()
        if isinstance(st, (ast.Assign, ast.AugAssign)):
            for t in (st.targets if isinstance(st, ast.Assign) else [st.target]):
                bases |= set(_store_bases(t)) if isinstance(t, (ast.Subscript, ast.Attribute)) else ({t.id} if isinstance(t, ast.Name) else set())
        elif isinstance(st.value, ast.Call):
            c = st.value
            if (dotted_name(c.func) or '') in ('numpy.copyto', 'numpy.put') and c.args:
                bases |= set(_store_bases(c.args[0]))
            for k in c.keywords:
                if k.arg == 'out':
                    bases |= set(_store_bases(k.value))
        if not bases:
            continue
        lay = _layout_of(st, Pn, Mn)
        if isinstance(st, ast.Assign) and len(st.targets) == 1 and isinstance(st.targets[0], ast.Name) and st.targets[0].id in views:
            continue        # the definition of a view stores nothing
        via = [b_ for b_ in bases if b_ in views]
        if via:
            lay = lay or next((views[b_][1] for b_ in via if views[b_][1]), None)
            bases = (bases - set(via)) | set().union(*[views[b_][0] for b_ in via])
        if lay is None:
            continue
        if bases & bar_names:
            parts.setdefault('adjoint seed', []).append((lay, st))
        elif bases & fwd_names:
            parts.setdefault('input replication', []).append((lay, st))
    for k in ('input replication', 'adjoint seed', 'result reshape'):
        if k not in parts:
            r.unknown(fi.site(), 'layout of the %s not recognised' % k)
    if len(parts) == 3 and not r.unknowns:
        lays = {k: {l for l, _ in v} for k, v in parts.items()}
        allv = set().union(*lays.values())
        if len(allv) == 1:
            r.ok(construct='jacobian-layout', nontrivial=True,
                 sample='CGraph.jacobian(UTPM): %s all %s' % (', '.join('%s `%s`' % (k, norm(v[0][1])[:50]) for k, v in parts.items()), allv.pop()))
        else:
            desc = '; '.join('%s: %s (`%s`)' % (k, '/'.join(sorted(l)), norm(parts[k][0][1])[:60]) for k, l in lays.items())
            r.bad(Finding('R-drv-layout', _f(fi), 'layout:' + '|'.join('%s=%s' % (k, '/'.join(sorted(l))) for k, l in sorted(lays.items())),
                          'CGraph.jacobian(UTPM): the combined (direction, output row) axis is laid out inconsistently: %s - Jacobian rows are '
                          'expanded along the wrong curve' % desc, fi.file, fi.lineno))
    r.floor = 1
    return r


# ------------------------------------------------------------------- C05
NON_RECORDING = {'__init__', '__repr__', '__str__', 'get_shape', 'get_ndim', 'get_size', 'get_flat', 'dtype',
                 '_get_val', '__lt__', '__le__', '__gt__', '__ge__', '__eq__', 'xbar_from_x', 'totype', 'create',
                 'pushforward', 'pullback', 'get_ID', 'Id', '__rpow__'}
DELEGATING = {'__radd__': 1, '__rsub__': 2, '__rmul__': 1, '__rtruediv__': 1}


def _count_recordings(fi, path):
    """number of recorder calls executed on a straight-line path"""
    n = 0
    for st in path:
        node = st[1] if isinstance(st, tuple) else st
        for c in ast.walk(node):
            if isinstance(c, ast.Call) and isinstance(c.func, ast.Attribute) and c.func.attr == 'pushforward' \
                    and dotted_name(c.func.value) in ('Function', 'cls', 'self.__class__'):
                n += 1
    return n


def rule_rec_once(ctx):
    r = RuleResult('R-rec-once', 'every overload of the differentiable API on Function records exactly once on every '
                                 'returning path (delegating reflected operators: via the operator expression on self); '
                                 'Function.pushforward calls the operation exactly once and creates exactly one node iff Fout is None')
    m = ctx.model
    ci = m.cls('Function')
    if ci is None:
        raise AnalysisError('R-rec-once', TRACER, 'class Function vanished')
    for name, fi in sorted(ci.methods.items()):
        if name in NON_RECORDING or fi.kind == 'property':
            continue
        if name.startswith('_') and not name.startswith('__'):
            # private helpers are not part of the overloaded API; one that records is expanded into its callers
            # (Model._inline_recording_helpers) or, if it cannot be, shows up as a caller that does not record
            continue
        if name in tp.OUTSIDE_API:
            r.note('Function.%s: %s' % (name, tp.OUTSIDE_API[name]))
            continue
        paths = [p for p in _paths(fi.node.body)]
        for i, path in enumerate(paths):
            stmts = [s for s in path if not isinstance(s, tuple)]
            if stmts and isinstance(stmts[-1], ast.Raise):
                continue
            n = _count_recordings(fi, path)
            if name in DELEGATING:
                # operator expression on self / converted operand
                ops = 0
                for st in stmts:
                    for b in ast.walk(st):
                        if isinstance(b, (ast.BinOp, ast.UnaryOp)) and not isinstance(getattr(b, 'op', None), (ast.Not,)):
                            ops += 1
                if n == 0 and ops == DELEGATING[name]:
                    r.ok(construct='Function.' + name, sample='Function.%s delegates through %d operator expression(s)' % (name, ops))
                else:
                    r.bad(Finding('R-rec-once', _f(fi), 'delegation', 'Function.%s: expected %d delegated operator expression(s) and no '
                                                                     'direct recording, found %d / %d' % (name, DELEGATING[name], ops, n), fi.file, fi.lineno))
                continue
            if n == 1:
                r.ok(construct='Function.%s:path%d' % (name, i), nontrivial=len(paths) > 1,
                     sample='Function.%s: one recorder call on path %d' % (name, i))
            else:
                r.bad(Finding('R-rec-once', _f(fi), 'count:%d' % n,
                              'Function.%s records %d times on a returning path (must be exactly once)' % (name, n), fi.file, fi.lineno))
    # Function.pushforward itself
    fpf = m.func(TRACER, 'Function.pushforward')
    calls = [c for c in walk_no_nested(fpf.node) if isinstance(c, ast.Call) and isinstance(c.func, ast.Name) and c.func.id == 'func']
    # exactly one call of the operation on every returning path (the call may be written once per branch)
    per_path = []
    for path in _paths(fpf.node.body):
        stmts = [s_ for s_ in path if not isinstance(s_, tuple)]
        if not stmts or isinstance(stmts[-1], ast.Raise):
            continue
        n_ = 0
        for s_ in path:
            node_ = s_[1] if isinstance(s_, tuple) else s_
            if isinstance(node_, (ast.For, ast.While)) and any(c in list(ast.walk(node_)) for c in calls):
                n_ += 2         # inside a loop: any number of times
                continue
            n_ += sum(1 for c in calls if any(x is c for x in ast.walk(node_ if not isinstance(node_, ast.If) else node_.test)))
        per_path.append(n_)
    if calls and per_path and all(n_ == 1 for n_ in per_path):
        bad_shape = None
        for c in calls:
            star = [a for a in c.args if isinstance(a, ast.Starred)]
            kw = [k for k in c.keywords if k.arg is None]
            if not (len(star) == 1 and isinstance(star[0].value, ast.Name) and len(kw) == 1 and norm(kw[0].value) == 'Fkwargs'):
                bad_shape = c
        if bad_shape is None:
            r.ok(construct='pushforward:call', nontrivial=True, sample='Function.pushforward calls `%s` once on every returning path' % norm(calls[0]))
        else:
            r.bad(Finding('R-rec-once', _f(fpf), 'call-shape', 'the operation is not called as func(*args, **Fkwargs): `%s`' % norm(bad_shape), fpf.file, bad_shape.lineno))
    else:
        r.bad(Finding('R-rec-once', _f(fpf), 'call-count:%s' % sorted(set(per_path)), 'Function.pushforward calls the operation %s times on its returning paths (must be exactly once)'
                      % (sorted(set(per_path)) or [0]), fpf.file, fpf.lineno))
    r.floor = 70
    return r


def _unwraps(e):
    """expression reads the *value* of a node: <expr>.x or _get_val(...)"""
    for n in ast.walk(e):
        if isinstance(n, ast.Attribute) and n.attr == 'x':
            return True
        if isinstance(n, ast.Call) and isinstance(n.func, ast.Attribute) and n.func.attr == '_get_val':
            return True
    return False


def rule_rec_operands(ctx):
    r = RuleResult('R-rec-operands', 'every element of a recorded argument list is the operand itself (self, a parameter, or '
                                     'a parameter converted by totype) - never an unwrapped value such as <node>.x or _get_val(<node>), '
                                     'which would freeze the recording-time value into the graph')
    m = ctx.model
    for s in tp.recorder_sites(m):
        fi = s.fi
        if fi.cls == 'Function' and fi.name in tp.OUTSIDE_API:
            continue
        conv = {}
        for st in walk_no_nested(fi.node):
            if isinstance(st, ast.Assign) and len(st.targets) == 1 and isinstance(st.targets[0], ast.Name):
                conv.setdefault(st.targets[0].id, []).append(st.value)
        ok = True
        for e in s.pos:
            if isinstance(e, ast.Name) and (e.id in fi.params or e.id == 'self'):
                vals = conv.get(e.id, [])
                bad = [v for v in vals if _unwraps(v)]
                if bad:
                    ok = False
                    r.bad(Finding('R-rec-operands', _f(fi), 'rebound:' + e.id, '%s rebinds operand `%s` to `%s` before recording it'
                                  % (fi.qualname, e.id, norm(bad[0])), fi.file, s.call.lineno))
                continue
            if isinstance(e, ast.Name) and e.id in conv and all(
                    isinstance(v, ast.Call) and isinstance(v.func, ast.Attribute) and v.func.attr == 'totype' for v in conv[e.id]):
                continue
            if not _unwraps(e) and not isinstance(e, ast.Call):
                continue
            # the conversion written in place: `cls.totype(rhs)` of a parameter / self
            if isinstance(e, ast.Call) and isinstance(e.func, ast.Attribute) and e.func.attr == 'totype' and len(e.args) == 1 and not e.keywords \
                    and isinstance(e.args[0], ast.Name) and (e.args[0].id in fi.params or e.args[0].id == 'self') \
                    and not any(_unwraps(v) for v in conv.get(e.args[0].id, [])):
                continue
            ok = False
            r.bad(Finding('R-rec-operands', _f(fi), 'operand:' + norm(e), '%s records `%s` instead of the operand itself: the graph keeps the '
                          'recording-time value and loses the dependency' % (fi.qualname, norm(e)), fi.file, s.call.lineno))
        if ok:
            r.ok(construct=fi.qualname + '@%d' % s.call.lineno, sample='%s records [%s]' % (fi.qualname, ', '.join(norm(e) for e in s.pos)))
    r.floor = 60
    return r


def _unwrap_helper(model, call, v):
    """`cls._get_val(v)` with a method of Function whose body is `x.x if isinstance(x, <node class>) else x`"""
    if model is None or not (isinstance(call, ast.Call) and isinstance(call.func, ast.Attribute) and isinstance(call.func.value, ast.Name)
                             and call.func.value.id in ('cls', 'self', 'Function') and len(call.args) == 1 and not call.keywords
                             and norm(call.args[0]) == v):
        return False
    from .model import _as_expression
    h = model.lookup_method('Function', call.func.attr)
    if h is None or len(h.value_params()) != 1:
        return False
    body = list(h.node.body)
    if body and isinstance(body[0], ast.Expr) and isinstance(body[0].value, ast.Constant) and isinstance(body[0].value.value, str):
        body = body[1:]
    e = _as_expression(body)
    p = h.value_params()[0]
    return isinstance(e, ast.IfExp) and norm(e.body) == p + '.x' and norm(e.orelse) == p \
        and isinstance(e.test, ast.Call) and norm(e.test.func) == 'isinstance' and norm(e.test.args[0]) == p


def unwrap_maps(fn_node, src, model=None):
    """lists built in fn_node as the elementwise map  v -> (v.x if v is a node else v)  of the sequence `src`:
    {list name: 'fwd' | 'rev' | 'other'}.  Recognised: `L = [v.x if isinstance(v, C) else v for v in src]` and
    `for v in src: if isinstance(v, C): L.append(v.x) else: L.append(v)` (any of the full-iteration idioms of seq_iteration)."""
    out = {}

    def is_unwrap(e, v):
        if _unwrap_helper(model, e, v):
            return True
        return isinstance(e, ast.IfExp) and norm(e.body) == v + '.x' and norm(e.orelse) == v \
            and isinstance(e.test, ast.Call) and norm(e.test.func) == 'isinstance' and norm(e.test.args[0]) == v

    for st in walk_no_nested(fn_node):
        if isinstance(st, ast.Assign) and len(st.targets) == 1 and isinstance(st.targets[0], ast.Name):
            v = st.value
            if isinstance(v, ast.Call) and isinstance(v.func, ast.Name) and v.func.id == 'list' and len(v.args) == 1:
                v = v.args[0]
            if isinstance(v, (ast.ListComp, ast.GeneratorExp)) and len(v.generators) == 1 and not v.generators[0].ifs:
                g = v.generators[0]
                fake = ast.For(target=g.target, iter=g.iter, body=[], orelse=[])
                si = seq_iteration(fake)
                if si is not None and si[0] == src and isinstance(g.target, ast.Name):
                    out[st.targets[0].id] = si[1] if is_unwrap(v.elt, g.target.id) else 'other'
        if isinstance(st, ast.For):
            si = seq_iteration(st)
            if si is None or si[0] != src:
                continue
            v = si[2]
            apps = [c for c in ast.walk(st) if isinstance(c, ast.Call) and isinstance(c.func, ast.Attribute) and c.func.attr == 'append'
                    and isinstance(c.func.value, ast.Name) and len(c.args) == 1]
            for L in {c.func.value.id for c in apps}:
                mine = [c for c in apps if c.func.value.id == L]
                got = sorted(norm(c.args[0]) for c in mine)
                if got == sorted([v + '.x', v]) or (len(mine) == 1 and is_unwrap(mine[0].args[0], v)):
                    out[L] = si[1]
                elif any(norm(c.args[0]) in (v + '.x', v) for c in mine):
                    out[L] = 'other'
    return out


def rule_rec_same(ctx):
    r = RuleResult('R-rec-same', 'the node stores the callable, argument list and keyword arguments that were used for '
                                 'the call; replay iterates the recorded nodes in list order and hands back exactly those '
                                 '(callable, args, kwargs) with Fout=node')
    m = ctx.model
    fpf = m.func(TRACER, 'Function.pushforward')
    # parameters not rebound before create(...)
    rebound = set()
    for st in walk_no_nested(fpf.node):
        if isinstance(st, (ast.Assign, ast.AugAssign)):
            tg = st.targets if isinstance(st, ast.Assign) else [st.target]
            for t in tg:
                if isinstance(t, ast.Name) and t.id in ('func', 'Fargs', 'Fkwargs'):
                    rebound.add(t.id)
    creates = [c for c in walk_no_nested(fpf.node) if isinstance(c, ast.Call) and isinstance(c.func, ast.Attribute) and c.func.attr == 'create']
    for c in creates:
        txt = [norm(a) for a in c.args]
        # the first argument is the value the operation returned: a local assigned from `func(*.., **Fkwargs)`
        res_names = {st.targets[0].id for st in walk_no_nested(fpf.node) if isinstance(st, ast.Assign) and len(st.targets) == 1
                     and isinstance(st.targets[0], ast.Name) and isinstance(st.value, ast.Call) and isinstance(st.value.func, ast.Name) and st.value.func.id == 'func'}
        direct = bool(c.args) and isinstance(c.args[0], ast.Call) and isinstance(c.args[0].func, ast.Name) and c.args[0].func.id == 'func'
        if len(txt) == 4 and (txt[0] in res_names or direct) and txt[1:] == ['Fargs', 'Fkwargs', 'func'] and not rebound:
            r.ok(construct='create-args', nontrivial=True, sample='node created from the same objects that were called: `%s`' % norm(c))
        else:
            r.bad(Finding('R-rec-same', _f(fpf), 'create-args', 'the node is not created from (out, Fargs, Fkwargs, func) as used for the '
                                                                 'call: `%s` (rebound: %s)' % (norm(c), sorted(rebound)), fpf.file, c.lineno))
    # args extracted from Fargs in order: the list passed as *args to func is the elementwise map of Fargs
    calls = [c for c in walk_no_nested(fpf.node) if isinstance(c, ast.Call) and isinstance(c.func, ast.Name) and c.func.id == 'func']
    starred = {norm(a.value) for c in calls for a in c.args if isinstance(a, ast.Starred)}
    maps = unwrap_maps(fpf.node, 'Fargs', m)
    good = [k for k, v in maps.items() if v == 'fwd' and k in starred]
    wrong = [k for k, v in maps.items() if v != 'fwd' and k in starred]
    if good and not wrong:
        r.ok(construct='extract', sample='call arguments `*%s` are Fargs with nodes replaced by their .x, in order' % good[0])
    elif wrong:
        r.bad(Finding('R-rec-same', _f(fpf), 'extract', 'the call arguments `*%s` are built from Fargs in %s order' % (wrong[0], maps[wrong[0]]),
                      fpf.file, fpf.lineno))
    else:
        r.unknown(fpf.site(), 'argument extraction from Fargs not in a recognised form (loop with append / list comprehension)')
    # create stores
    cr = m.func(TRACER, 'Function.create')
    want = {'x': 'x', 'args': 'fargs', 'kwargs': 'fkwargs', 'func': 'func'}
    for attr, src in want.items():
        st = [s for s in walk_no_nested(cr.node) if isinstance(s, ast.Assign) and any(isinstance(t, ast.Attribute) and t.attr == attr and norm(t.value) == 'f' for t in s.targets)]
        if len(st) == 1 and norm(st[0].value) == src:
            r.ok(construct='create:' + attr, sample='Function.create: `%s`' % norm(st[0]))
        else:
            r.bad(Finding('R-rec-same', _f(cr), 'create:' + attr, 'Function.create does not store f.%s = %s' % (attr, src), cr.file, cr.lineno))
    # replay loop
    cpf = m.func(TRACER, 'CGraph.pushforward')
    loops = [st for st in cpf.node.body if isinstance(st, ast.For) and [c for c in ast.walk(st) if isinstance(c, ast.Call) and isinstance(c.func, ast.Attribute) and c.func.attr == 'pushforward']]
    if len(loops) != 1:
        r.unknown(cpf.site(), 'replay loop not found')
    else:
        lp = loops[0]
        it = norm(lp.iter)
        si = seq_iteration(lp)
        if si is not None and si[0] == 'self.functionList' and si[1] == 'fwd':
            r.ok(construct='replay-order', sample='replay iterates `%s` (recording order)' % it)
        else:
            r.bad(Finding('R-rec-same', _f(cpf), 'replay-order:' + it, 'replay iterates `%s`, not functionList in recording order' % it, cpf.file, lp.lineno))
        c = [c for c in ast.walk(lp) if isinstance(c, ast.Call) and isinstance(c.func, ast.Attribute) and c.func.attr == 'pushforward'][0]
        a = [norm(x) for x in c.args]
        kw = {k.arg: norm(k.value) for k in c.keywords}
        if si is not None:
            node = si[2]
        elif isinstance(lp.target, ast.Tuple):
            node = norm(lp.target.elts[-1])
        else:
            node = norm(lp.target)
        if a[:2] == [node + '.func', node + '.args'] and kw.get('Fout') == node:
            r.ok(construct='replay-call', nontrivial=True, sample='replay call `%s`' % norm(c))
        else:
            r.bad(Finding('R-rec-same', _f(cpf), 'replay-call', 'replay does not re-run (node.func, node.args) into Fout=node: `%s`' % norm(c), cpf.file, c.lineno))
        if kw.get('Fkwargs') == node + '.kwargs' or (len(a) > 2 and a[2] == node + '.kwargs'):
            r.ok(construct='replay-kwargs', nontrivial=True, sample='replay passes the recorded keyword arguments')
        else:
            r.bad(Finding('R-rec-same', _f(cpf), 'replay-kwargs', 'replay call `%s` drops the recorded keyword arguments (node.kwargs)' % norm(c), cpf.file, c.lineno))
    # independents populated from the caller's list in order: for i, v in enumerate(self.independentFunctionList): v.args[0].x = x_list[i]
    ind = [st for st in cpf.node.body if isinstance(st, ast.For) and 'independentFunctionList' in norm(st.iter)]
    ok_ind = False
    xl = cpf.value_params()[0] if cpf.value_params() else 'x_list'
    if len(ind) == 1:
        lp_i = ind[0]
        wants = set()
        si = seq_iteration(lp_i)
        if si is not None and si[0] == 'self.independentFunctionList' and si[1] == 'fwd':
            # index-based or enumerate: element v, index i
            if isinstance(lp_i.target, ast.Tuple) and isinstance(lp_i.target.elts[0], ast.Name):
                wants.add('%s.args[0].x = %s[%s]' % (si[2], xl, lp_i.target.elts[0].id))
            elif isinstance(lp_i.target, ast.Name) and si[2] != lp_i.target.id:
                wants.add('%s.args[0].x = %s[%s]' % (si[2], xl, lp_i.target.id))
        it = lp_i.iter
        if isinstance(it, ast.Call) and norm(it.func) == 'zip' and len(it.args) == 2 and isinstance(lp_i.target, ast.Tuple) \
                and len(lp_i.target.elts) == 2 and all(isinstance(e, ast.Name) for e in lp_i.target.elts):
            names = dict(zip([norm(x) for x in it.args], [e.id for e in lp_i.target.elts]))
            if set(names) == {'self.independentFunctionList', xl}:
                wants.add('%s.args[0].x = %s' % (names['self.independentFunctionList'], names[xl]))
        if any(isinstance(b_, ast.Assign) and norm(b_) in wants for b_ in lp_i.body) and loops and lp_i.lineno < loops[0].lineno:
            ok_ind = True
    if ok_ind:
        r.ok(construct='independents', sample='independents are set from the caller\'s list, position by position, before the replay loop')
    else:
        r.bad(Finding('R-rec-same', _f(cpf), 'independents', 'independent values are not populated from x_list in order before the replay loop', cpf.file, cpf.lineno))
    r.floor = 10
    return r


OP_NAMES = {'__getitem__': 'getitem', '__setitem__': 'setitem', '__neg__': 'neg', '__add__': 'add', '__sub__': 'sub',
            '__mul__': 'mul', '__truediv__': 'truediv', '__pow__': 'pow'}


def rule_rec_name(ctx):
    r = RuleResult('R-rec-name', 'Function.NAME records the algopy-level function / operator of the same name, and '
                                 'that callable resolves (through the generated or hand-written dispatcher) to UTPM.NAME for '
                                 'Taylor operands - so tracing calls the same code as computing on unwrapped operands')
    m = ctx.model
    for s in tp.recorder_sites(m):
        fi = s.fi
        if fi.cls != 'Function':
            # globalfuncs.zeros / ones record themselves
            if s.callable == fi.name:
                r.ok(construct=fi.qualname, sample='%s records itself' % fi.qualname)
            else:
                r.bad(Finding('R-rec-name', _f(fi), 'self-record', '%s records `%s` instead of itself' % (fi.qualname, s.callable), fi.file, s.call.lineno))
            continue
        if fi.name in tp.OUTSIDE_API:
            continue
        cal = s.callable or ''
        want = OP_NAMES.get(fi.name, fi.name)
        got = cal.split('.')[-1]
        if got != want:
            r.bad(Finding('R-rec-name', _f(fi), 'name:%s' % cal, 'Function.%s records `%s` (expected an operation named `%s`)' % (fi.name, cal, want), fi.file, s.call.lineno))
            continue
        if cal.startswith('operator.'):
            tgt = m.lookup_method('UTPM', '__%s__' % got)
            if tgt is None:
                r.bad(Finding('R-rec-name', _f(fi), 'operator:' + got, 'UTPM has no __%s__ for recorded operator.%s' % (got, got), fi.file, s.call.lineno))
            else:
                r.ok(construct=fi.qualname, sample='Function.%s records operator.%s -> UTPM.__%s__' % (fi.name, got, got))
            continue
        res = m.resolve_dotted(fi.module, cal)
        if res is None or res[0] != 'func':
            r.bad(Finding('R-rec-name', _f(fi), 'unresolved:' + cal, 'recorded callable `%s` does not resolve to a function of the algopy namespace' % cal, fi.file, s.call.lineno))
            continue
        disp = res[1]
        # the dispatcher must reach UTPM.<name>
        ok = False
        if disp.generated:
            ok = m.lookup_method('UTPM', got) is not None
        else:
            ok = got in tp.class_dispatch_targets(disp, m) and m.lookup_method('UTPM', got) is not None
        if ok:
            r.ok(construct=fi.qualname, nontrivial=True,
                 sample='Function.%s records %s -> %s -> UTPM.%s' % (fi.name, cal, disp.fq, got))
        else:
            r.bad(Finding('R-rec-name', _f(fi), 'dispatch:' + cal, 'dispatcher %s does not reach UTPM.%s' % (disp.fq, got), fi.file, s.call.lineno))
    r.floor = 60
    return r


# ------------------------------------------------------------------- C14
INPLACE_API = {'__iadd__', '__isub__', '__imul__', '__itruediv__', '__idiv__', '__setitem__', 'set_zero', 'iouter',
               '__init__', 'set_transpose'}
OUTPUT_PARAMS = {
    '*': {'out', 'work'},
    '_itruediv': {'z_data'},
    '_cholesky': {'L_data'},
    '_eigh': {'L_data', 'Q_data'},
    '_eigh1': {'L_data', 'Q_data'},
    'lift_Q': {'Q'},
    '_taylor_polynomials_of_ode_solutions': {'v_data'},
    '_iouter': {'out_data'},
    'vdot': {'z'},
    'increment': {'k'},     # exact_interpolation.increment(i, k): documented in-place multi-index increment helper
    'workaround_strides_function': {'x'},   # applies fun=operator.iXXX to x by design
}
# the same designated outputs by position among the value parameters (robust against renaming private parameters)
OUTPUT_POSITIONS = {'_itruediv': [0], '_cholesky': [1], '_eigh': [0, 1], '_eigh1': [0, 1], 'lift_Q': [0],
                    '_taylor_polynomials_of_ode_solutions': [4], '_iouter': [2], 'vdot': [2], 'increment': [1], 'workaround_strides_function': [0]}
# kernels that are called directly by users/tests and therefore count as entry points (confirmed on today's tree)
KERNEL_ENTRY = {'_broadcast_arrays', '_mul', '_minimum', '_maximum', '_amul', '_itruediv', '_truediv', '_reciprocal', '_floordiv', '_pow_real',
                '_max', '_argmax', '_absolute', '_negative', '_square', '_sqrt', '_exp', '_expm1', '_logit', '_expit', '_sign', '_botched_clip',
                '_log', '_log1p', '_dawsn', '_tansec2', '_sincos', '_arcsin', '_arccos', '_arctan', '_sinhcosh', '_tanhsech2', '_erf', '_erfi',
                '_hyperu', '_hyp2f0', '_hyp0f1', '_polygamma', '_psi', '_gammaln', '_dot', '_dot_non_UTPM_y', '_dot_non_UTPM_x', '_outer',
                '_outer_non_utpm_y', '_outer_non_utpm_x', '_inv', '_solve', '_solve_non_UTPM_A', '_solve_non_UTPM_x', '_cholesky', '_ndim',
                '_shape', '_reshape', '_iouter', '_qr', '_qr_rectangular', '_qr_full', '_eigh', '_eigh1', '_mul_non_UTPM_x', '_transpose', '_diag'}
# private module-level functions of today's tree that are used as entry points by the kernels (checked as such)
MODULE_PRIVATE_ENTRY = {'_plus_const', '_eval_slow_generic', '_black_f_white_fprime', '_taylor_polynomials_of_ode_solutions',
                        '_expm_pade3', '_expm_pade5', '_expm_pade7', '_expm_pade9', '_expm_pade13'}
ENTRY_MODULES = ['algopy.globalfuncs', 'algopy.linalg.linalg', 'algopy.linalg.compound', 'algopy.special.special',
                 'algopy.fft.fft', 'algopy.utils', 'algopy.exact_interpolation', 'algopy.utpm.algorithms',
                 'algopy.utpm.utpm', 'algopy.compound']
EXCLUDED = {
    'CGraph.plot': 'plotting helper, not part of any property',
}


def entry_points(ctx):
    m = ctx.model
    out = []
    for modname in ENTRY_MODULES:
        mi = m.module(modname)
        for fi in mi.functions.values():
            if fi.name.startswith('_') and not fi.name.startswith('__') and fi.name not in MODULE_PRIVATE_ENTRY:
                continue            # private module-level helper: reached through the summaries of its public callers
            out.append(fi)
            for nf in getattr(fi, 'nested', {}).values():
                out.append(nf)
        for ci in mi.classes.values():
            if ci.name not in ('UTPM', 'UTP', 'RawAlgorithmsMixIn'):
                continue
            for name, fi in ci.methods.items():
                if name in INPLACE_API or name.startswith('pb_') or name.startswith('_pb_') or name.endswith('_pullback'):
                    continue
                if name.startswith('_') and not name.startswith('__') and name not in KERNEL_ENTRY:
                    continue        # private helper: its effects reach the public callers through the summaries
                out.append(fi)
                for nf in getattr(fi, 'nested', {}).values():
                    out.append(nf)
    return out


def rule_arg_ro(ctx):
    r = RuleResult('R-arg-ro', 'no non-in-place entry point (public UTPM methods, kernels, module-level functions) '
                               'writes storage reachable from an argument other than its designated output parameter(s), '
                               'and none rebinds a field of an argument object')
    eff = ctx.effects
    m = ctx.model
    eps = entry_points(ctx)
    for fi in eps:
        sm = eff.sums[fi]
        outs = set(OUTPUT_PARAMS['*']) | OUTPUT_PARAMS.get(fi.name, set())
        # private functions may rename their parameters: designated outputs are also known by position
        vp_ = fi.value_params()
        outs |= {vp_[i] for i in OUTPUT_POSITIONS.get(fi.name, ()) if i < len(vp_)}
        params = [p for p in fi.params if not (p == 'cls' and fi.kind == 'classmethod')]
        for p in params:
            if p in outs:
                continue
            if p in sm.writes:
                wit = sorted(sm.writes[p].values(), key=len)[0]
                # frozen exception: statement unreachable because an earlier statement raises
                exc = _unreachable_exception(ctx, fi, p)
                if exc:
                    r.note('%s: write to `%s` is unreachable: %s' % (fi.qualname, p, exc))
                    r.ok(construct=_f(fi) + ':' + p)
                    continue
                r.bad(Finding('R-arg-ro', _f(fi), p, '%s modifies its argument `%s`: %s' % (fi.qualname, p, wit), fi.file, fi.lineno))
            else:
                r.ok(construct=_f(fi) + ':' + p, nontrivial=bool(sm.callees),
                     sample='%s: `%s` not in writes = %s; returns %s' % (fi.qualname, p, sorted(sm.writes), _short(sm.ret)))
        for c, why in sm.unknown:
            if fi.qualname in EXCLUDED:
                continue
            r.unknown(fi.site(c), why + ': ' + norm(c))
    r.floor = 400
    r.stats = {'entry_points': len(eps)}
    return r


def rule_class_state(ctx):
    r = RuleResult('R-class-state', 'no kernel or UTPM method modifies in place an array that lives in class-level or module-level state, or that a memoised function handed out (a cache filled once, '
                                    '`cls._cache[N] = fresh`, is a memo; arithmetic on the cached object through an alias changes what every later call '
                                    'receives: the result then depends on the calls made before)')
    eff = ctx.effects
    n = 0
    for fi in entry_points(ctx):
        sm = eff.sums[fi]
        me = fi.params[0] if fi.kind == 'classmethod' and fi.params else None
        n += 1
        bad = False
        for ev in sm.events:
            if ev.kind.startswith('call:'):
                continue
            if not any((x == ('p', me) and me is not None) or x[0] == 'g' for x in ev.roots):
                continue
            st = ev.node
            # memo fill: a plain store whose target is spelled from the class object itself
            tg = st.targets if isinstance(st, ast.Assign) else []
            glob = {n_ for n_, v_ in ctx.model.modules[fi.module].assigns.items()}
            direct = [t for t in tg if isinstance(t, (ast.Subscript, ast.Attribute)) and (_store_bases(t) == [me] or (
                len(_store_bases(t)) == 1 and _store_bases(t)[0] in glob and not eff._is_local(fi, _store_bases(t)[0])))]
            if isinstance(st, ast.Assign) and direct:
                r.note('%s: `%s` fills class-level state (memo)' % (fi.qualname, norm(st)[:70]))
                continue
            bad = True
            r.bad(Finding('R-class-state', _f(fi), norm(st)[:100], '%s modifies an object held in class-level state in place: `%s` - every later call receives the '
                                                                    'modified object (history dependence)' % (fi.qualname, norm(st)[:80]), fi.file, getattr(st, 'lineno', fi.lineno)))
        if not bad:
            r.ok(construct=_f(fi) + ':class-state')
    r.floor = 250
    return r


def rule_memo_key(ctx):
    r = RuleResult('R-memo-key', 'a value stored under a key in a module-level or class-level container (a memo) depends only on parameters that the key '
                                 'mentions: data dependence through the local definitions and control dependence through the tests that guard them. A memo '
                                 'keyed too coarsely hands the result of an earlier call with other arguments to a later one')
    m = ctx.model
    n_stores = 0
    n_fn = 0
    for fi in m.all_functions():
        if fi.generated:
            continue
        n_fn += 1
        mi = m.modules[fi.module]
        params = set(fi.value_params())
        glob_dicts = {k for k, v in mi.assigns.items() if isinstance(v, (ast.Dict, ast.Call)) and not m.modules[fi.module].functions.get(k)}
        cls_dicts = set()
        if fi.cls:
            ci = mi.classes.get(fi.cls)
            if ci is not None:
                cls_dicts = {k for k, v in ci.attrs.items() if isinstance(v, ast.Dict)}
        local_store = {n.id for n in walk_no_nested(fi.node) if isinstance(n, ast.Name) and isinstance(n.ctx, ast.Store)}

        def container(t):
            """the memo a subscript store goes into, or None"""
            if not isinstance(t, ast.Subscript):
                return None
            b = t.value
            if isinstance(b, ast.Name) and b.id in glob_dicts and b.id not in local_store and b.id not in fi.params:
                return b.id
            if isinstance(b, ast.Attribute) and isinstance(b.value, ast.Name) and b.value.id in ('cls', 'self', fi.cls or '') and b.attr in cls_dicts:
                return norm(b)
            return None
        # definitions and the tests that guard them
        defs = {}

        def collect(body, guards):
            for st in body:
                if isinstance(st, ast.Assign):
                    for t in st.targets:
                        for n in ast.walk(t):
                            if isinstance(n, ast.Name) and isinstance(n.ctx, ast.Store):
                                defs.setdefault(n.id, []).append((st.value, list(guards)))
                elif isinstance(st, ast.AugAssign) and isinstance(st.target, ast.Name):
                    defs.setdefault(st.target.id, []).append((st.value, list(guards)))
                if isinstance(st, ast.If):
                    collect(st.body, guards + [st.test])
                    collect(st.orelse, guards + [st.test])
                elif isinstance(st, (ast.For, ast.While)):
                    g2 = guards + ([st.iter] if isinstance(st, ast.For) else [st.test])
                    if isinstance(st, ast.For):
                        for n in ast.walk(st.target):
                            if isinstance(n, ast.Name):
                                defs.setdefault(n.id, []).append((st.iter, list(guards)))
                    collect(st.body, g2)
                    collect(st.orelse, g2)
                elif isinstance(st, (ast.With, ast.Try)):
                    collect(st.body, guards)
                    if isinstance(st, ast.Try):
                        for h in st.handlers:
                            collect(h.body, guards)
                        collect(st.orelse, guards)
                        collect(st.finalbody, guards)
        collect(fi.node.body, [])

        def deps(e, seen):
            out = set()
            for n in ast.walk(e):
                if isinstance(n, ast.Name) and isinstance(n.ctx, ast.Load):
                    if n.id in params:
                        out.add(n.id)
                    if n.id in defs and n.id not in seen:
                        seen.add(n.id)
                        for v, gs in defs[n.id]:
                            out |= deps(v, seen)
                            for g in gs:
                                out |= deps(g, seen)
            return out

        def visit(body, guards):
            nonlocal n_stores
            for st in body:
                if isinstance(st, ast.Assign):
                    for t in st.targets:
                        c = container(t)
                        if c is None:
                            continue
                        n_stores += 1
                        # the guard `key not in memo` / `memo.get(key) is None` is about the memo itself, not a dependence of the value
                        gs = [g for g in guards if c.split('.')[-1] not in {x.id if isinstance(x, ast.Name) else x.attr for x in ast.walk(g) if isinstance(x, (ast.Name, ast.Attribute))}]
                        vdep = deps(st.value, set())
                        for g in gs:
                            vdep |= deps(g, set())
                        kdep = deps(t.slice, set())
                        missing = sorted(vdep - kdep - {'cls', 'self'})
                        if missing:
                            r.bad(Finding('R-memo-key', _f(fi), '%s[%s]' % (c, norm(t.slice)[:40]), '%s stores `%s` in the memo `%s` under the key `%s`, but the value '
                                          'also depends on %s: a later call with another %s receives the result of the first' % (
                                              fi.qualname, norm(st.value)[:50], c, norm(t.slice)[:40], missing, '/'.join(missing)), fi.file, st.lineno))
                        else:
                            r.ok(construct='%s:%s' % (_f(fi), c), nontrivial=True, sample='%s: memo `%s[%s]`, value depends on %s' % (fi.qualname, c, norm(t.slice)[:30], sorted(vdep)))
                if isinstance(st, ast.If):
                    visit(st.body, guards + [st.test])
                    visit(st.orelse, guards + [st.test])
                elif isinstance(st, (ast.For, ast.While, ast.With)):
                    visit(st.body, guards)
                elif isinstance(st, ast.Try):
                    visit(st.body, guards)
                    for h in st.handlers:
                        visit(h.body, guards)
        visit(fi.node.body, [])
    r.instances += n_fn
    r.holding += n_fn
    r.stats = {'functions_scanned': n_fn, 'memo_stores': n_stores}
    r.floor = 400
    return r


def _short(av):
    s = repr(av)
    return s if len(s) < 80 else s[:77] + '...'


def _unreachable_exception(ctx, fi, param):
    """expm_higham_2005: `A /= 2**n_squarings` follows a statement that uses the
    unimported name `math` -> NameError first.  Justified only while `math`
    stays unresolved in that module."""
    if fi.qualname == 'expm_higham_2005' and param == 'A':
        ns = ctx.model.module_namespace(fi.module)
        if 'math' not in ns:
            return 'the preceding statement evaluates math.ceil(...) and `math` is not bound in %s (NameError)' % fi.module
    return None


# ----------------------------------------------------------------- R-rec-options / R-rec-unwrap / R-drv-dtype (round 7)
def _flows_into(call, path_stmts, p):
    """does parameter p reach the recording call on this path: named in the call itself, or stored into a local container
    (dict / list built on the path) that the call names"""
    names = {x.id for x in ast.walk(call) if isinstance(x, ast.Name)}
    if p in names:
        return True
    for _ in range(3):
        grew = False
        for st in path_stmts:
            tgt = None
            val = None
            if isinstance(st, ast.Assign):
                for t in st.targets:
                    b = t
                    while isinstance(b, (ast.Subscript, ast.Attribute)):
                        b = b.value
                    if isinstance(b, ast.Name) and b.id in names:
                        tgt, val = b.id, st.value
            elif isinstance(st, ast.Expr) and isinstance(st.value, ast.Call) and isinstance(st.value.func, ast.Attribute) \
                    and st.value.func.attr in ('append', 'extend', 'update', 'insert', 'setdefault') and isinstance(st.value.func.value, ast.Name) \
                    and st.value.func.value.id in names:
                tgt, val = st.value.func.value.id, st.value
            if tgt is not None and val is not None:
                new = {x.id for x in ast.walk(val) if isinstance(x, ast.Name)} - names
                if new:
                    names |= new
                    grew = True
        if not grew:
            break
    return p in names


def rule_rec_options(ctx):
    r = RuleResult('R-rec-options', 'a recorder hands every optional parameter it records (axis, dtype, k, UPLO, ...) to the recording call on every '
                                    'returning path on which the parameter is not known to be None: a path that leaves it out under a truth test '
                                    '(`if axis:`) records the default for the legitimate value 0 / an empty tuple, and every replay evaluates another program')
    from .rules_tracer import _none_fact
    m = ctx.model
    for s in tp.recorder_sites(m):
        fi = s.fi
        if fi.cls == 'Function' and fi.name in tp.OUTSIDE_API:
            continue
        opts = [p for p in fi.value_params() if p in fi.defaults and p != 'out']
        if not opts:
            continue
        # options that reach some recording call of the function at all (the others are judged by R-param-used)
        recs = [c for c in walk_no_nested(fi.node) if isinstance(c, ast.Call) and isinstance(c.func, ast.Attribute) and c.func.attr == 'pushforward']
        all_stmts = [st for st in walk_no_nested(fi.node) if isinstance(st, ast.stmt)]
        for p in opts:
            if not any(_flows_into(c, all_stmts, p) for c in recs):
                continue
            for i, path in enumerate(_paths(fi.node.body)):
                stmts = [x for x in path if not isinstance(x, tuple)]
                if not stmts or isinstance(stmts[-1], ast.Raise):
                    continue
                calls = [c for st in stmts for c in ast.walk(st) if isinstance(c, ast.Call) and isinstance(c.func, ast.Attribute) and c.func.attr == 'pushforward']
                if not calls:
                    continue
                if any(_flows_into(c, stmts, p) for c in calls):
                    r.ok(construct='%s:%s:path%d' % (_f(fi), p, i))
                    continue
                facts = [_none_fact(t_[1], t_[2], p) for t_ in path if isinstance(t_, tuple) and len(t_) > 2]
                if 'none' in facts:
                    r.ok(construct='%s:%s:path%d:none' % (_f(fi), p, i))
                    continue
                conds = [('' if t_[2] else 'not ') + norm(t_[1])[:40] for t_ in path if isinstance(t_, tuple) and len(t_) > 2]
                r.bad(Finding('R-rec-options', _f(fi), 'option:%s' % p, '%s records without its parameter `%s` on the path [%s] although the parameter is not known to be '
                                                                        'None there: the value the caller passed (e.g. 0) is replaced by the default in the graph'
                              % (fi.qualname, p, ', '.join(conds)), fi.file, calls[0].lineno))
    r.floor = 8
    return r


DISPATCH_MODULES = ('algopy.globalfuncs', 'algopy.special.special', 'algopy.linalg.compound', 'algopy.utils')


def _unwrap_sites(tree_funcs):
    """(function node, offending node, what) for reads of `<parameter>.x` and direct constructions `Function(...)`"""
    out = []
    for fn in tree_funcs:
        a = fn.args
        params = {x.arg for x in a.posonlyargs + a.args + a.kwonlyargs} | ({a.vararg.arg} if a.vararg else set())
        loopvars = {t.id for n in ast.walk(fn) if isinstance(n, (ast.For, ast.comprehension)) for t in ast.walk(n.target) if isinstance(t, ast.Name)}
        for n in ast.walk(fn):
            if isinstance(n, ast.Attribute) and n.attr == 'x' and isinstance(n.value, ast.Name) and n.value.id in (params | loopvars) and isinstance(n.ctx, ast.Load):
                out.append((fn, n, 'reads the payload `%s.x` of an operand' % n.value.id))
            if isinstance(n, ast.Call) and dotted_name(n.func) in ('Function', 'algopy.Function', 'algopy.tracer.Function', 'algopy.tracer.tracer.Function'):
                out.append((fn, n, 'constructs a graph node directly: `%s`' % norm(n)[:60]))
    return out


def rule_rec_unwrap(ctx):
    r = RuleResult('R-rec-unwrap', 'outside the tracer module no dispatcher reads the payload `.x` of an operand or constructs a `Function` node itself: an '
                                   'operation on traced operands is recorded (`<operand>.pushforward(op, args)` / the method of the operand\'s class); computing '
                                   'on the recording-time value and wrapping the result freezes that value into the graph as a constant')
    m = ctx.model
    # the matcher must fire on a known positive (expected count on the tree is zero)
    probe = ast.parse("def ones(shape, dtype=float):\n    return Function(numpy.ones(shape, dtype.x))\n")
    if len(_unwrap_sites([probe.body[0]])) != 2:
        r.unknown('R-rec-unwrap:selftest', 'the matcher no longer recognises its positive example')
    n = 0
    for modname in DISPATCH_MODULES:
        mi = m.modules.get(modname)
        if mi is None:
            continue
        for fi in mi.functions.values():
            n += 1
            hits = _unwrap_sites([fi.node])
            if hits:
                for fn, node, what in hits:
                    r.bad(Finding('R-rec-unwrap', _f(fi), norm(node)[:60], '%s %s instead of recording the operation: every replay sees the value of the recording run'
                                  % (fi.qualname, what), fi.file, true_line(node.lineno)))
            else:
                r.ok(construct=_f(fi))
    r.floor = 60
    return r


def rule_drv_dtype(ctx):
    r = RuleResult('R-drv-dtype', 'a seed / work buffer that a driver of CGraph allocates with an explicit dtype derived from some of its arguments only receives '
                                  'data derived from those arguments: storing another argument into it (a direction `v` into a buffer typed like the point `x`) '
                                  'casts that argument to the buffer\'s dtype (integer points truncate the direction)')
    m = ctx.model
    ci = m.cls('CGraph')
    if ci is None:
        raise AnalysisError('R-drv-dtype', TRACER, 'class CGraph vanished')
    n_alloc = 0
    for name, fi in sorted(ci.methods.items()):
        params = set(fi.value_params())
        if not params:
            continue
        # names derived from each parameter (flow-insensitive closure over plain assignments)
        origin = {p: {p} for p in params}
        for _ in range(4):
            for st in walk_no_nested(fi.node):
                if isinstance(st, ast.Assign) and len(st.targets) == 1 and isinstance(st.targets[0], ast.Name):
                    src = set()
                    for x in ast.walk(st.value):
                        if isinstance(x, ast.Name) and x.id in origin:
                            src |= origin[x.id]
                    if src:
                        origin.setdefault(st.targets[0].id, set()).update(src)
        for st in walk_no_nested(fi.node):
            if not (isinstance(st, ast.Assign) and len(st.targets) == 1 and isinstance(st.targets[0], ast.Name) and isinstance(st.value, ast.Call)):
                continue
            c = st.value
            if (dotted_name(c.func) or '').split('.')[-1] not in ('zeros', 'empty', 'ones', 'zeros_like', 'empty_like', 'full'):
                continue
            n_alloc += 1
            dt = next((k.value for k in c.keywords if k.arg == 'dtype'), None)
            buf = st.targets[0].id
            if dt is None:
                r.ok(construct='%s:%s' % (_f(fi), buf), sample='%s: `%s` (default dtype)' % (fi.qualname, norm(st)[:60]))
                continue
            typed_by = set()
            for x in ast.walk(dt):
                if isinstance(x, ast.Name) and x.id in origin:
                    typed_by |= origin[x.id]
            if not typed_by:
                r.ok(construct='%s:%s' % (_f(fi), buf))
                continue
            bad = []
            for st2 in walk_no_nested(fi.node):
                if isinstance(st2, (ast.Assign, ast.AugAssign)) and st2 is not st:
                    tg = st2.targets if isinstance(st2, ast.Assign) else [st2.target]
                    if any(isinstance(t, ast.Subscript) and _store_bases(t) == [buf] for t in tg):
                        src = set()
                        for x in ast.walk(st2.value):
                            if isinstance(x, ast.Name) and x.id in origin:
                                src |= origin[x.id]
                        if (src & params) - typed_by:
                            bad.append((st2, sorted((src & params) - typed_by)))
            if bad:
                for st2, who in bad:
                    r.bad(Finding('R-drv-dtype', _f(fi), '%s<-%s' % (buf, ','.join(who)), '%s: `%s` takes its dtype from %s only, but `%s` stores data of %s into it: '
                                                                                          'that data is cast to the buffer\'s dtype' % (fi.qualname, norm(st)[:60], sorted(typed_by & params),
                                                                                                                                      norm(st2)[:50], who), fi.file, true_line(st2.lineno)))
            else:
                r.ok(construct='%s:%s' % (_f(fi), buf), nontrivial=True)
    r.floor = 5
    return r


# ----------------------------------------------------------------- R-uninit (uninitialised memory never reaches a result)
UNINIT_SCOPE = ('algopy.utpm.utpm', 'algopy.tracer.tracer', 'algopy.globalfuncs', 'algopy.utils', 'algopy.special.special', 'algopy.linalg.compound')
_EMPTY = ('empty', 'empty_like', 'ndarray')
_ZERO = ('zeros', 'zeros_like', '__zeros__', '__zeros_like__')


def _alloc_kind(c):
    if not isinstance(c, ast.Call):
        return None
    d = dotted_name(c.func) or (c.func.attr if isinstance(c.func, ast.Attribute) else '')
    last = d.split('.')[-1]
    if last in _EMPTY and (d.startswith('numpy.') or d == last):
        return 'empty'
    if last in _ZERO:
        return 'zeros'
    return None


def _whole_def_before(fn, b, stmt):
    """a statement before `stmt` (in source order) defines all of buffer b: `b[...] = e`, `b[:] = e`, numpy.copyto(b, e), b.fill(c), f(.., out=b)"""
    for s2 in walk_no_nested(fn):
        if not isinstance(s2, ast.stmt) or getattr(s2, 'lineno', 0) >= getattr(stmt, 'lineno', 0):
            continue
        if isinstance(s2, ast.Assign):
            for t in s2.targets:
                if isinstance(t, ast.Subscript) and norm(t.value) in (b, b + '.data'):
                    sl = t.slice
                    if (isinstance(sl, ast.Constant) and sl.value is Ellipsis) or (isinstance(sl, ast.Slice) and sl.lower is None and sl.upper is None and sl.step is None):
                        return True
        if isinstance(s2, ast.Expr) and isinstance(s2.value, ast.Call):
            c = s2.value
            if (dotted_name(c.func) or '') == 'numpy.copyto' and c.args and norm(c.args[0]) in (b, b + '.data', b + '[...]', b + '.data[...]'):
                return True
            if isinstance(c.func, ast.Attribute) and c.func.attr == 'fill' and norm(c.func.value) in (b, b + '.data'):
                return True
            if any(k.arg == 'out' and norm(k.value) in (b, b + '.data') for k in c.keywords):
                return True
    return False


def _uninit_findings(fn):
    """[(allocation stmt, reason)] for buffers obtained from numpy.empty / empty_like in function node fn whose contents are only
    partly defined before the buffer is read or leaves the function.  Decided cases: a whole-array definition (`b[...] = e`,
    `b[:] = e`, numpy.copyto(b, e), b.fill(c), `f(.., out=b)` as a statement) makes the buffer defined; stores that all carry a
    constant first index (`b[0, ...] = e`) into a buffer whose first extent is not the matching literal leave the other
    coefficients undefined -> reported; anything else (stores under loop variables) is left undecided and silent."""
    out = []
    for st in walk_no_nested(fn):
        if not (isinstance(st, ast.Assign) and len(st.targets) == 1 and isinstance(st.targets[0], ast.Name)):
            continue
        v = st.value
        inner = v
        # cls(numpy.empty(...)) / UTPM(numpy.empty(...)): the object's data is the buffer
        wrapped = False
        if isinstance(v, ast.Call) and norm(v.func) in ('cls', 'UTPM', 'algopy.UTPM', 'self.__class__') and len(v.args) == 1:
            inner, wrapped = v.args[0], True
        if _alloc_kind(inner) != 'empty':
            continue
        b = st.targets[0].id
        whole, const_first, other = False, [], False
        for s2 in walk_no_nested(fn):
            if s2 is st:
                continue
            tg = []
            if isinstance(s2, ast.Assign):
                tg = s2.targets
            elif isinstance(s2, ast.AugAssign):
                tg = [s2.target]
            for t in tg:
                base = t
                while isinstance(base, (ast.Subscript, ast.Attribute)):
                    if isinstance(base, ast.Attribute) and base.attr != 'data':
                        break
                    base = base.value
                if not (isinstance(base, ast.Name) and base.id == b and isinstance(t, ast.Subscript)):
                    continue
                sl = t.slice
                first = sl.elts[0] if isinstance(sl, ast.Tuple) and sl.elts else sl
                if isinstance(s2, ast.AugAssign):
                    other = True        # an update reads the old contents
                    if not _whole_def_before(fn, b, s2):
                        out.append((st, 'is updated in place (`%s`) before it has been defined' % norm(s2)[:50]))
                    break
                if (isinstance(first, ast.Constant) and first.value is Ellipsis) or (isinstance(first, ast.Slice) and first.lower is None and first.upper is None and first.step is None
                                                                                      and not (isinstance(sl, ast.Tuple) and any(not isinstance(e, ast.Slice) and not (isinstance(e, ast.Constant) and e.value is Ellipsis) for e in sl.elts[1:]))):
                    whole = True
                elif isinstance(first, ast.Constant) and isinstance(first.value, int):
                    const_first.append((first.value, s2))
                else:
                    other = True
            if isinstance(s2, ast.Expr) and isinstance(s2.value, ast.Call):
                c = s2.value
                if (dotted_name(c.func) or '') == 'numpy.copyto' and c.args and norm(c.args[0]) in (b, b + '.data', b + '[...]', b + '.data[...]'):
                    whole = True
                if isinstance(c.func, ast.Attribute) and c.func.attr == 'fill' and norm(c.func.value) in (b, b + '.data'):
                    whole = True
                if any(k.arg == 'out' and norm(k.value) in (b, b + '.data') for k in c.keywords):
                    whole = True        # the callee's own obligations (E2 O6 / coverage) decide whether it defines all of `out`
        if whole or other or not const_first:
            continue
        # only constant first indices: defined iff the first extent is a literal and every index below it is stored
        shape = inner.args[0] if inner.args else None
        ext = None
        if isinstance(shape, ast.Tuple) and shape.elts and isinstance(shape.elts[0], ast.Constant) and isinstance(shape.elts[0].value, int):
            ext = shape.elts[0].value
        elif isinstance(shape, ast.BinOp) and isinstance(shape.op, ast.Add) and isinstance(shape.left, ast.Tuple) and shape.left.elts \
                and isinstance(shape.left.elts[0], ast.Constant) and isinstance(shape.left.elts[0].value, int):
            ext = shape.left.elts[0].value
        have = {i for i, _ in const_first}
        if ext is not None and set(range(ext)) <= have:
            continue
        out.append((st, 'only receives %s; the other coefficients keep whatever the allocator found in memory'
                    % ', '.join('`%s`' % norm(s_)[:40] for _, s_ in const_first[:2])))
    return out


def rule_uninit_tracer(ctx):
    return rule_uninit(ctx, only=(TRACER,), rid='R-uninit.tracer', floor=70)


def rule_uninit(ctx, only=None, rid='R-uninit', floor=300):
    r = RuleResult(rid, 'no result is built on uninitialised memory: (a) the allocators named zeros (`__zeros__`, `__zeros_like__`, `UTPM.zeros`, '
                               '`UTPM.zeros_like`, `ones_like`) obtain their storage from numpy.zeros / zeros_like - every accumulating kernel and every adjoint '
                               'relies on it; (b) outside the kernels (which E2 covers with O6 / coverage) a buffer from numpy.empty / empty_like is defined as a '
                               'whole before use - a buffer that only receives stores with a constant first index keeps uninitialised higher coefficients, whose '
                               'contents depend on what ran before')
    m = ctx.model
    # positive example for the zero-count clause (b)
    probe = ast.parse("def f(D, P, M):\n    ybar = numpy.empty((D, P, M))\n    ybar[0, ...] = numpy.eye(M)\n    return ybar\n").body[0]
    if len(_uninit_findings(probe)) != 1:
        r.unknown(rid + ':selftest', 'the matcher no longer recognises its positive example')
    # (a) allocator contract
    n_alloc = 0
    for modname in (() if only else ('algopy.utpm.algorithms', 'algopy.utpm.utpm')):
        mi = m.modules.get(modname)
        if mi is None:
            continue
        for ci in mi.classes.values():
            for name, fi in ci.methods.items():
                if name.strip('_') not in ('zeros', 'zeros_like', 'ones_like'):
                    continue
                allocs = [c for c in walk_no_nested(fi.node) if _alloc_kind(c) is not None]
                if not allocs:
                    continue
                n_alloc += 1
                bad = [c for c in allocs if _alloc_kind(c) == 'empty']
                if bad:
                    r.bad(Finding(rid, _f(fi), 'allocator:' + norm(bad[0])[:40], '%s hands out uninitialised memory (`%s`): callers accumulate into what it returns'
                                  % (fi.qualname, norm(bad[0])[:50]), fi.file, true_line(bad[0].lineno)))
                else:
                    r.ok(construct='allocator:' + _f(fi), nontrivial=True, sample='%s: `%s`' % (fi.qualname, norm(allocs[0])[:50]))
    if n_alloc < 4 and not only:
        r.unknown(rid + ':allocators', 'fewer than 4 zero-allocators found (%d)' % n_alloc)
    # (b) partly defined uninitialised buffers
    for modname in (only or UNINIT_SCOPE):
        mi = m.modules.get(modname)
        if mi is None:
            continue
        fns = list(mi.functions.values())
        for ci in mi.classes.values():
            fns.extend(ci.methods.values())
        for fi in fns:
            hits = _uninit_findings(fi.node)
            for st, why in hits:
                r.bad(Finding(rid, _f(fi), 'buffer:' + norm(st)[:50], '%s: `%s` %s' % (fi.qualname, norm(st)[:60], why), fi.file, true_line(st.lineno)))
            if not hits:
                r.ok(construct=_f(fi))
    r.floor = floor
    return r


def _coercions(fn):
    """[(node, what)]: conversions of a value derived from a parameter of fn to a fixed dtype / Python type:
    numpy.asarray / array / asanyarray / ascontiguousarray(v, dtype=..), v.astype(..), float(v) / int(v) / complex(v), v.real / v.imag"""
    a = fn.args
    params = {x.arg for x in a.posonlyargs + a.args + a.kwonlyargs} - {'self', 'cls'}
    derived = set(params)
    for _ in range(3):
        for n in ast.walk(fn):
            tg, src = None, None
            if isinstance(n, ast.Assign) and len(n.targets) == 1 and isinstance(n.targets[0], ast.Name):
                tg, src = [n.targets[0].id], n.value
            elif isinstance(n, (ast.For, ast.comprehension)):
                tg, src = [x.id for x in ast.walk(n.target) if isinstance(x, ast.Name)], n.iter
            if tg and src is not None and any(isinstance(x, ast.Name) and x.id in derived for x in ast.walk(src)):
                derived |= set(tg)
    out = []

    def from_param(e):
        return any(isinstance(x, ast.Name) and x.id in derived for x in ast.walk(e))
    for n in ast.walk(fn):
        if isinstance(n, ast.Call):
            d = dotted_name(n.func) or ''
            if d in ('numpy.asarray', 'numpy.array', 'numpy.asanyarray', 'numpy.ascontiguousarray', 'numpy.asfarray') and n.args and from_param(n.args[0]) \
                    and (d == 'numpy.asfarray' or any(k.arg == 'dtype' and not (isinstance(k.value, ast.Constant) and k.value.value is None) for k in n.keywords)
                         or len(n.args) > 1):
                out.append((n, 'converts an argument to a fixed dtype: `%s`' % norm(n)[:60]))
            elif isinstance(n.func, ast.Attribute) and n.func.attr == 'astype' and from_param(n.func.value):
                out.append((n, 'casts an argument: `%s`' % norm(n)[:60]))
            elif isinstance(n.func, ast.Name) and n.func.id in ('float', 'int', 'complex') and len(n.args) == 1 and from_param(n.args[0]) \
                    and not isinstance(n.args[0], ast.Call):
                out.append((n, 'converts an argument to a Python %s: `%s`' % (n.func.id, norm(n)[:60])))
    return out


_DRIVER_NAMES = {'gradient', 'jacobian', 'jac_vec', 'vec_jac', 'hessian', 'hess_vec', 'vec_hess', 'vec_hess_vec'}


def rule_replay_coerce(ctx):
    return rule_drv_coerce(ctx, which='replay')


def rule_drv_coerce(ctx, which='drivers'):
    r = RuleResult('R-drv-coerce' if which == 'drivers' else 'R-replay-coerce', 'the drivers and the replay entry points of CGraph hand the caller\'s values on with the dtype they have: no '
                                   '`numpy.asarray(x, dtype=float)`, `.astype(...)`, `float(x)` of an argument - a complex (or float32, integer) input would '
                                   'silently be evaluated as another number. `numpy.asarray(x)` without a dtype keeps the value and is the accepted idiom')
    m = ctx.model
    ci = m.cls('CGraph')
    if ci is None:
        raise AnalysisError('R-drv-coerce', TRACER, 'class CGraph vanished')
    probe = ast.parse("def function(self, x_list):\n    x_list = [numpy.asarray(x, dtype=float) for x in x_list]\n    return x_list\n").body[0]
    if len(_coercions(probe)) != 1:
        r.unknown('R-drv-coerce:selftest', 'the matcher no longer recognises its positive example')
    for name, fi in sorted(ci.methods.items()):
        if (name in _DRIVER_NAMES) != (which == 'drivers'):
            continue
        hits = _coercions(fi.node)
        for node, what in hits:
            r.bad(Finding(r.rule, _f(fi), norm(node)[:60], '%s %s' % (fi.qualname, what), fi.file, true_line(node.lineno)))
        if not hits:
            r.ok(construct=_f(fi))
    r.floor = 6
    return r


def _uninit_kernel_findings(fn, out_index):
    """kernels: (a) an uninitialised allocation written inline as a call argument anywhere but at the callee's output position;
    (b) a local bound to numpy.empty / empty_like that is read but never written (no subscript store, no `out=` / output position,
    no in-place update, no fill / copyto) - whoever reads it sees what the allocator found in memory.  out_index(call) -> position of
    the callee's output parameter among the positional arguments, or None"""
    out = []
    empties = {}
    for st in walk_no_nested(fn):
        if isinstance(st, ast.Assign) and len(st.targets) == 1 and isinstance(st.targets[0], ast.Name) and _alloc_kind(st.value) == 'empty':
            empties.setdefault(st.targets[0].id, []).append(st)
    for c in walk_no_nested(fn):
        if not isinstance(c, ast.Call):
            continue
        oi = out_index(c)
        for i, a in enumerate(c.args):
            if _alloc_kind(a) == 'empty' and oi != i:
                out.append((a, 'passes an uninitialised array (`%s`) as an input of `%s`' % (norm(a)[:40], norm(c.func)[:30])))
        for k in c.keywords:
            if _alloc_kind(k.value) == 'empty' and k.arg not in ('out', 'work'):
                out.append((k.value, 'passes an uninitialised array (`%s`) as `%s=` of `%s`' % (norm(k.value)[:40], k.arg, norm(c.func)[:30])))
    stored_names = {x.id for n in ast.walk(fn) if isinstance(n, ast.Name) and isinstance(n.ctx, ast.Store) for x in [n]}
    for name, sts in empties.items():
        if len(sts) != 1 or sum(1 for n in ast.walk(fn) if isinstance(n, ast.Name) and n.id == name and isinstance(n.ctx, ast.Store)) != 1:
            continue
        written = False
        for n in walk_no_nested(fn):
            tg = n.targets if isinstance(n, ast.Assign) else ([n.target] if isinstance(n, ast.AugAssign) else [])
            for t in tg:
                b = t
                while isinstance(b, (ast.Subscript, ast.Attribute)):
                    b = b.value
                if isinstance(b, ast.Name) and b.id == name and not isinstance(t, ast.Name):
                    written = True
                if isinstance(n, ast.AugAssign) and isinstance(t, ast.Name) and t.id == name:
                    written = True
            if isinstance(n, ast.Call):
                oi = out_index(n)
                if any(k.arg in ('out', 'work') and any(isinstance(x, ast.Name) and x.id == name for x in ast.walk(k.value)) for k in n.keywords):
                    written = True
                if oi is not None and oi < len(n.args) and any(isinstance(x, ast.Name) and x.id == name for x in ast.walk(n.args[oi])):
                    written = True
                d = dotted_name(n.func) or ''
                if d in ('numpy.copyto', 'numpy.put', 'numpy.place') and n.args and any(isinstance(x, ast.Name) and x.id == name for x in ast.walk(n.args[0])):
                    written = True
                # handed to a routine outside numpy / scipy / the kernels of the package (a compiled extension): it may be a work or output buffer there
                head = d.split('.')[0] if d else ''
                if head not in ('numpy', 'scipy', 'math', 'cls', 'self', 'UTPM', '') and out_index(n) is None \
                        and any(isinstance(x, ast.Name) and x.id == name for a_ in list(n.args) + [k.value for k in n.keywords] for x in ast.walk(a_)):
                    written = True
                if isinstance(n.func, ast.Attribute) and n.func.attr in ('fill', 'sort', 'itemset', 'put') and any(isinstance(x, ast.Name) and x.id == name for x in ast.walk(n.func.value)):
                    written = True
            # an alias (`z_data = tmp`, a view) may be written instead: not decided here
            if isinstance(n, ast.Assign) and isinstance(n.value, (ast.Name, ast.Subscript, ast.Attribute)) \
                    and any(isinstance(x, ast.Name) and x.id == name for x in ast.walk(n.value)) and n is not sts[0]:
                written = True
            if isinstance(n, (ast.Return, ast.Yield)) and n.value is not None and any(isinstance(x, ast.Name) and x.id == name for x in ast.walk(n.value)):
                pass
        reads = [n for n in walk_no_nested(fn) if isinstance(n, ast.Name) and n.id == name and isinstance(n.ctx, ast.Load)]
        if not written and reads:
            out.append((sts[0], 'is read (`%s`) but never written: its contents are whatever the allocator found in memory' % name))
    return out


def rule_uninit_kernels(ctx):
    r = RuleResult('R-uninit.kernels', 'in the kernels an array from numpy.empty / empty_like is a destination, never a source: it is passed inline only at the '
                                       'output position of the callee, and a local bound to one is written (store, `out=`, in-place update) before anyone '
                                       'can read it - a work array that is *used as zeros* must come from numpy.zeros (complements E2, which tracks which '
                                       'coefficients are defined, not that an allocation supplies the value 0)')
    m = ctx.model
    import json
    import os
    try:
        known = json.load(open(os.path.join(os.path.dirname(os.path.abspath(__file__)), 'known_out_positions.json')))
    except Exception:
        known = {}
    by_name = {k.split('.')[-1]: v for k, v in known.items()}

    def out_index(c):
        nm = c.func.attr if isinstance(c.func, ast.Attribute) else (c.func.id if isinstance(c.func, ast.Name) else None)
        fi_ = m.lookup_method('UTPM', nm) if nm else None
        if fi_ is not None and 'out' in fi_.value_params():
            return fi_.value_params().index('out')
        return by_name.get(nm)
    probe = ast.parse("def _pb_sign(cls, ybar_data, x_data, y_data, out=None):\n    tmp = numpy.empty_like(x_data)\n    cls._amul(ybar_data, tmp, out)\n").body[0]
    if len(_uninit_kernel_findings(probe, lambda c: 2 if isinstance(c.func, ast.Attribute) and c.func.attr == '_amul' else None)) != 1:
        r.unknown('R-uninit.kernels:selftest', 'the matcher no longer recognises its positive example')
    mi = m.modules.get('algopy.utpm.algorithms')
    fns = list(mi.functions.values())
    for ci in mi.classes.values():
        fns.extend(ci.methods.values())
    for fi in fns:
        hits = _uninit_kernel_findings(fi.node, out_index)
        for node, why in hits:
            r.bad(Finding('R-uninit.kernels', _f(fi), norm(node)[:50], '%s: `%s` %s' % (fi.qualname, norm(node)[:50], why), fi.file, true_line(node.lineno)))
        if not hits:
            r.ok(construct=_f(fi))
    r.floor = 80
    return r
