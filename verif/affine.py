"""
Affine integer/rational expressions over named symbols, loop-variable ranges,
and the two decision procedures E2 needs:

  * prove_nonneg(expr, ranges, assumptions): symbolic proof that expr >= 0 for
    every valuation of the loop variables in their ranges (valid for all D);
  * witness(pred, ranges, ...): bounded enumeration of concrete valuations
    (truncation degree up to DMAX) to *confirm* a violation - a VIOLATION is
    only reported with a concrete witness, everything else is UNKNOWN.
"""
import ast
import itertools
from fractions import Fraction

DMAX = 7


class Aff:
    __slots__ = ('t', 'c')

    def __init__(self, terms=None, const=0):
        self.t = {k: Fraction(v) for k, v in (terms or {}).items() if v != 0}
        self.c = Fraction(const)

    @staticmethod
    def var(name):
        return Aff({name: 1}, 0)

    @staticmethod
    def const(c):
        return Aff({}, c)

    def __add__(self, o):
        o = _aff(o)
        t = dict(self.t)
        for k, v in o.t.items():
            t[k] = t.get(k, 0) + v
        return Aff(t, self.c + o.c)

    __radd__ = __add__

    def __neg__(self):
        return Aff({k: -v for k, v in self.t.items()}, -self.c)

    def __sub__(self, o):
        return self + (-_aff(o))

    def __rsub__(self, o):
        return _aff(o) - self

    def scale(self, k):
        k = Fraction(k)
        return Aff({a: v * k for a, v in self.t.items()}, self.c * k)

    def subs(self, name, val):
        if name not in self.t:
            return self
        k = self.t[name]
        t = dict(self.t)
        del t[name]
        return Aff(t, self.c) + _aff(val).scale(k)

    def coeff(self, name):
        return self.t.get(name, Fraction(0))

    @property
    def is_const(self):
        return not self.t

    def vars(self):
        return set(self.t)

    def __eq__(self, o):
        if not isinstance(o, (Aff, int, Fraction)):
            return NotImplemented
        o = _aff(o)
        return self.t == o.t and self.c == o.c

    def __ne__(self, o):
        r = self.__eq__(o)
        return r if r is NotImplemented else not r

    def __hash__(self):
        return hash((tuple(sorted(self.t.items())), self.c))

    def eval(self, val):
        s = self.c
        for k, v in self.t.items():
            s += v * val[k]
        return s

    def __repr__(self):
        parts = []
        for k in sorted(self.t):
            v = self.t[k]
            if v == 1:
                parts.append('+' + k)
            elif v == -1:
                parts.append('-' + k)
            else:
                parts.append('%+g*%s' % (float(v), k) if v.denominator != 1 else '%+d*%s' % (int(v), k))
        if self.c != 0 or not parts:
            parts.append('%+d' % int(self.c) if self.c.denominator == 1 else '%+g' % float(self.c))
        s = ''.join(parts)
        return s[1:] if s.startswith('+') else s


def _aff(x):
    if isinstance(x, Aff):
        return x
    return Aff({}, x)


def to_aff(node, env):
    """ast expression -> Aff, or None if not affine.  env: name -> Aff (names
    bound to affine values); unknown names become symbols of their own."""
    if isinstance(node, ast.Constant):
        if isinstance(node.value, bool) or not isinstance(node.value, int):
            return None
        return Aff.const(node.value)
    if isinstance(node, ast.Name):
        if node.id in env:
            return env[node.id]
        return Aff.var(node.id)
    if isinstance(node, ast.UnaryOp) and isinstance(node.op, ast.USub):
        a = to_aff(node.operand, env)
        return None if a is None else -a
    if isinstance(node, ast.UnaryOp) and isinstance(node.op, ast.UAdd):
        return to_aff(node.operand, env)
    if isinstance(node, ast.BinOp):
        a = to_aff(node.left, env)
        b = to_aff(node.right, env)
        if a is None or b is None:
            return None
        if isinstance(node.op, ast.Add):
            return a + b
        if isinstance(node.op, ast.Sub):
            return a - b
        if isinstance(node.op, ast.Mult):
            if a.is_const:
                return b.scale(a.c)
            if b.is_const:
                return a.scale(b.c)
            return None
        return None
    return None


class Ranges:
    """ordered list of (var, lo Aff, hi Aff) inclusive; later entries may depend
    on earlier ones.  `syms` are global symbols with a minimum value."""

    def __init__(self, items=None, symmin=None):
        self.items = list(items or [])
        self.symmin = dict(symmin or {})

    def push(self, var, lo, hi):
        r = Ranges(self.items + [(var, _aff(lo), _aff(hi))], self.symmin)
        return r

    def with_sym(self, name, mn):
        r = Ranges(self.items, self.symmin)
        r.symmin[name] = mn
        return r

    def vars(self):
        return [v for v, _, _ in self.items]

    def get(self, var):
        for v, lo, hi in self.items:
            if v == var:
                return lo, hi
        return None


def lower_bound(e, ranges):
    """an Aff in global symbols that is <= e for every valuation in the ranges
    (assuming every range is non-empty)"""
    e = _aff(e)
    for var, lo, hi in reversed(ranges.items):
        k = e.coeff(var)
        if k > 0:
            e = e.subs(var, lo)
        elif k < 0:
            e = e.subs(var, hi)
    return e


def sym_nonneg(e, ranges):
    """e (only global symbols left) >= 0 given symbol minima; symbols without a
    known minimum must have coefficient 0"""
    s = e.c
    for k, v in e.t.items():
        if k not in ranges.symmin:
            return False
        if v < 0:
            return False
        s += v * ranges.symmin[k]
    return s >= 0


def prove_nonneg(e, ranges):
    """e >= 0 for all valuations.  Uses, besides the range bounds themselves, the
    fact that a statement only executes when every enclosing range is non-empty
    (hi - lo >= 0): e >= q >= 0 for such a q proves the claim as well."""
    e = _aff(e)
    if sym_nonneg(lower_bound(e, ranges), ranges):
        return True
    qs = [hi - lo for _, lo, hi in ranges.items]
    for q in qs:
        if sym_nonneg(lower_bound(e - q, ranges), ranges):
            return True
    for i, q in enumerate(qs):
        for q2 in qs[i + 1:]:
            if sym_nonneg(lower_bound(e - q - q2, ranges), ranges):
                return True
    return False


def prove_le(a, b, ranges):
    return prove_nonneg(_aff(b) - _aff(a), ranges)


def prove_eq(a, b):
    return _aff(a) == _aff(b)


def enumerate_valuations(ranges, dsyms, extra=(), dmax=DMAX, limit=40000):
    """concrete valuations: every degree symbol in 1..dmax, every other free
    symbol (P, N, M, r, ...) fixed to a small value, loop variables over their
    (evaluated) ranges"""
    import math
    bound = set(v for v, _, _ in ranges.items)
    free = set()
    for _, lo, hi in ranges.items:
        free |= lo.vars() | hi.vars()
    for e in extra:
        free |= e.vars()
    free -= bound
    dsyms = [d for d in dsyms]
    others = sorted(free - set(dsyms))
    count = [0]

    def rec(i, val):
        if count[0] > limit:
            return
        if i == len(ranges.items):
            count[0] += 1
            yield dict(val)
            return
        var, lo, hi = ranges.items[i]
        l = math.ceil(lo.eval(val))
        h = math.floor(hi.eval(val))
        for x in range(int(l), int(h) + 1):
            val[var] = x
            for r in rec(i + 1, val):
                yield r
        val.pop(var, None)

    for dv in itertools.product(range(1, dmax + 1), repeat=len(dsyms)):
        val0 = dict(zip(dsyms, dv))
        for o in others:
            val0[o] = max(ranges.symmin.get(o, 1), 3)
        for v in rec(0, val0):
            yield v


class _Default(dict):
    """valuation that assigns a small default to symbols it has never seen"""

    def __missing__(self, k):
        return 3


def find_witness(pred, ranges, dsyms, needed_vars=()):
    """first concrete valuation for which pred(val) is True, else None"""
    for val in enumerate_valuations(ranges, list(dsyms)):
        if pred(_Default(val)):
            return val
    return None
