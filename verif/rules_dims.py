"""
E7 rules: symbolic shape checking of the linear-algebra kernels, their pullbacks and the UTPM wrappers (see shapes.py).

The signature table is the rule-instance table of this engine: every entry was confirmed by reading the function (which
argument is the matrix, which the right-hand side, what the tracer passes).  Dimension symbols inside one alternative are
pairwise different unless an alternative says otherwise (`order_rel`: N <= M for the economy QR).
"""
import ast

from .core import RuleResult, Finding
from .model import norm
from .shapes import check_function

ALGO = 'algopy.utpm.algorithms'
UTPM_MOD = 'algopy.utpm.utpm'

DP = ('D', 'P')


def _a(*dims):
    return DP + tuple(dims)


def sig(order, ret=None, name=None, order_rel=None, facts=None, strict=False, **params):
    return {'order': order, 'params': params, 'ret': ret, 'name': name, 'order_rel': order_rel or {}, 'facts': facts or {}, 'strict': strict}


# kernels of RawAlgorithmsMixIn -------------------------------------------------------------------------------------------
KERNEL_SIGS = {
    '_dot': [
        sig(['x_data', 'y_data', 'out'], name='matrix.matrix', x_data=_a('N', 'K'), y_data=_a('K', 'M'), out=_a('N', 'M'), ret=_a('N', 'M')),
        sig(['x_data', 'y_data', 'out'], name='matrix.vector', x_data=_a('N', 'K'), y_data=_a('K'), out=_a('N'), ret=_a('N')),
        sig(['x_data', 'y_data', 'out'], name='vector.matrix', x_data=_a('K'), y_data=_a('K', 'M'), out=_a('M'), ret=_a('M')),
        sig(['x_data', 'y_data', 'out'], name='vector.vector', x_data=_a('K'), y_data=_a('K'), out=_a(), ret=_a()),
        sig(['x_data', 'y_data', 'out'], name='tensor.matrix', x_data=_a('A', 'N', 'K'), y_data=_a('K', 'M'), out=_a('A', 'N', 'M'), ret=_a('A', 'N', 'M')),
        sig(['x_data', 'y_data', 'out'], name='matrix.tensor', x_data=_a('N', 'K'), y_data=_a('B', 'K', 'M'), out=_a('N', 'B', 'M'), ret=_a('N', 'B', 'M')),
    ],
    '_dot_pullback': [
        sig(['zbar_data', 'x_data', 'y_data', 'z_data', 'out'], name='matrix.matrix', zbar_data=_a('N', 'M'), x_data=_a('N', 'K'), y_data=_a('K', 'M'),
            z_data=_a('N', 'M'), out=('tuple', [_a('N', 'K'), _a('K', 'M')])),
        sig(['zbar_data', 'x_data', 'y_data', 'z_data', 'out'], name='matrix.vector', zbar_data=_a('N'), x_data=_a('N', 'K'), y_data=_a('K'),
            z_data=_a('N'), out=('tuple', [_a('N', 'K'), _a('K')])),
        sig(['zbar_data', 'x_data', 'y_data', 'z_data', 'out'], name='vector.matrix', zbar_data=_a('M'), x_data=_a('K'), y_data=_a('K', 'M'),
            z_data=_a('M'), out=('tuple', [_a('K'), _a('K', 'M')])),
    ],
    '_dot_non_UTPM_y': [
        sig(['x_data', 'y_data', 'out'], name='matrix.matrix', x_data=_a('N', 'K'), y_data=('K', 'M'), out=_a('N', 'M'), ret=_a('N', 'M')),
        sig(['x_data', 'y_data', 'out'], name='matrix.vector', x_data=_a('N', 'K'), y_data=('K',), out=_a('N'), ret=_a('N')),
    ],
    '_dot_non_UTPM_x': [
        sig(['x_data', 'y_data', 'out'], name='matrix.matrix', x_data=('N', 'K'), y_data=_a('K', 'M'), out=_a('N', 'M'), ret=_a('N', 'M')),
        sig(['x_data', 'y_data', 'out'], name='matrix.vector', x_data=('N', 'K'), y_data=_a('K'), out=_a('N'), ret=_a('N')),
    ],
    '_outer': [sig(['x_data', 'y_data', 'out'], x_data=_a('N'), y_data=_a('M'), out=_a('N', 'M'), ret=_a('N', 'M'))],
    '_outer_non_utpm_y': [sig(['x_data', 'y', 'out'], x_data=_a('N'), y=('M',), out=_a('N', 'M'), ret=_a('N', 'M'))],
    '_outer_non_utpm_x': [sig(['x', 'y_data', 'out'], x=('N',), y_data=_a('M'), out=_a('N', 'M'), ret=_a('N', 'M'))],
    '_outer_pullback': [sig(['zbar_data', 'x_data', 'y_data', 'z_data', 'out'], zbar_data=_a('N', 'M'), x_data=_a('N'), y_data=_a('M'), z_data=_a('N', 'M'),
                            out=('tuple', [_a('N'), _a('M')]))],
    '_inv': [sig(['x_data', 'out'], x_data=_a('N', 'N'), out=('tuple', [_a('N', 'N')]), ret=_a('N', 'N'))],
    '_inv_pullback': [sig(['ybar_data', 'x_data', 'y_data', 'out'], ybar_data=_a('N', 'N'), x_data=_a('N', 'N'), y_data=_a('N', 'N'), out=_a('N', 'N'))],
    '_solve': [sig(['A_data', 'x_data', 'out'], A_data=_a('N', 'N'), x_data=_a('N', 'K'), out=_a('N', 'K'), ret=_a('N', 'K'))],
    '_solve_pullback': [sig(['ybar_data', 'A_data', 'x_data', 'y_data', 'out'], ybar_data=_a('N', 'K'), A_data=_a('N', 'N'), x_data=_a('N', 'K'), y_data=_a('N', 'K'),
                            out=('tuple', [_a('N', 'N'), _a('N', 'K')]))],
    '_solve_non_UTPM_A': [sig(['A_data', 'x_data', 'out'], A_data=('N', 'N'), x_data=_a('N', 'K'), out=_a('N', 'K'), ret=_a('N', 'K'))],
    '_solve_non_UTPM_x': [sig(['A_data', 'x_data', 'out'], A_data=_a('N', 'N'), x_data=('N', 'K'), out=_a('N', 'K'), ret=_a('N', 'K'))],
    '_iouter': [
        sig(['x_data', 'y_data', 'out_data'], name='matrix', x_data=_a('N', 'K'), y_data=_a('M', 'K'), out_data=_a('N', 'M'), ret=_a('N', 'M'),
            facts={'len(cls._shape(x_data)) == 1': False, 'len(cls._shape(y_data)) == 1': False}),
    ],
    '_qr_rectangular': [sig(['A_data', 'out'], order_rel={('N', 'M'): 'N'}, A_data=_a('M', 'N'), out=('tuple', [_a('M', 'N'), _a('N', 'N')]))],
    '_qr_rectangular_pullback': [sig(['Qbar_data', 'Rbar_data', 'A_data', 'Q_data', 'R_data', 'out'], order_rel={('N', 'M'): 'N'}, Qbar_data=_a('M', 'N'), Rbar_data=_a('N', 'N'),
                                     A_data=_a('M', 'N'), Q_data=_a('M', 'N'), R_data=_a('N', 'N'), out=_a('M', 'N'))],
    '_qr': [
        sig(['A_data', 'out', 'work', 'epsilon'], name='tall', order_rel={('N', 'M'): 'N'}, A_data=_a('M', 'N'), out=('tuple', [_a('M', 'N'), _a('N', 'N')])),
        sig(['A_data', 'out', 'work', 'epsilon'], name='wide', order_rel={('N', 'M'): 'M'}, strict=True, A_data=_a('M', 'N'), out=('tuple', [_a('M', 'M'), _a('M', 'N')])),
    ],
    '_qr_pullback': [
        sig(['Qbar_data', 'Rbar_data', 'A_data', 'Q_data', 'R_data', 'out'], name='tall', order_rel={('N', 'M'): 'N'}, Qbar_data=_a('M', 'N'), Rbar_data=_a('N', 'N'),
            A_data=_a('M', 'N'), Q_data=_a('M', 'N'), R_data=_a('N', 'N'), out=_a('M', 'N')),
        sig(['Qbar_data', 'Rbar_data', 'A_data', 'Q_data', 'R_data', 'out'], name='wide', order_rel={('N', 'M'): 'M'}, strict=True, Qbar_data=_a('M', 'M'), Rbar_data=_a('M', 'N'),
            A_data=_a('M', 'N'), Q_data=_a('M', 'M'), R_data=_a('M', 'N'), out=_a('M', 'N')),
    ],
    '_qr_full': [sig(['A_data', 'out'], order_rel={('N', 'M'): 'N'}, A_data=_a('M', 'N'), out=('tuple', [_a('M', 'M'), _a('M', 'N')]))],
    '_qr_full_pullback': [sig(['Qbar_data', 'Rbar_data', 'A_data', 'Q_data', 'R_data', 'out'], order_rel={('N', 'M'): 'N'}, Qbar_data=_a('M', 'M'), Rbar_data=_a('M', 'N'),
                              A_data=_a('M', 'N'), Q_data=_a('M', 'M'), R_data=_a('M', 'N'), out=_a('M', 'N'))],
    '_diag': [
        sig(['v_data', 'k', 'out'], name='vector', v_data=_a('N'), ret=_a('N', 'N'), facts={'numpy.ndim(v_data) == 3': True}),
    ],
    '_diag_pullback': [sig(['ybar_data', 'x_data', 'y_data', 'k', 'out'], name='vector', ybar_data=_a('N', 'N'), x_data=_a('N'), y_data=_a('N', 'N'), out=_a('N'))],
}

# UTPM-level wrappers (parameters are UTPM objects: ('obj', dims of .data)) -----------------------------------------------


def _o(*dims):
    return ('obj', DP + tuple(dims))


WRAPPER_SIGS = {
    'dot': [
        sig(['x', 'y', 'out'], name='UTPM.UTPM matrix.matrix', x=_o('N', 'K'), y=_o('K', 'M'), ret_obj=None,
            facts={'isinstance(x, UTPM) and isinstance(y, UTPM)': True}),
        sig(['x', 'y', 'out'], name='UTPM.UTPM matrix.vector', x=_o('N', 'K'), y=_o('K'),
            facts={'isinstance(x, UTPM) and isinstance(y, UTPM)': True}),
        sig(['x', 'y', 'out'], name='UTPM.UTPM tensor.matrix', x=_o('A', 'N', 'K'), y=_o('K', 'M'),
            facts={'isinstance(x, UTPM) and isinstance(y, UTPM)': True}),
        sig(['x', 'y', 'out'], name='UTPM.UTPM matrix.tensor', x=_o('N', 'K'), y=_o('B', 'K', 'M'),
            facts={'isinstance(x, UTPM) and isinstance(y, UTPM)': True}),
        sig(['x', 'y', 'out'], name='UTPM.ndarray matrix.matrix', x=_o('N', 'K'), y=('K', 'M'),
            facts={'isinstance(x, UTPM) and isinstance(y, UTPM)': False, 'isinstance(x, UTPM) and (not isinstance(y, UTPM))': True}),
        sig(['x', 'y', 'out'], name='ndarray.UTPM matrix.matrix', x=('N', 'K'), y=_o('K', 'M'),
            facts={'isinstance(x, UTPM) and isinstance(y, UTPM)': False, 'isinstance(x, UTPM) and (not isinstance(y, UTPM))': False,
                   '(not isinstance(x, UTPM)) and isinstance(y, UTPM)': True}),
    ],
    'outer': [
        sig(['x', 'y', 'out'], name='UTPM.UTPM', x=_o('N'), y=_o('M'), facts={'isinstance(x, UTPM) and isinstance(y, UTPM)': True}),
        sig(['x', 'y', 'out'], name='UTPM.ndarray', x=_o('N'), y=('M',),
            facts={'isinstance(x, UTPM) and isinstance(y, UTPM)': False, 'isinstance(x, UTPM) and isinstance(y, numpy.ndarray)': True}),
        sig(['x', 'y', 'out'], name='ndarray.UTPM', x=('N',), y=_o('M'),
            facts={'isinstance(x, UTPM) and isinstance(y, UTPM)': False, 'isinstance(x, UTPM) and isinstance(y, numpy.ndarray)': False,
                   'isinstance(x, numpy.ndarray) and isinstance(y, UTPM)': True}),
    ],
    'pb_dot': [sig(['zbar', 'x', 'y', 'z', 'out'], name='matrix.matrix', zbar=_o('N', 'M'), x=_o('N', 'K'), y=_o('K', 'M'), z=_o('N', 'M'),
                   out=None, facts={'out is None': True}),
               sig(['zbar', 'x', 'y', 'z', 'out'], name='matrix.matrix, out given', zbar=_o('N', 'M'), x=_o('N', 'K'), y=_o('K', 'M'), z=_o('N', 'M'),
                   out=('tuple_obj', [_o('N', 'K'), _o('K', 'M')]), facts={'out is None': False})],
    'pb_outer': [sig(['zbar', 'x', 'y', 'z', 'out'], zbar=_o('N', 'M'), x=_o('N'), y=_o('M'), z=_o('N', 'M'), facts={'out is None': True}),
        sig(['zbar', 'x', 'y', 'z', 'out'], zbar=_o('N', 'M'), x=_o('N'), y=_o('M'), z=_o('N', 'M'), name='out given', out=('tuple_obj', [_o('N'), _o('M')]), facts={'out is None': False})],
    'pb_solve': [sig(['ybar', 'A', 'x', 'y', 'out'], ybar=_o('N', 'K'), A=_o('N', 'N'), x=_o('N', 'K'), y=_o('N', 'K'), facts={'out is None': True}),
        sig(['ybar', 'A', 'x', 'y', 'out'], ybar=_o('N', 'K'), A=_o('N', 'N'), x=_o('N', 'K'), y=_o('N', 'K'), name='out given', out=('tuple_obj', [_o('N', 'N'), _o('N', 'K')]), facts={'out is None': False})],
    'solve': [
        sig(['A', 'x', 'out'], name='UTPM.UTPM', A=_o('N', 'N'), x=_o('N', 'K'),
            facts={'isinstance(A, UTPM) and isinstance(x, UTPM)': True, 'out is None': True, 'A_shp[2] != x_shp[2]': False}),
        sig(['A', 'x', 'out'], name='ndarray.UTPM', A=('N', 'N'), x=_o('N', 'K'),
            facts={'isinstance(A, UTPM) and isinstance(x, UTPM)': False, '(not isinstance(A, UTPM)) and isinstance(x, UTPM)': True}),
        sig(['A', 'x', 'out'], name='UTPM.ndarray', A=_o('N', 'N'), x=('N', 'K'),
            facts={'isinstance(A, UTPM) and isinstance(x, UTPM)': False, '(not isinstance(A, UTPM)) and isinstance(x, UTPM)': False,
                   'isinstance(A, UTPM) and (not isinstance(x, UTPM))': True}),
    ],
    'qr': [sig(['A', 'out', 'work', 'epsilon'], order_rel={('N', 'M'): 'N'}, A=_o('M', 'N'), facts={'out is None': True})],
    'qr_full': [sig(['A', 'out', 'work'], order_rel={('N', 'M'): 'N'}, A=_o('M', 'N'), facts={'out is None': True})],
    'pb_qr': [sig(['Qbar', 'Rbar', 'A', 'Q', 'R', 'out'], order_rel={('N', 'M'): 'N'}, Qbar=_o('M', 'N'), Rbar=_o('N', 'N'), A=_o('M', 'N'), Q=_o('M', 'N'), R=_o('N', 'N'),
                  facts={'out is None': True}),
        sig(['Qbar', 'Rbar', 'A', 'Q', 'R', 'out'], order_rel={('N', 'M'): 'N'}, Qbar=_o('M', 'N'), Rbar=_o('N', 'N'), A=_o('M', 'N'), Q=_o('M', 'N'), R=_o('N', 'N'),
                  name='out given', out=('tuple_obj', [_o('M', 'N')]), facts={'out is None': False})],
    'pb_qr_full': [sig(['Qbar', 'Rbar', 'A', 'Q', 'R', 'out'], order_rel={('N', 'M'): 'N'}, Qbar=_o('M', 'M'), Rbar=_o('M', 'N'), A=_o('M', 'N'), Q=_o('M', 'M'), R=_o('M', 'N'),
                       facts={'out is None': True}),
        sig(['Qbar', 'Rbar', 'A', 'Q', 'R', 'out'], order_rel={('N', 'M'): 'N'}, Qbar=_o('M', 'M'), Rbar=_o('M', 'N'), A=_o('M', 'N'), Q=_o('M', 'M'), R=_o('M', 'N'),
                       name='out given', out=('tuple_obj', [_o('M', 'N')]), facts={'out is None': False})],
    'pb_diag': [sig(['ybar', 'x', 'y', 'k', 'out'], name='vector', ybar=_o('N', 'N'), x=_o('N'), y=_o('N', 'N'), facts={'out is None': True})],
    'pb_svd': [sig(['Ubar', 'sbar', 'Vbar', 'A', 'U', 's', 'V', 'out'], order_rel={('N', 'M'): 'M'}, Ubar=_o('M', 'M'), sbar=_o('M'), Vbar=_o('N', 'N'), A=_o('M', 'N'),
                   U=_o('M', 'M'), s=_o('M'), V=_o('N', 'N'), facts={'out is None': True}),
        sig(['Ubar', 'sbar', 'Vbar', 'A', 'U', 's', 'V', 'out'], order_rel={('N', 'M'): 'M'}, Ubar=_o('M', 'M'), sbar=_o('M'), Vbar=_o('N', 'N'), A=_o('M', 'N'),
                   U=_o('M', 'M'), s=_o('M'), V=_o('N', 'N'), name='out given', out=('tuple_obj', [_o('M', 'N')]), facts={'out is None': False})],
    'pb_trace': [sig(['ybar', 'x', 'y', 'out'], name='wide or square', order_rel={('N', 'M'): 'M'}, ybar=_o(), x=_o('M', 'N'), y=_o(), facts={'out is None': True}),
                 sig(['ybar', 'x', 'y', 'out'], name='tall', order_rel={('N', 'M'): 'N'}, strict=True, ybar=_o(), x=_o('M', 'N'), y=_o(), facts={'out is None': True})],
    'pb_inv': [sig(['ybar', 'x', 'y', 'out'], ybar=_o('N', 'N'), x=_o('N', 'N'), y=_o('N', 'N'), facts={'out is None': True}),
        sig(['ybar', 'x', 'y', 'out'], ybar=_o('N', 'N'), x=_o('N', 'N'), y=_o('N', 'N'), name='out given', out=('tuple_obj', [_o('N', 'N')]), facts={'out is None': False})],
}


def _actual(alt, fi):
    """the declared signature with the parameter names the function uses today (declared parameters are identified by position)"""
    import re
    vp = fi.value_params()
    order = alt['order']
    if len(vp) < len([p for p in order if p in alt['params']]) or len(vp) < len(order) - 1:
        return None
    ren = {}
    for i, p in enumerate(order):
        if i < len(vp):
            ren[p] = vp[i]
    if any(p not in ren for p in alt['params']):
        return None
    facts = {}
    for t, v in alt.get('facts', {}).items():
        for a, b in ren.items():
            t = re.sub(r'\b%s\b' % re.escape(a), '\0%s\0' % a, t)
        for a, b in ren.items():
            t = t.replace('\0%s\0' % a, b)
        facts[t] = v
    return dict(alt, order=[ren.get(p, p) for p in order], params={ren[p]: v for p, v in alt['params'].items()}, facts=facts)


def _callee_orders(model):
    """kernel name -> declared parameter name per position, and today's names (for keyword arguments at call sites)"""
    ci = model.cls('RawAlgorithmsMixIn')
    out = {}
    for name, alts in KERNEL_SIGS.items():
        fi = ci.methods.get(name) if ci else None
        if fi is not None:
            vp = fi.value_params()
            out[name] = {vp[i]: p for i, p in enumerate(alts[0]['order']) if i < len(vp)}
    return out


def _report(r, fi, alt, ctx, rule):
    seen = set()
    for node, text in ctx.conflicts:
        key = norm(node)[:90] if isinstance(node, ast.AST) and not isinstance(node, ast.FunctionDef) else 'signature'
        if (key, text[:60]) in seen:
            continue
        seen.add((key, text[:60]))
        r.bad(Finding(rule, fi.fq, '%s:%s' % (alt.get('name') or 'sig', key), '[dims] %s (%s): %s' % (fi.qualname, alt.get('name') or 'declared shapes', text),
                      fi.file, getattr(node, 'lineno', fi.lineno)))
    r.instances += ctx.decided
    r.holding += ctx.decided - len(seen)
    for s in ctx.samples[:1]:
        if len(r.samples) < 6:
            r.samples.append(s)
    if ctx.decided:
        r.nontrivial.add(fi.fq + ':' + str(alt.get('name')))


def _sigs_for_calls():
    """signatures visible to call sites: the kernels"""
    return KERNEL_SIGS


def rule_dims_kernels(names, rule, floor=10):
    def rule_fn(ctx):
        r = RuleResult(rule, 'symbolic shape check: under every declared signature (pairwise different dimension symbols N, K, M) every dot has equal '
                             'inner dimensions, every element-wise operation is broadcastable, every store / out= fits its target, inv/solve get square '
                             'matrices and every kernel call is accepted by a declared signature of the callee - what the square test matrices cannot show')
        m = ctx.model
        ci = m.cls('RawAlgorithmsMixIn')
        for name in names:
            fi = ci.methods.get(name) if ci else None
            if fi is None:
                r.unknown(ALGO + ':' + name, 'kernel vanished')
                continue
            for alt in KERNEL_SIGS[name]:
                alt = _actual(alt, fi)
                if alt is None:
                    r.unknown(fi.site(), 'the function has fewer parameters than its declared signature (signature table out of date)')
                    continue
                c = check_function(m, fi, alt, KERNEL_SIGS, _callee_orders(m))
                _report(r, fi, alt, c, rule)
        r.floor = floor
        return r
    rule_fn.__name__ = 'rule_dims_' + rule
    return rule_fn


def rule_dims_wrappers(names, rule, floor=4):
    def rule_fn(ctx):
        r = RuleResult(rule, 'symbolic shape check of the UTPM-level wrappers: the output array is allocated with the shape the kernel writes, '
                             'for operands of different extents (rows of the first, columns of the second operand)')
        m = ctx.model
        for name in names:
            fi = m.lookup_method('UTPM', name)
            if fi is None:
                r.unknown(UTPM_MOD + ':UTPM.' + name, 'method vanished')
                continue
            for alt in WRAPPER_SIGS[name]:
                alt = dict(alt, params={k: v for k, v in alt['params'].items() if k != 'ret_obj'})
                alt = _actual(alt, fi)
                if alt is None:
                    r.unknown(fi.site(), 'the method has fewer parameters than its declared signature (signature table out of date)')
                    continue
                c = check_function(m, fi, alt, KERNEL_SIGS, _callee_orders(m))
                _report(r, fi, alt, c, rule)
        r.floor = floor
        return r
    rule_fn.__name__ = 'rule_dimsw_' + rule
    return rule_fn
