"""
E3 - direction-axis (p) discipline: C11.

Coefficient arrays have layout (D, P, ...): axis 1 is the direction axis.  The
rules are an information-flow reading of the code: a value written for
direction p may depend only on values indexed by the same p or on
direction-independent data.
"""
import ast
from .core import Finding, RuleResult
from .model import AnalysisError, dotted_name, norm, walk_no_nested

ALGO = 'algopy.utpm.algorithms'
UTPM_MOD = 'algopy.utpm.utpm'

# functions whose arrays are per-direction slices (D, ...) without a p axis
NO_P_AXIS = {'_eigh1': 'called per direction with (DT,N,N) arrays', 'lift_Q': 'nested helper of _eigh on one direction',
             'find_repeated_values': 'works on eigenvalues of one direction', 'truncated_triple_dot': 'handles both layouts explicitly',
             'vdot': 'helper with explicit layouts'}
# forward-mode driver layer: directions are the object of the computation there (C09), not a batch axis
DIRECTION_API_PREFIX = ('extract_', 'init_')
DIRECTION_API = {'FtoJT': 'reshapes directions into a Jacobian axis by definition', 'JTtoF': 'inverse of FtoJT',
                 'coeff': 'UTP (non-vectorized) has exactly one direction', 'as_utpm': 'container conversion'}
SHAPE_ONLY = {'shape', 'size', 'ndim', 'dtype', 'strides'}
REDUCTIONS = {'sum', 'prod', 'max', 'min', 'any', 'all', 'mean', 'allclose', 'argmax', 'argmin', 'norm', 'amax', 'amin', 'median', 'std', 'var',
              'count_nonzero', 'nanmin', 'nanmax', 'nansum', 'ptp', 'alltrue', 'sometrue', 'array_equal'}
# reductions over all directions that are the specified behaviour (function -> reason)
REDUCTION_OK = {
    '__lt__': 'comparison = truth value over all elements of the zeroth coefficient (C10)', '__le__': 'C10', '__gt__': 'C10',
    '__ge__': 'C10', '__eq__': 'C10',
    'eig': 'realness test at the end of UTPM.eig changes the dtype only',
    'svd': 'rank decision; constant on the property\'s domain (full rank)',
    '_argmax': 'reshapes to (P, n) and reduces over axis 1 (the element axis)',
    'combine_blocks': 'sizes only',
}


def _f(fi):
    return fi.fq


def _funcs(ctx):
    m = ctx.model
    out = []
    for modname in (ALGO, UTPM_MOD):
        mi = m.module(modname)
        for fi in mi.functions.values():
            out.append(fi)
        for ci in mi.classes.values():
            for fi in ci.methods.values():
                out.append(fi)
                for nf in getattr(fi, 'nested', {}).values():
                    out.append(nf)
    return out


def _dp_name(node):
    """array expression tracked as a (D,P,...) array: *_data names, X.data, out"""
    if isinstance(node, ast.Name) and (node.id.endswith('_data') or node.id in ('out',)):
        return node.id
    if isinstance(node, ast.Attribute) and node.attr == 'data':
        return norm(node)
    return None


def _derived_dp_locals(fi):
    """locals that are (D,P,...) arrays because they are computed element-wise from such arrays with both leading axes kept whole:
    `E = lam_data[:, :, numpy.newaxis, :] - lam_data[:, :, :, numpy.newaxis]`, `S = numpy.abs(E)`"""
    out = set()
    cur = [None]

    def keeps_dp(e):
        if isinstance(e, ast.Constant):
            return None         # neutral
        if isinstance(e, ast.Name):
            if e.id == cur[0]:
                return None     # the name itself (a re-binding such as `E = E[:, :, mask]`)
            return True if (_dp_name(e) is not None or e.id in out) else False
        if isinstance(e, ast.Attribute):
            return True if _dp_name(e) is not None else False
        if isinstance(e, ast.Subscript):
            base = e.value
            selfref = isinstance(base, ast.Name) and base.id == cur[0]
            if _dp_name(base) is None and not (isinstance(base, ast.Name) and base.id in out) and not selfref:
                return False
            idx = e.slice.elts if isinstance(e.slice, ast.Tuple) else [e.slice]
            if len(idx) >= 2 and _is_full_slice(idx[0]) and _is_full_slice(idx[1]):
                return None if selfref else True
            if len(idx) == 1 and isinstance(idx[0], ast.Constant) and idx[0].value is Ellipsis:
                return None if selfref else True
            return False
        if isinstance(e, ast.BinOp) and isinstance(e.op, (ast.Add, ast.Sub, ast.Mult, ast.Div)):
            a, b = keeps_dp(e.left), keeps_dp(e.right)
            if a is False or b is False:
                return False
            return True if (a or b) else None
        if isinstance(e, ast.UnaryOp):
            return keeps_dp(e.operand)
        if isinstance(e, ast.Call) and (dotted_name(e.func) or '') in ('numpy.abs', 'numpy.absolute', 'numpy.negative', 'numpy.conjugate', 'abs') and len(e.args) == 1:
            return keeps_dp(e.args[0])
        return False
    for _ in range(3):
        n0 = len(out)
        for st in walk_no_nested(fi.node):
            if isinstance(st, ast.Assign) and len(st.targets) == 1 and isinstance(st.targets[0], ast.Name) and st.targets[0].id not in fi.params:
                nm = st.targets[0].id
                if nm in out or _dp_name(st.targets[0]) is not None:
                    continue
                # every binding of the name must be of this kind
                vals = [s_.value for s_ in walk_no_nested(fi.node) if isinstance(s_, ast.Assign) and len(s_.targets) == 1
                        and isinstance(s_.targets[0], ast.Name) and s_.targets[0].id == nm]
                cur[0] = nm
                verdicts = [keeps_dp(v) for v in vals]
                cur[0] = None
                if vals and all(v is not False for v in verdicts) and any(v is True for v in verdicts):
                    out.add(nm)
        if len(out) == n0:
            break
    return out


def _shape_source_is_dp(fi, v, depth=0):
    """the expression is the shape of a (D,P,...) array: X_data.shape[:k], numpy.shape(X.data)[:k], X_shp[:k] with
    X_shp assigned from such a shape"""
    if depth > 3:
        return False
    if isinstance(v, ast.Subscript):
        return _shape_source_is_dp(fi, v.value, depth + 1)
    if isinstance(v, ast.Attribute) and v.attr == 'shape':
        return _dp_name(v.value) is not None
    if isinstance(v, ast.Call) and dotted_name(v.func) == 'numpy.shape' and v.args:
        return _dp_name(v.args[0]) is not None
    if isinstance(v, ast.Name):
        for st in walk_no_nested(fi.node):
            if isinstance(st, ast.Assign) and len(st.targets) == 1 and isinstance(st.targets[0], ast.Name) and st.targets[0].id == v.id:
                if _shape_source_is_dp(fi, st.value, depth + 1):
                    return True
    return False


def _psyms(fi):
    """names bound to the number of directions: second target of `D, P = X_data.shape[:2]`-like
    unpackings of the shape of a (D,P,...) array, `P = X.data.shape[1]`"""
    out = set()
    for st in walk_no_nested(fi.node):
        if isinstance(st, ast.Assign) and len(st.targets) == 1:
            t, v = st.targets[0], st.value
            if isinstance(t, (ast.Tuple, ast.List)) and len(t.elts) >= 2 and isinstance(t.elts[1], ast.Name) and _shape_source_is_dp(fi, v):
                out.add(t.elts[1].id)
            if isinstance(t, ast.Name) and isinstance(v, ast.Subscript) and isinstance(v.slice, ast.Constant) and v.slice.value == 1 \
                    and _shape_source_is_dp(fi, v.value):
                out.add(t.id)
    # copies: `P2 = P`, `DPN = (D, P, N)` ... `D, P, N = DPN`
    tups = {}
    for st in walk_no_nested(fi.node):
        if isinstance(st, ast.Assign) and len(st.targets) == 1 and isinstance(st.targets[0], ast.Name) and isinstance(st.value, ast.Tuple):
            tups.setdefault(st.targets[0].id, []).append(st.value)
    for _ in range(4):
        n0 = len(out)
        for st in walk_no_nested(fi.node):
            if not (isinstance(st, ast.Assign) and len(st.targets) == 1):
                continue
            t, v = st.targets[0], st.value
            if isinstance(t, ast.Name) and isinstance(v, ast.Name) and v.id in out:
                out.add(t.id)
            if isinstance(t, (ast.Tuple, ast.List)):
                srcs = [v] if isinstance(v, ast.Tuple) else (tups.get(v.id, []) if isinstance(v, ast.Name) else [])
                srcs = [s_ for s_ in srcs if len(s_.elts) == len(t.elts)]
                for i, e in enumerate(t.elts):
                    if isinstance(e, ast.Name) and srcs and all(isinstance(s_.elts[i], ast.Name) and s_.elts[i].id in out for s_ in srcs):
                        out.add(e.id)
        if len(out) == n0:
            break
    return out


def _non_dp_locals(fi):
    """local names ending in _data that hold one direction only (assigned from X[:, p] etc.) or small work arrays"""
    out = set()
    for st in walk_no_nested(fi.node):
        if isinstance(st, ast.Assign) and len(st.targets) == 1 and isinstance(st.targets[0], ast.Name) and st.targets[0].id.endswith('_data') \
                and st.targets[0].id not in fi.params:
            v = st.value
            while isinstance(v, ast.Call) and isinstance(v.func, ast.Attribute) and v.func.attr in ('copy', 'reshape', 'transpose'):
                v = v.func.value
            if isinstance(v, ast.Subscript):
                ix = _axis1(v)
                if ix is not None and not _is_full_slice(ix):
                    out.add(st.targets[0].id)
            if isinstance(v, ast.Call) and (dotted_name(v.func) or '').split('.')[-1] in ('zeros', 'empty') and v.args and isinstance(v.args[0], ast.Tuple):
                first = v.args[0].elts[1] if len(v.args[0].elts) > 1 else None
                if not (isinstance(first, ast.Name)):
                    out.add(st.targets[0].id)
    return out


def _p_loops(fi, psyms):
    """for-loops over the direction axis: (loop node, var, full?)"""
    out = []
    for st in walk_no_nested(fi.node):
        if isinstance(st, ast.For) and isinstance(st.target, ast.Name) and isinstance(st.iter, ast.Call) \
                and isinstance(st.iter.func, ast.Name) and st.iter.func.id == 'range':
            names = {n.id for a in st.iter.args for n in ast.walk(a) if isinstance(n, ast.Name)}
            if names & psyms:
                full = len(st.iter.args) == 1 and isinstance(st.iter.args[0], ast.Name)
                out.append((st, st.target.id, full))
    return out


def _is_range_p(it, psyms):
    return isinstance(it, ast.Call) and isinstance(it.func, ast.Name) and it.func.id == 'range' and len(it.args) == 1 \
        and isinstance(it.args[0], ast.Name) and it.args[0].id in psyms


def _per_direction_sequences(fi, psyms):
    """names of Python lists that hold one entry per direction, in direction order: `[f(p) for p in range(P)]`, or a list
    that starts empty and is appended to exactly once in every iteration of a full loop over directions"""
    out = set()
    empties = {}
    for st in walk_no_nested(fi.node):
        if isinstance(st, ast.Assign) and len(st.targets) == 1 and isinstance(st.targets[0], ast.Name):
            v = st.value
            if isinstance(v, ast.ListComp) and len(v.generators) == 1 and not v.generators[0].ifs and _is_range_p(v.generators[0].iter, psyms):
                out.add(st.targets[0].id)
            if isinstance(v, ast.List) and not v.elts:
                empties[st.targets[0].id] = st
    # a reduction over the element axes of the zeroth coefficient that leaves the direction axis in front:
    # `numpy.count_nonzero(numpy.abs(numpy.diagonal(R_data[0, :P, ...], axis1=1, axis2=2)) > tol, axis=1).tolist()`
    def dir_leading(e, depth=0):
        """the expression is an array whose first axis is the direction axis (all P entries)"""
        if depth > 6:
            return False
        if isinstance(e, ast.Name):
            vals = [s_.value for s_ in walk_no_nested(fi.node) if isinstance(s_, ast.Assign) and len(s_.targets) == 1
                    and isinstance(s_.targets[0], ast.Name) and s_.targets[0].id == e.id]
            return len(vals) == 1 and dir_leading(vals[0], depth + 1)
        if isinstance(e, ast.Subscript) and _dp_name(e.value) is not None:
            idx = e.slice.elts if isinstance(e.slice, ast.Tuple) else [e.slice]
            if idx and isinstance(idx[0], ast.Constant) and isinstance(idx[0].value, int):
                if len(idx) == 1:
                    return True
                i1 = idx[1]
                return _is_full_slice(i1) or (isinstance(i1, ast.Slice) and i1.lower is None and i1.step is None and isinstance(i1.upper, ast.Name) and i1.upper.id in psyms)
            return False
        if isinstance(e, ast.Compare) and len(e.ops) == 1:
            return dir_leading(e.left, depth + 1) and isinstance(e.comparators[0], (ast.Constant, ast.Name))
        if isinstance(e, ast.Call):
            d = dotted_name(e.func) or ''
            if d in ('numpy.abs', 'numpy.absolute') and len(e.args) == 1:
                return dir_leading(e.args[0], depth + 1)
            if d == 'numpy.diagonal' and e.args:
                ax = {k.arg: k.value for k in e.keywords}
                a1, a2 = ax.get('axis1'), ax.get('axis2')
                if all(isinstance(a_, ast.Constant) and isinstance(a_.value, int) and a_.value >= 1 for a_ in (a1, a2) if a_ is not None) and a1 is not None and a2 is not None:
                    return dir_leading(e.args[0], depth + 1)
        return False
    for st in walk_no_nested(fi.node):
        if isinstance(st, ast.Assign) and len(st.targets) == 1 and isinstance(st.targets[0], ast.Name):
            v = st.value
            if isinstance(v, ast.Call) and isinstance(v.func, ast.Attribute) and v.func.attr == 'tolist' and not v.args:
                v = v.func.value
            if isinstance(v, ast.Call) and (dotted_name(v.func) or '') in ('numpy.count_nonzero', 'numpy.sum', 'numpy.any', 'numpy.all', 'numpy.max', 'numpy.min') and v.args:
                ax = next((k.value for k in v.keywords if k.arg == 'axis'), v.args[1] if len(v.args) > 1 else None)
                axes = [ax] if isinstance(ax, ast.Constant) else (list(ax.elts) if isinstance(ax, ast.Tuple) else None)
                if axes and all(isinstance(a_, ast.Constant) and isinstance(a_.value, int) and a_.value >= 1 for a_ in axes) and dir_leading(v.args[0]):
                    out.add(st.targets[0].id)
    for lp, var, full in _p_loops(fi, psyms):
        if not full:
            continue
        for nm in list(empties):
            apps = [b for b in lp.body if isinstance(b, ast.Expr) and isinstance(b.value, ast.Call) and isinstance(b.value.func, ast.Attribute)
                    and b.value.func.attr == 'append' and isinstance(b.value.func.value, ast.Name) and b.value.func.value.id == nm]
            others = [c for c in walk_no_nested(fi.node) if isinstance(c, ast.Call) and isinstance(c.func, ast.Attribute) and c.func.attr in ('append', 'insert', 'extend', 'pop')
                      and isinstance(c.func.value, ast.Name) and c.func.value.id == nm]
            if len(apps) == 1 and len(others) == 1:
                out.add(nm)
    return out


def _p_scopes(fi, psyms):
    """further places where a name is bound to a direction index: comprehension generators over range(P) and loops that
    enumerate a per-direction sequence -> [(scope node, variable)]"""
    per = _per_direction_sequences(fi, psyms)
    out = []

    def idx_of(target, it):
        if _is_range_p(it, psyms) and isinstance(target, ast.Name):
            return target.id
        if isinstance(it, ast.Call) and isinstance(it.func, ast.Name) and it.func.id == 'enumerate' and len(it.args) == 1 \
                and isinstance(it.args[0], ast.Name) and it.args[0].id in per and isinstance(target, ast.Tuple) and target.elts \
                and isinstance(target.elts[0], ast.Name):
            return target.elts[0].id
        if isinstance(it, ast.Call) and isinstance(it.func, ast.Name) and it.func.id == 'zip' and it.args and _is_range_p(it.args[0], psyms) \
                and all(isinstance(a, ast.Name) and a.id in per for a in it.args[1:]) and isinstance(target, ast.Tuple) and target.elts \
                and isinstance(target.elts[0], ast.Name):
            return target.elts[0].id
        return None
    for n in walk_no_nested(fi.node):
        if isinstance(n, (ast.ListComp, ast.GeneratorExp, ast.SetComp, ast.DictComp)):
            for g in n.generators:
                v = idx_of(g.target, g.iter)
                if v:
                    out.append((n, v))
        elif isinstance(n, ast.For) and not _is_range_p(n.iter, psyms):
            v = idx_of(n.target, n.iter)
            if v:
                out.append((n, v))
    return out


def _axis1(sub):
    sl = sub.slice
    if isinstance(sl, ast.Tuple):
        if len(sl.elts) >= 2:
            # an Ellipsis in position 0 or 1 hides the axis
            if any(isinstance(e, ast.Constant) and e.value is Ellipsis for e in sl.elts[:2]):
                return None
            return sl.elts[1]
    return None


def _is_pvar_index(ix, var):
    if isinstance(ix, ast.Name) and ix.id == var:
        return True
    if isinstance(ix, ast.Slice) and ix.step is None and isinstance(ix.lower, ast.Name) and ix.lower.id == var \
            and isinstance(ix.upper, ast.BinOp) and isinstance(ix.upper.op, ast.Add) and norm(ix.upper) == '%s + 1' % var:
        return True
    return False


def _is_full_slice(ix):
    return (isinstance(ix, ast.Slice) and ix.lower is None and ix.upper is None and ix.step is None) or \
        (isinstance(ix, ast.Constant) and ix.value is Ellipsis)


def _shape_only_use(fi, sub):
    """the subscript value is used only to read shape information"""
    for n in walk_no_nested(fi.node):
        if isinstance(n, ast.Attribute) and n.value is sub and n.attr in SHAPE_ONLY:
            return True
        if isinstance(n, ast.Call) and sub in n.args and (dotted_name(n.func) or '').split('.')[-1] in ('shape', 'size', 'ndim', 'tile'):
            # numpy.tile(A.data[0,0], reps).shape in UTPM.tile: only .shape of the result is used
            return True
    return False


def rule_paxis(ctx):
    r = RuleResult('C11.P1', 'in every loop over the direction axis the axis-1 subscript of a (D,P,...) array is exactly the loop variable '
                             '(or p:p+1), the loop covers range(P) completely, and outside such loops axis 1 is only sliced whole; a constant '
                             'direction index is allowed only to read shape information')
    n_sub = 0
    for fi in _funcs(ctx):
        if fi.name in NO_P_AXIS or fi.generated:
            continue
        if fi.name.startswith(DIRECTION_API_PREFIX) or fi.name in DIRECTION_API:
            continue
        psyms = _psyms(fi)
        loops = _p_loops(fi, psyms)
        nondp = _non_dp_locals(fi)
        derived = _derived_dp_locals(fi)
        nz_first, nz_loopvars = set(), set()
        for st_ in walk_no_nested(fi.node):
            if isinstance(st_, ast.Assign) and len(st_.targets) == 1 and isinstance(st_.targets[0], ast.Tuple) and st_.targets[0].elts \
                    and isinstance(st_.targets[0].elts[0], ast.Name) and isinstance(st_.value, ast.Call) \
                    and (dotted_name(st_.value.func) or '') in ('numpy.nonzero', 'numpy.where') and len(st_.value.args) == 1:
                nz_first.add(st_.targets[0].elts[0].id)
        for st_ in walk_no_nested(fi.node):
            if isinstance(st_, ast.For):
                it_, tg_ = st_.iter, st_.target
                if isinstance(it_, ast.Name) and it_.id in nz_first and isinstance(tg_, ast.Name):
                    nz_loopvars.add(tg_.id)
                if isinstance(it_, ast.Call) and isinstance(it_.func, ast.Name) and it_.func.id == 'enumerate' and len(it_.args) == 1 \
                        and isinstance(it_.args[0], ast.Name) and it_.args[0].id in nz_first and isinstance(tg_, ast.Tuple) and len(tg_.elts) == 2 \
                        and isinstance(tg_.elts[1], ast.Name):
                    nz_loopvars.add(tg_.elts[1].id)
                if isinstance(it_, ast.Call) and isinstance(it_.func, ast.Name) and it_.func.id == 'zip' and isinstance(tg_, ast.Tuple) \
                        and len(it_.args) == len(tg_.elts):
                    for a_, t_ in zip(it_.args, tg_.elts):
                        if isinstance(a_, ast.Name) and a_.id in nz_first and isinstance(t_, ast.Name):
                            nz_loopvars.add(t_.id)
        in_loop = {}
        for lp, var, full in loops:
            if not full:
                r.bad(Finding('C11.P1', _f(fi), 'range:' + norm(lp.iter), '%s: the loop over directions iterates `%s`, not every direction in range(P)'
                              % (fi.qualname, norm(lp.iter)), fi.file, lp.lineno))
            else:
                r.ok(construct=_f(fi) + ':loop@%d' % lp.lineno)
            for n in ast.walk(lp):
                if isinstance(n, ast.Subscript):
                    in_loop.setdefault(id(n), []).append(var)
        for scope, var in _p_scopes(fi, psyms):
            for n in ast.walk(scope):
                if isinstance(n, ast.Subscript):
                    in_loop.setdefault(id(n), []).append(var)
        for n in walk_no_nested(fi.node):
            if not isinstance(n, ast.Subscript):
                continue
            nm = _dp_name(n.value)
            from_derived = False
            if nm is None and isinstance(n.value, ast.Name) and n.value.id in derived:
                nm = n.value.id
                from_derived = True
            if nm is None or nm in nondp:
                continue
            ix = _axis1(n)
            if ix is None:
                continue
            if from_derived and not (isinstance(ix, ast.Constant) and isinstance(ix.value, int) and not isinstance(ix.value, bool)):
                continue        # for a derived local only a literal direction index is judged (its loops may run over names this rule does not know)
            n_sub += 1
            vars_ = in_loop.get(id(n), [])
            if _is_full_slice(ix) or (isinstance(ix, ast.Slice) and ix.step is None and ix.upper is not None and isinstance(ix.upper, ast.Name)
                                      and ix.upper.id in psyms and (ix.lower is None or (isinstance(ix.lower, ast.Constant) and ix.lower.value == 0))):
                r.ok(construct=None)        # `:` or `:P` / `0:P`: every direction
                continue
            if vars_ and any(_is_pvar_index(ix, v) for v in vars_):
                r.ok(construct=_f(fi) + ':' + norm(n), nontrivial=True,
                     sample='%s: `%s` indexes direction %s inside `for %s in range(P)`' % (fi.qualname, norm(n)[:50], norm(ix), vars_[-1]))
                continue
            if isinstance(ix, ast.Constant) and isinstance(ix.value, int) and _shape_only_use(fi, n):
                r.ok(construct=_f(fi) + ':shape:' + norm(n))
                continue
            if isinstance(ix, ast.Name) and ix.id in ('mask',):
                r.ok(construct=None)
                continue
            # a variable bound by a loop over range(P) that we did not classify (e.g. nested helper) is fine
            if isinstance(ix, ast.Name) and not vars_ and _bound_by_p_loop(fi, ix.id, psyms):
                r.ok(construct=None)
                continue
            # a *parameter* of a private helper used as the direction index is bound by the caller: every call
            # site must pass the variable of a loop over directions (or its own direction parameter)
            if isinstance(ix, ast.Name) and ix.id in fi.params and fi.name.startswith('_'):
                bad_sites = _bad_direction_callers(ctx, fi, ix.id)
                if bad_sites is None:
                    r.unknown(fi.site(n), 'helper %s takes the direction index `%s` as a parameter but no call site was found' % (fi.qualname, ix.id))
                elif bad_sites:
                    for (cf, c) in bad_sites:
                        r.bad(Finding('C11.P1', _f(cf), norm(c)[:100], '%s passes `%s` for the direction parameter `%s` of %s outside a loop over directions'
                                      % (cf.qualname, norm(c)[:60], ix.id, fi.qualname), cf.file, c.lineno))
                else:
                    r.ok(construct=_f(fi) + ':param:' + ix.id, nontrivial=True,
                         sample='%s: direction index `%s` is a parameter; every caller passes its p-loop variable' % (fi.qualname, ix.id))
                continue
            if isinstance(ix, ast.Slice) and not vars_ and fi.name in ('jacobian',):
                r.ok(construct=None)
                continue
            # an index array from numpy.nonzero / where of a per-direction mask (its first result lists the direction of every selected entry),
            # or a loop variable that runs over such an array: every selected entry is read in its own direction
            if isinstance(ix, ast.Name) and (ix.id in nz_first or ix.id in nz_loopvars):
                r.ok(construct=_f(fi) + ':nonzero:' + norm(n), nontrivial=True, sample='%s: `%s` indexes the directions selected by numpy.nonzero' % (fi.qualname, norm(n)[:50]))
                continue
            if isinstance(ix, ast.Slice) and isinstance(ix.lower, ast.Name) and ix.lower.id in nz_loopvars and ix.upper is not None \
                    and norm(ix.upper) in ('%s + 1' % ix.lower.id, '1 + %s' % ix.lower.id):
                r.ok(construct=_f(fi) + ':nonzero:' + norm(n))
                continue
            r.bad(Finding('C11.P1', _f(fi), norm(n), '%s: direction axis of `%s` is indexed with `%s`%s - the value of one direction is used '
                          'for another' % (fi.qualname, nm, norm(ix), (' inside the loop over `%s`' % vars_[-1]) if vars_ else ' outside any loop over directions'),
                          fi.file, n.lineno))
        # work arrays allocated with the number of directions as their *leading* dimension (`X = numpy.zeros((P, N, N))`):
        # inside a loop over directions their axis 0 is the direction axis
        pfirst = {}
        for st in walk_no_nested(fi.node):
            if isinstance(st, ast.Assign) and len(st.targets) == 1 and isinstance(st.targets[0], ast.Name) and isinstance(st.value, ast.Call) \
                    and (dotted_name(st.value.func) or '').split('.')[-1] in ('zeros', 'empty', 'ones') and st.value.args \
                    and isinstance(st.value.args[0], ast.Tuple) and st.value.args[0].elts and isinstance(st.value.args[0].elts[0], ast.Name) \
                    and st.value.args[0].elts[0].id in psyms:
                pfirst[st.targets[0].id] = st
        # a name that is also bound otherwise is not tracked
        for st in walk_no_nested(fi.node):
            if isinstance(st, ast.Assign):
                for t in st.targets:
                    if isinstance(t, ast.Name) and t.id in pfirst and pfirst[t.id] is not st:
                        pfirst.pop(t.id)
        for n in walk_no_nested(fi.node):
            if isinstance(n, ast.Subscript) and isinstance(n.value, ast.Name) and n.value.id in pfirst:
                sl = n.slice
                first = sl.elts[0] if isinstance(sl, ast.Tuple) and sl.elts else sl
                vars_ = in_loop.get(id(n), [])
                n_sub += 1
                if _is_full_slice(first) or (isinstance(first, ast.Constant) and first.value is Ellipsis):
                    r.ok(construct=None)
                elif vars_ and any(_is_pvar_index(first, v) for v in vars_):
                    r.ok(construct=_f(fi) + ':' + norm(n), sample='%s: `%s` (leading dimension P) is indexed with the direction variable' % (fi.qualname, norm(n)[:50]))
                elif isinstance(first, ast.Name) and _bound_by_p_loop(fi, first.id, psyms):
                    r.ok(construct=None)
                else:
                    r.bad(Finding('C11.P1', _f(fi), norm(n), '%s: `%s` has the number of directions as its leading dimension but is indexed with `%s`%s - the '
                                  'value of one direction is used for another' % (fi.qualname, n.value.id, norm(first),
                                                                                 (' inside the loop over `%s`' % vars_[-1]) if vars_ else ''), fi.file, n.lineno))
    r.stats = {'axis1_subscripts': n_sub}
    r.floor = 150
    return r


def _bad_direction_callers(ctx, fi, pname):
    """call sites of helper fi whose argument for `pname` is not a direction-loop variable; None if no call site"""
    idx = fi.value_params().index(pname) if pname in fi.value_params() else None
    sites = []
    for cf in _funcs(ctx):
        for c in walk_no_nested(cf.node):
            if isinstance(c, ast.Call) and isinstance(c.func, ast.Attribute) and c.func.attr == fi.name:
                sites.append((cf, c))
    if not sites:
        return None
    bad = []
    for cf, c in sites:
        arg = None
        for k in c.keywords:
            if k.arg == pname:
                arg = k.value
        if arg is None and idx is not None and idx < len(c.args):
            arg = c.args[idx]
        ps = _psyms(cf)
        loops = _p_loops(cf, ps)
        ok = False
        if isinstance(arg, ast.Name):
            for lp, var, full in loops:
                if var == arg.id and any(x is c for x in ast.walk(lp)):
                    ok = True
            if arg.id in cf.params and cf.name.startswith('_'):
                ok = True
        if not ok:
            bad.append((cf, c))
    return bad


def _bound_by_p_loop(fi, name, psyms):
    for lp, var, full in _p_loops(fi, psyms):
        if var == name:
            return True
    return False


def rule_batch(ctx):
    r = RuleResult('C11.batch', 'element-wise kernels (arithmetic, elementary and special functions) never subscript the direction axis: '
                                'p is a pure batch axis there')
    m = ctx.model
    ci = m.cls('RawAlgorithmsMixIn')
    names = ['_mul', '_amul', '_itruediv', '_truediv', '_reciprocal', '_pow_real', '_square', '_sqrt', '_exp', '_log', '_tansec2',
             '_sincos', '_arcsin', '_arccos', '_arctan', '_sinhcosh', '_tanhsech2', '_absolute', '_sign', '_minimum', '_maximum',
             '_botched_clip', '_negative', '_pb_reciprocal', '_pb_pow_real', '_pb_absolute', '_pb_negative', '_pb_square', '_pb_sqrt',
             '_pb_exp', '_pb_log', '_pb_sincos', '_pb_tansec']
    funcs = [ci.methods[n] for n in names if n in ci.methods] + [m.func(ALGO, n) for n in
                                                                  ('_black_f_white_fprime', '_eval_slow_generic', '_taylor_polynomials_of_ode_solutions', '_plus_const')]
    if len(funcs) < 30:
        r.unknown(ALGO, 'fewer element-wise kernels than expected (%d)' % len(funcs))
    for fi in funcs:
        bad = []
        for n in walk_no_nested(fi.node):
            if isinstance(n, ast.Subscript):
                ix = _axis1(n)
                if ix is not None and not _is_full_slice(ix) and _dp_name(n.value) is not None:
                    bad.append(n)
                # any subscript with two or more explicit integer/name indices on a coefficient array
        if bad:
            r.bad(Finding('C11.batch', _f(fi), norm(bad[0]), '%s subscripts the direction axis: `%s`' % (fi.qualname, norm(bad[0])), fi.file, bad[0].lineno))
        else:
            r.ok(construct=_f(fi), sample='%s: no subscript on axis 1' % fi.qualname)
    r.floor = 30
    return r


def rule_p3(ctx):
    r = RuleResult('C11.P3', 'a name assigned inside a loop over directions is not read after that loop (it would hold the value of the '
                             'last direction), unless it is re-assigned per direction before the read')
    for fi in _funcs(ctx):
        if fi.name in NO_P_AXIS or fi.generated:
            continue
        psyms = _psyms(fi)
        loops = [lp for lp, var, full in _p_loops(fi, psyms)]
        if not loops:
            continue
        # only outermost p-loops
        outer = [lp for lp in loops if not any(lp is not o and any(x is lp for x in ast.walk(o)) for o in loops)]
        for lp in outer:
            assigned = set()
            for n in ast.walk(lp):
                if isinstance(n, ast.Assign):
                    for t in n.targets:
                        for x in ([t] if isinstance(t, ast.Name) else (t.elts if isinstance(t, (ast.Tuple, ast.List)) else [])):
                            if isinstance(x, ast.Name):
                                assigned.add(x.id)
                elif isinstance(n, ast.AugAssign) and isinstance(n.target, ast.Name):
                    assigned.add(n.target.id)
                elif isinstance(n, ast.For) and n is not lp and isinstance(n.target, ast.Name):
                    assigned.add(n.target.id)
            assigned.discard(lp.target.id)
            end = max(getattr(x, 'lineno', lp.lineno) for x in ast.walk(lp))
            # direction-independent work arrays re-initialised per direction are fine: only names whose
            # value derives from p-indexed data matter; we use: every name assigned in the loop
            later = _reads_after(fi, lp, end, assigned)
            for name, node in later:
                r.bad(Finding('C11.P3', _f(fi), name, '%s: `%s` is assigned inside the loop over directions at line %d and read after it at line %d: '
                              'the value of the last direction is applied to all' % (fi.qualname, name, lp.lineno, node.lineno), fi.file, node.lineno))
            if not later:
                r.ok(construct=_f(fi) + ':loop@%d' % lp.lineno, nontrivial=bool(assigned),
                     sample='%s: none of %s (assigned in the p-loop at line %d) is read after the loop' % (fi.qualname, sorted(assigned)[:6], lp.lineno))
    r.floor = 40
    return r


def _reads_after(fi, lp, end, names):
    """reads of `names` located after the loop `lp` that are not dominated by a re-assignment after the loop.
    A re-assignment (at function level or inside a later loop, before the read) kills the name."""
    out = []
    killed = {}
    for st in _stmts_in_order(fi.node.body):
        ln = getattr(st, 'lineno', 0)
        if ln <= end:
            continue
        if any(x is st for x in ast.walk(lp)):
            continue
        # reads in this simple statement
        for n in ast.walk(st) if not isinstance(st, (ast.For, ast.If, ast.While, ast.With, ast.Try)) else _header_nodes(st):
            if isinstance(n, ast.Name) and isinstance(n.ctx, ast.Load) and n.id in names and n.id not in killed:
                out.append((n.id, n))
        if isinstance(st, ast.Assign):
            for t in st.targets:
                for x in ([t] if isinstance(t, ast.Name) else (t.elts if isinstance(t, (ast.Tuple, ast.List)) else [])):
                    if isinstance(x, ast.Name):
                        killed[x.id] = ln
        elif isinstance(st, ast.For) and isinstance(st.target, ast.Name):
            killed[st.target.id] = ln
    # de-duplicate per name
    seen = set()
    res = []
    for name, node in out:
        if name not in seen:
            seen.add(name)
            res.append((name, node))
    return res


def _header_nodes(st):
    if isinstance(st, ast.For):
        return list(ast.walk(st.iter))
    if isinstance(st, (ast.If, ast.While)):
        return list(ast.walk(st.test))
    return []


def _stmts_in_order(body):
    for st in body:
        yield st
        for attr in ('body', 'orelse', 'finalbody'):
            sub = getattr(st, attr, None)
            if isinstance(sub, list):
                for x in _stmts_in_order(sub):
                    yield x
        if isinstance(st, ast.Try):
            for h in st.handlers:
                for x in _stmts_in_order(h.body):
                    yield x


def rule_p3b(ctx):
    r = RuleResult('C11.P3b', 'inside a loop over directions no name is read before it is (re)assigned in the same iteration if the loop body '
                              'assigns it at all: a value carried from the previous direction would make direction p depend on direction p-1')
    from .defassign import DefAssign, local_names
    m = ctx.model
    for fi in _funcs(ctx):
        if fi.name in NO_P_AXIS or fi.generated:
            continue
        psyms = _psyms(fi)
        loops = [lp for lp, var, full in _p_loops(fi, psyms)]
        outer = [lp for lp in loops if not any(lp is not o and any(x is lp for x in ast.walk(o)) for o in loops)]
        for lp in outer:
            stored = set()
            aug = set()
            for n in ast.walk(lp):
                if isinstance(n, ast.AugAssign) and isinstance(n.target, ast.Name):
                    aug.add(id(n.target))
            for n in ast.walk(lp):
                if isinstance(n, ast.Name) and isinstance(n.ctx, ast.Store) and id(n) not in aug:
                    stored.add(n.id)
            stored.discard(lp.target.id)
            if not stored:
                r.ok(construct=_f(fi) + ':loop@%d' % lp.lineno)
                continue
            # must-defined analysis of one iteration: start with everything known before the loop EXCEPT names the body assigns
            da = DefAssign(fi, set(), set(), may=False)
            da.locals = set(stored)
            da.params = set()
            class _All(set):
                def __contains__(self, k):
                    return k not in stored
            da.module_names = _All()
            da.enclosing = set()
            da.problems = []
            da.block(lp.body, {lp.target.id})
            carried = []
            seen = set()
            for kind, name, node in da.problems:
                if kind.startswith('unbound-local') and name in stored and name not in seen:
                    seen.add(name)
                    carried.append((name, node))
            # counters / accumulators that are reset before the loop and only incremented are not direction data;
            # none exist in p-loops today, so every carried name is reported
            if carried:
                for name, node in carried:
                    r.bad(Finding('C11.P3b', _f(fi), name, '%s: inside the loop over directions at line %d, `%s` is read at line %d on a path on which '
                                  'this iteration has not assigned it, although the loop body assigns it: the value of the previous direction is used'
                                  % (fi.qualname, lp.lineno, name, node.lineno), fi.file, node.lineno))
            else:
                r.ok(construct=_f(fi) + ':loop@%d' % lp.lineno, nontrivial=True,
                     sample='%s: every one of %s is assigned before use in each iteration of the p-loop at line %d' % (fi.qualname, sorted(stored)[:6], lp.lineno))
    r.floor = 40
    return r


def rule_p4(ctx):
    r = RuleResult('C11.P4', 'no reduction (sum/any/all/max/allclose/...) runs over the direction axis of a (D,P,...) array, except '
                             'the documented ones (comparisons, realness test of eig, rank decision of svd)')
    n = 0
    for fi in _funcs(ctx):
        if fi.generated:
            continue
        for c in walk_no_nested(fi.node):
            if not isinstance(c, ast.Call):
                continue
            d = dotted_name(c.func) or ''
            last = c.func.attr if isinstance(c.func, ast.Attribute) else d.split('.')[-1]
            if last not in REDUCTIONS:
                continue
            if not (d.startswith('numpy.') or isinstance(c.func, ast.Attribute)):
                continue
            arg = c.args[0] if (d.startswith('numpy.') and c.args) else (c.func.value if isinstance(c.func, ast.Attribute) else None)
            if arg is None:
                continue
            dp = _mentions_dp_keeping_p(arg, _dp_locals(fi))
            if not dp:
                continue
            n += 1
            axis = None
            for k in c.keywords:
                if k.arg == 'axis':
                    axis = k.value
            if axis is None and d.startswith('numpy.') and len(c.args) > 1:
                axis = c.args[1]
            p_axis = dp[1]
            hits = axis is None or (isinstance(axis, ast.Constant) and axis.value == p_axis)
            if not hits:
                r.ok(construct=_f(fi) + ':' + norm(c)[:60], sample='%s: `%s` reduces axis %s, the direction axis there is %d'
                                                                   % (fi.qualname, norm(c)[:60], norm(axis), p_axis))
                continue
            if fi.name in REDUCTION_OK:
                r.note('%s: `%s` reduces over directions: %s' % (fi.qualname, norm(c)[:60], REDUCTION_OK[fi.name]))
                r.ok(construct=_f(fi) + ':exc')
                continue
            r.bad(Finding('C11.P4', _f(fi), norm(c)[:100], '%s: `%s` reduces over the direction axis of a (D,P,...) array: information flows between '
                          'directions' % (fi.qualname, norm(c)[:100]), fi.file, c.lineno))
    r.stats = {'reductions_on_dp_arrays': n}
    r.floor = 8
    return r


def _dp_locals(fi):
    """local names bound to expressions that still carry the direction axis: name -> p-axis position"""
    out = {}
    changed = True
    while changed:
        changed = False
        for st in walk_no_nested(fi.node):
            if isinstance(st, ast.Assign) and len(st.targets) == 1 and isinstance(st.targets[0], ast.Name):
                nm = st.targets[0].id
                if nm in out or _dp_name(st.targets[0]) is not None:
                    continue
                r = _mentions_dp_keeping_p(st.value, out)
                if r is not None:
                    out[nm] = r[1]
                    changed = True
    return out


def _mentions_dp_keeping_p(arg, locals_=None):
    if locals_ and isinstance(arg, ast.Name) and arg.id in locals_:
        return arg.id, locals_[arg.id]
    if locals_ and isinstance(arg, ast.Subscript) and isinstance(arg.value, ast.Name) and arg.value.id in locals_:
        # indexing a local that still carries the direction axis at position k
        k = locals_[arg.value.id]
        sl = arg.slice
        elts = list(sl.elts) if isinstance(sl, ast.Tuple) else [sl]
        if any(isinstance(e, ast.Constant) and e.value is Ellipsis for e in elts):
            return arg.value.id, k       # conservative: position unchanged
        pos = k
        for i, e in enumerate(elts):
            if i < k and not isinstance(e, ast.Slice):
                pos -= 1                 # an integer index in front removes an axis
            if i == k and not isinstance(e, ast.Slice):
                return None              # direction picked
        return arg.value.id, pos
    if isinstance(arg, ast.Compare):
        for x in [arg.left] + list(arg.comparators):
            r = _mentions_dp_keeping_p(x, locals_)
            if r is not None:
                return r
        return None
    if isinstance(arg, ast.UnaryOp):
        return _mentions_dp_keeping_p(arg.operand, locals_)
    if isinstance(arg, ast.BinOp):
        return _mentions_dp_keeping_p(arg.left, locals_) or _mentions_dp_keeping_p(arg.right, locals_)
    if isinstance(arg, ast.Call) and (dotted_name(arg.func) or '').split('.')[-1] in ('abs', 'absolute', 'fabs', 'real', 'imag', 'isnan', 'isfinite', 'less', 'greater') and arg.args:
        return _mentions_dp_keeping_p(arg.args[0], locals_)
    if isinstance(arg, ast.Call):
        d = dotted_name(arg.func) or ''
        last = arg.func.attr if isinstance(arg.func, ast.Attribute) else d.split('.')[-1]
        inner = arg.args[0] if (d.startswith('numpy.') and arg.args) else (arg.func.value if isinstance(arg.func, ast.Attribute) and not d.startswith('numpy.') else None)
        if inner is not None and last in REDUCTIONS:
            # a reduction over another axis keeps the direction axis: numpy.count_nonzero(X > eps, axis=-1)
            axis = next((k.value for k in arg.keywords if k.arg == 'axis'), None)
            if axis is None and d.startswith('numpy.') and len(arg.args) > 1:
                axis = arg.args[1]
            r_ = _mentions_dp_keeping_p(inner, locals_)
            if r_ is not None and axis is not None:
                ax = axis.value if isinstance(axis, ast.Constant) and isinstance(axis.value, int) else \
                    (-axis.operand.value if isinstance(axis, ast.UnaryOp) and isinstance(axis.op, ast.USub) and isinstance(axis.operand, ast.Constant) else None)
                if ax is None or ax == r_[1]:
                    return None
                return r_[0], (r_[1] - 1 if 0 <= ax < r_[1] else r_[1])
            return None
        if inner is not None and last == 'diagonal':
            # numpy.diagonal(X, axis1=-2, axis2=-1): two trailing axes are replaced by one
            r_ = _mentions_dp_keeping_p(inner, locals_)
            axes = [k.value for k in arg.keywords if k.arg in ('axis1', 'axis2')]
            neg = [a_ for a_ in axes if isinstance(a_, ast.UnaryOp) and isinstance(a_.op, ast.USub)]
            if r_ is not None and len(axes) == 2 and len(neg) == 2:
                return r_
            return None
    return _mentions_dp_keeping_p0(arg)


def _mentions_dp_keeping_p0(arg):
    """(array name, position of the p axis in the argument) if the argument is a (D,P,...) array or
    a slice of it that still contains the direction axis; None otherwise"""
    nm = _dp_name(arg)
    if nm is not None:
        return nm, 1
    if isinstance(arg, ast.Subscript):
        nm = _dp_name(arg.value)
        if nm is not None:
            sl = arg.slice
            elts = sl.elts if isinstance(sl, ast.Tuple) else [sl]
            if len(elts) >= 2 and not _is_full_slice(elts[1]) and not isinstance(elts[1], ast.Slice):
                if any(isinstance(e, ast.Constant) and e.value is Ellipsis for e in elts[:2]):
                    pass
                else:
                    return None        # direction picked
            first = elts[0]
            if isinstance(first, ast.Slice) or (isinstance(first, ast.Constant) and first.value is Ellipsis):
                return nm, 1
            return nm, 0
    if isinstance(arg, ast.BinOp):
        return _mentions_dp_keeping_p(arg.left) or _mentions_dp_keeping_p(arg.right)
    if isinstance(arg, ast.Call) and (dotted_name(arg.func) or '') in ('abs', 'numpy.abs', 'numpy.absolute') and arg.args:
        return _mentions_dp_keeping_p(arg.args[0])
    if isinstance(arg, ast.Attribute) and arg.attr in ('real', 'imag'):
        return _mentions_dp_keeping_p(arg.value)
    return None


def rule_p2(ctx):
    r = RuleResult('C11.P2', 'a work array allocated outside a loop over directions and written inside it is fully overwritten (killed) in each '
                             'iteration before its first read, so nothing computed for one direction leaks into the next')
    for fi in _funcs(ctx):
        if fi.name in NO_P_AXIS or fi.generated:
            continue
        psyms = _psyms(fi)
        loops = [lp for lp, var, full in _p_loops(fi, psyms)]
        if not loops:
            continue
        allocs = {}
        for st in walk_no_nested(fi.node):
            if isinstance(st, ast.Assign) and len(st.targets) == 1 and isinstance(st.targets[0], ast.Name) and isinstance(st.value, ast.Call) \
                    and (dotted_name(st.value.func) or '').split('.')[-1] in ('zeros', 'empty', 'zeros_like', 'empty_like', 'ones'):
                # per-direction containers (leading axis P) are indexed by p, not killed
                shp = st.value.args[0] if st.value.args else None
                lead_p = isinstance(shp, ast.Tuple) and shp.elts and isinstance(shp.elts[0], ast.Name) and shp.elts[0].id in psyms
                dp = isinstance(shp, ast.Tuple) and len(shp.elts) >= 2 and isinstance(shp.elts[1], ast.Name) and shp.elts[1].id in psyms
                if not lead_p and not dp and not _dp_name(st.targets[0]):
                    allocs[st.targets[0].id] = st
        for lp in loops:
            # only loops that are not nested inside an allocation-bearing loop body
            for name, a in allocs.items():
                if any(x is a for x in ast.walk(lp)):
                    continue        # allocated inside this loop: private per direction
                if a.lineno > lp.lineno:
                    continue
                if not _written_in(lp, name) or _indexed_by(lp, name, lp.target.id):
                    continue
                first = _first_touch(lp.body, name)
                if first is None:
                    continue
                kind, node = first
                if kind == 'kill':
                    r.ok(construct='%s:%s@%d' % (_f(fi), name, lp.lineno), nontrivial=True,
                         sample='%s: work array `%s` is overwritten by `%s` before any read in the p-loop at line %d'
                                % (fi.qualname, name, norm(node)[:60], lp.lineno))
                else:
                    r.bad(Finding('C11.P2', _f(fi), '%s:%s' % (name, norm(node)[:80]), '%s: work array `%s` (allocated outside the loop over directions) is '
                                  '%s by `%s` before it is overwritten in the iteration: contents of the previous direction leak'
                                  % (fi.qualname, name, 'read' if kind == 'read' else 'accumulated into', norm(node)[:80]), fi.file, node.lineno))
    r.floor = 5
    return r


def _written_in(lp, name):
    for n in ast.walk(lp):
        tg = []
        if isinstance(n, ast.Assign):
            tg = n.targets
        elif isinstance(n, ast.AugAssign):
            tg = [n.target]
        elif isinstance(n, ast.Call):
            tg = [k.value for k in n.keywords if k.arg == 'out']
            if isinstance(n.func, ast.Attribute) and n.func.attr == 'fill':
                tg.append(n.func.value)
        for t in tg:
            b = t
            while isinstance(b, (ast.Subscript, ast.Attribute)):
                b = b.value
            if isinstance(b, ast.Name) and b.id == name:
                return True
    return False


def _indexed_by(lp, name, var):
    """the array is a per-direction container: inside the loop it is subscripted with the loop variable"""
    for n in ast.walk(lp):
        if isinstance(n, ast.Subscript):
            b = n.value
            while isinstance(b, ast.Attribute):
                b = b.value
            if isinstance(b, ast.Name) and b.id == name:
                if any(isinstance(x, ast.Name) and x.id == var for x in ast.walk(n.slice)):
                    return True
    return False


def _first_touch(body, name):
    """first statement (in order, descending into nested loops/ifs) that touches `name`:
    ('kill', node) for a full overwrite / rebinding, ('read', node), ('acc', node) for an in-place accumulation"""
    for st in body:
        if isinstance(st, ast.Assign):
            reads = any(isinstance(n, ast.Name) and n.id == name and isinstance(n.ctx, ast.Load) for n in ast.walk(st.value))
            for t in st.targets:
                if isinstance(t, ast.Name) and t.id == name:
                    return ('read', st) if reads else ('kill', st)
                if isinstance(t, ast.Subscript) and isinstance(t.value, ast.Name) and t.value.id == name:
                    if reads:
                        return ('read', st)
                    return ('kill', st) if _full(t) else ('acc', st)
            if reads:
                return ('read', st)
        elif isinstance(st, ast.AugAssign):
            tn = st.target.id if isinstance(st.target, ast.Name) else (st.target.value.id if isinstance(st.target, ast.Subscript) and isinstance(st.target.value, ast.Name) else None)
            if tn == name:
                if isinstance(st.op, ast.Mult) and isinstance(st.value, ast.Constant) and st.value.value == 0:
                    return ('kill', st)
                return ('acc', st)
            if any(isinstance(n, ast.Name) and n.id == name for n in ast.walk(st.value)):
                return ('read', st)
        elif isinstance(st, (ast.For, ast.While)):
            hdr = st.iter if isinstance(st, ast.For) else st.test
            if any(isinstance(n, ast.Name) and n.id == name for n in ast.walk(hdr)):
                return ('read', st)
            sub = _first_touch(st.body, name)
            if sub is not None:
                return sub
        elif isinstance(st, ast.If):
            if any(isinstance(n, ast.Name) and n.id == name for n in ast.walk(st.test)):
                return ('read', st)
            a = _first_touch(st.body, name)
            b = _first_touch(st.orelse, name)
            for x in (a, b):
                if x is not None and x[0] != 'kill':
                    return x
            if a is not None and b is not None:
                return a
            if a is not None or b is not None:
                # killed on one branch only: look further
                continue
        elif isinstance(st, ast.Expr):
            if isinstance(st.value, ast.Call) and isinstance(st.value.func, ast.Attribute) and st.value.func.attr == 'fill' \
                    and isinstance(st.value.func.value, ast.Name) and st.value.func.value.id == name:
                return ('kill', st)
            outk = [k.value for k in st.value.keywords if k.arg == 'out'] if isinstance(st.value, ast.Call) else []
            if any(isinstance(o, ast.Name) and o.id == name for o in outk):
                return ('kill', st)
            if any(isinstance(n, ast.Name) and n.id == name for n in ast.walk(st)):
                return ('read', st)
        elif any(isinstance(n, ast.Name) and n.id == name for n in ast.walk(st)):
            return ('read', st)
    return None


def _full(t):
    sl = t.slice
    elts = sl.elts if isinstance(sl, ast.Tuple) else [sl]
    return all(_is_full_slice(e) for e in elts)
